(* C13: byte-exact model of the wazevo compilation-cache entry codec
   (internal/engine/wazevo/engine_cache.go: serializeCompiledModule / deserializeCompiledModule).

   Layout written by serializeCompiledModule(version, cm):
     "WAZEVO" | byte(len version) | version | u32le(#functionOffsets) | u64le(offset)* |
     u64le(len executable) | executable | u32le(crc32c(executable)) |
     0                                             (no source map)
   | 1 | u64le(len wasmBinaryOffsets) | ( u64le(wasmBinaryOffset) u64le(executableOffset - &executable[0]) )*

   Bytes are Z values (0..255); a version string is the list of its bytes.
   The checksum is a parameter [crc] of the codec (Section variable): the theorems hold for every
   checksum function with 32-bit results. [crc32c] below is the concrete CRC-32/Castagnoli used by
   the correspondence run, so that the model's bytes are compared with the implementation's byte for byte.

   Go panic sites are explicit: serialize returns None (panic: `&cm.executable[0]` on an empty
   executable, or `sm.executableOffsets[i]` out of range); deserialize returns RPanic
   (`&cm.executable[0]` with the source-map flag set and no code).

   The reader is modelled as the list of remaining bytes. Every read of the Go code
   (reader.Read(header), readUint64, io.ReadFull) is `take k`: it yields k bytes or the error outcome
   (a short read, or EOF, is an error at each of these sites).
   No proofs in this file. *)
From Verif Require Import Lib.GoInt.
Open Scope Z_scope.

Definition bytes := list Z.

(* ---- little endian ---- *)
Fixpoint le_enc (n : nat) (x : Z) : bytes :=
  match n with O => [] | S k => (x mod 256) :: le_enc k (x / 256) end.

Fixpoint le_dec (bs : bytes) : Z :=
  match bs with [] => 0 | b :: r => b + 256 * le_dec r end.

Fixpoint bytes_eqb (a b : bytes) : bool :=
  match a, b with
  | [], [] => true
  | x :: a', y :: b' => (x =? y) && bytes_eqb a' b'
  | _, _ => false
  end.

Definition zlen {A} (l : list A) : Z := Z.of_nat (length l).

(* ---- the record that is cached ---- *)
Record cmod := {
  cm_offsets : list Z;   (* functionOffsets []int (signed 64-bit) *)
  cm_exec    : bytes;    (* executable *)
  cm_sm_wasm : list Z;   (* sourceMap.wasmBinaryOffsets []uint64 *)
  cm_sm_exec : list Z    (* sourceMap.executableOffsets, relative to &executable[0], as uint64 *)
}.

Definition magic : bytes := [87; 65; 90; 69; 86; 79].   (* "WAZEVO" *)

(* take k: the next k bytes and the rest, or None when fewer than k bytes remain *)
Definition take (k : Z) (inp : bytes) : option (bytes * bytes) :=
  if (0 <=? k) && (k <=? zlen inp) then Some (firstn (Z.to_nat k) inp, skipn (Z.to_nat k) inp) else None.

(* n consecutive u64le values. Go allocates the slice first and fails at the first short read; the
   guard [8 * n <=? remaining] is equivalent (CacheP.read_u64s_short) and keeps the model executable
   on corrupted counts. *)
Fixpoint read_u64s_n (n : nat) (inp : bytes) : option (list Z * bytes) :=
  match n with
  | O => Some ([], inp)
  | S m => match take 8 inp with
           | None => None
           | Some (b, r) => match read_u64s_n m r with
                            | None => None
                            | Some (xs, r') => Some (le_dec b :: xs, r')
                            end
           end
  end.

Definition read_u64s (n : Z) (inp : bytes) : option (list Z * bytes) :=
  if 8 * n <=? zlen inp then read_u64s_n (Z.to_nat n) inp else None.

(* source-map pairs *)
Fixpoint read_pairs_n (n : nat) (inp : bytes) : option (list Z * list Z * bytes) :=
  match n with
  | O => Some ([], [], inp)
  | S m => match take 8 inp with
           | None => None
           | Some (a, r) =>
             match take 8 r with
             | None => None
             | Some (b, r1) => match read_pairs_n m r1 with
                               | None => None
                               | Some (ws, es, r') => Some (le_dec a :: ws, le_dec b :: es, r')
                               end
             end
           end
  end.

Definition read_pairs (n : Z) (inp : bytes) : option (list Z * list Z * bytes) :=
  if 16 * n <=? zlen inp then read_pairs_n (Z.to_nat n) inp else None.

(* the loop writing the pairs: index i of executableOffsets must exist (else Go panics) *)
Fixpoint ser_pairs (ws es : list Z) : option bytes :=
  match ws with
  | [] => Some []
  | w :: ws' => match es with
                | [] => None
                | e :: es' => match ser_pairs ws' es' with
                              | Some r => Some (le_enc 8 w ++ le_enc 8 e ++ r)
                              | None => None
                              end
                end
  end.

(* deserialization result; ROk carries the unread rest of the input *)
Inductive result := ROk (cm : cmod) (rest : bytes) | RStale | RError | RPanic.
Inductive outcome := Ok (cm : cmod) | Stale | Error | Panic.

Section Codec.
Variable crc : bytes -> Z.

(* serializeCompiledModule; None = Go panic *)
Definition ser_head (v : bytes) (cm : cmod) : bytes :=
  magic ++ [wrap 8 (zlen v)] ++ v
  ++ le_enc 4 (wrap 32 (zlen (cm_offsets cm)))
  ++ flat_map (fun o => le_enc 8 (wrap 64 o)) (cm_offsets cm)
  ++ le_enc 8 (zlen (cm_exec cm)) ++ cm_exec cm ++ le_enc 4 (crc (cm_exec cm)).

Definition serialize (v : bytes) (cm : cmod) : option bytes :=
  match cm_sm_exec cm with
  | [] => Some (ser_head v cm ++ [0])
  | _ :: _ =>
    match cm_exec cm with
    | [] => None                                   (* &cm.executable[0] *)
    | _ :: _ => match ser_pairs (cm_sm_wasm cm) (cm_sm_exec cm) with
                | Some p => Some (ser_head v cm ++ [1] ++ le_enc 8 (zlen (cm_sm_wasm cm)) ++ p)
                | None => None                     (* sm.executableOffsets[i] out of range *)
                end
    end
  end.

(* the part of deserializeCompiledModule after the executable: source-map flag and pairs *)
Definition deser_tail (offs : list Z) (ex : bytes) (r : bytes) : result :=
  match take 1 r with
  | None => RError
  | Some (fb, r1) =>
    if nth 0 fb 0 =? 1 then
      match take 8 r1 with
      | None => RError
      | Some (lb, r2) =>
        match ex with
        | [] => RPanic                             (* &cm.executable[0] *)
        | _ :: _ =>
          match read_pairs (le_dec lb) r2 with
          | None => RError
          | Some (ws, es, r3) =>
            ROk {| cm_offsets := offs; cm_exec := ex; cm_sm_wasm := ws; cm_sm_exec := es |} r3
          end
        end
      end
    else ROk {| cm_offsets := offs; cm_exec := ex; cm_sm_wasm := []; cm_sm_exec := [] |} r1
  end.

(* the part of deserializeCompiledModule after the header: n = functionsNum *)
Definition deser_body (n : Z) (r1 : bytes) : result :=
  match read_u64s n r1 with
  | None => RError
  | Some (offs64, r2) =>
    let offs := map (swrap 64) offs64 in               (* int(offset) *)
    match take 8 r2 with
    | None => RError
    | Some (lb, r3) =>
      let elen := le_dec lb in
      if 0 <? elen then
        match take elen r3 with                        (* mmap + io.ReadFull *)
        | None => RError
        | Some (ex, r4) =>
          match take 4 r4 with
          | None => RError
          | Some (cb, r5) => if le_dec cb =? crc ex then deser_tail offs ex r5 else RError
          end
        end
      else deser_tail offs [] r3                       (* no code: the checksum is NOT read *)
    end
  end.

(* deserializeCompiledModule(v, reader over inp) *)
Definition deserialize_c (v : bytes) (inp : bytes) : result :=
  let H := 6 + 1 + zlen v + 4 in                      (* cacheHeaderSize *)
  match take H inp with
  | None => RError                                     (* read error / invalid header length *)
  | Some (hd, r1) =>
    if negb (bytes_eqb (firstn 6 hd) magic) then RError else
    let vs := nth 6 hd 0 in                            (* versionSize *)
    let vend := 7 + vs in                              (* cachedVersionEnd *)
    if H <=? vend then RStale else
    if negb (bytes_eqb (firstn (Z.to_nat vs) (skipn 7 hd)) v) then RStale else
    deser_body (le_dec (skipn (Z.to_nat (H - 4)) hd)) r1   (* functionsNum = u32le(header[len-4:]) *)
  end.

Definition forget (r : result) : outcome :=
  match r with ROk cm _ => Ok cm | RStale => Stale | RError => Error | RPanic => Panic end.

Definition deserialize (v inp : bytes) : outcome := forget (deserialize_c v inp).

(* number of bytes consumed by a successful deserialization *)
Definition consumed (v inp : bytes) : option Z :=
  match deserialize_c v inp with ROk _ r => Some (zlen inp - zlen r) | _ => None end.

End Codec.

(* ---- concrete CRC-32/Castagnoli (hash/crc32 with crc32.Castagnoli), bitwise, reflected ---- *)
Definition crc_step (c : Z) : Z :=
  if Z.odd c then Z.lxor (Z.shiftr c 1) 2197175160 (* 0x82F63B78 *) else Z.shiftr c 1.
Definition crc_byte (c b : Z) : Z :=
  crc_step (crc_step (crc_step (crc_step (crc_step (crc_step (crc_step (crc_step (Z.lxor c b)))))))).
Definition crc32c (bs : bytes) : Z :=
  (Z.lxor (fold_left crc_byte bs 4294967295) 4294967295) mod 2 ^ 32.

(* ---- correspondence cases ---- *)
Definition list_eqb (a b : list Z) : bool := bytes_eqb a b.

Definition cmod_eqb (a b : cmod) : bool :=
  list_eqb (cm_offsets a) (cm_offsets b) && list_eqb (cm_exec a) (cm_exec b) &&
  list_eqb (cm_sm_wasm a) (cm_sm_wasm b) && list_eqb (cm_sm_exec a) (cm_sm_exec b).

Definition outcome_eqb (a b : outcome) : bool :=
  match a, b with
  | Ok x, Ok y => cmod_eqb x y
  | Stale, Stale => true | Error, Error => true | Panic, Panic => true
  | _, _ => false
  end.

(* observed outcome of a truncation: 0 = Error (the common case), 1 = Ok with the SAME module as the
   complete entry, otherwise an explicit outcome *)
Inductive obs := OErr | OSame | OOther (o : outcome).

Definition obs_matches (full : outcome) (model : outcome) (o : obs) : bool :=
  match o with
  | OErr => outcome_eqb model Error
  | OSame => match full with Ok _ => outcome_eqb model full | _ => false end
  | OOther x => outcome_eqb model x
  end.

(* a probe: reader version (relative to the writer's), patches (position, new byte) applied to the entry,
   bytes appended, and the observed outcome (relative to the outcome on the complete entry, to keep
   the generated case files small) *)
Inductive vspec := VSame | VPatch (ps : list (Z * Z)) | VLit (v : bytes).
Inductive pout := PO (o : outcome) | PSame | POffs (l : list Z) | PSm (ws es : list Z).
Definition probe := (vspec * list (Z * Z) * bytes * pout)%type.

Definition patch1 (e : bytes) (pb : Z * Z) : bytes :=
  let n := Z.to_nat (fst pb) in firstn n e ++ [snd pb] ++ skipn (S n) e.

Definition apply_patches (e : bytes) (ps : list (Z * Z)) : bytes := fold_left patch1 ps e.

Definition version_of (v : bytes) (s : vspec) : bytes :=
  match s with VSame => v | VPatch ps => apply_patches v ps | VLit w => w end.

Definition pout_matches (full model : outcome) (p : pout) : bool :=
  match p with
  | PO o => outcome_eqb model o
  | PSame => match full with Ok _ => outcome_eqb model full | _ => false end
  | POffs l => match full with
               | Ok cm => outcome_eqb model (Ok {| cm_offsets := l; cm_exec := cm_exec cm;
                                                   cm_sm_wasm := cm_sm_wasm cm; cm_sm_exec := cm_sm_exec cm |})
               | _ => false end
  | PSm ws es => match full with
                 | Ok cm => outcome_eqb model (Ok {| cm_offsets := cm_offsets cm; cm_exec := cm_exec cm;
                                                     cm_sm_wasm := ws; cm_sm_exec := es |})
                 | _ => false end
  end.

(* a codec case:
   version, module, what serialize returned (None = panic), the outcome on the complete entry,
   the observation for every truncation length 0 .. len-1 (in order), and the probes *)
Definition ccase := (bytes * cmod * option bytes * outcome * list obs * list probe)%type.

Fixpoint trunc_diff (v e : bytes) (full : outcome) (k : nat) (os : list obs) : Z :=
  match os with
  | [] => -1
  | o :: r => if obs_matches full (deserialize crc32c v (firstn k e)) o
              then trunc_diff v e full (S k) r else Z.of_nat k
  end.

Fixpoint probe_diff (v e : bytes) (full : outcome) (i : Z) (ps : list probe) : Z :=
  match ps with
  | [] => -1
  | (vs, pt, sfx, o) :: r =>
    if pout_matches full (deserialize crc32c (version_of v vs) (apply_patches e pt ++ sfx)) o
    then probe_diff v e full (i + 1) r else i
  end.

Definition opt_bytes_eqb (a b : option bytes) : bool :=
  match a, b with Some x, Some y => bytes_eqb x y | None, None => true | _, _ => false end.

(* -1 = agreement; -2 = serialize differs; -3 = outcome on the complete entry differs;
   -4 = number of truncation observations is not the entry length;
   k >= 0 = truncation to k bytes differs; 1000000 + j = probe j differs *)
Definition check_ccase (c : ccase) : Z :=
  let '(v, cm, ser, full, truncs, probes) := c in
  if negb (opt_bytes_eqb (serialize crc32c v cm) ser) then -2 else
  match ser with
  | None => -1
  | Some e =>
    if negb (outcome_eqb (deserialize crc32c v e) full) then -3 else
    if negb (Nat.eqb (length truncs) (length e)) then -4 else
    let t := trunc_diff v e full 0 truncs in
    if negb (t =? -1) then t else
    let p := probe_diff v e full 0 probes in if p =? -1 then -1 else 1000000 + p
  end.

Fixpoint mismatches (i : Z) (cs : list ccase) : list (Z * Z) :=
  match cs with
  | [] => []
  | c :: r => let d := check_ccase c in
              if d =? -1 then mismatches (i + 1) r else (i, d) :: mismatches (i + 1) r
  end.

(* an entry planted under the final name and then used by a fresh runtime. Observed class:
   0 = used as it is, 1 = discarded and compiled afresh, 2 = reported as an error, 3 = host panic *)
Definition pcase := (bytes * bytes * Z)%type.

Definition outcome_class (o : outcome) : Z :=
  match o with Ok _ => 0 | Stale => 1 | Error => 2 | Panic => 3 end.

Fixpoint p_mismatches (i : Z) (cs : list pcase) : list (Z * Z) :=
  match cs with
  | [] => []
  | (v, inp, cl) :: r =>
    let m := outcome_class (deserialize crc32c v inp) in
    if m =? cl then p_mismatches (i + 1) r else (i, m) :: p_mismatches (i + 1) r
  end.
