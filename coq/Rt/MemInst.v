(* C14 (also used by C12/C02): model of wasm.MemoryInstance — size, growth, host accessors.
   The arithmetic comes from coq/Gen (regenerated from internal/wasm/memory.go, module.go and
   binary/decoder.go on every run); the control structure of Grow and of the accessors is
   transcribed by hand and tied to the code by the C14 correspondence harness.
   Go panics (slice bounds) are explicit [Panic] outcomes. No proofs in this file. *)
From Verif Require Import Lib.GoInt Gen.GenWasm Gen.GenBinary.
Open Scope Z_scope.

(* ---- configuration: what the binary decoder derives from (min, max?) and the runtime config ---- *)
Record cfg := { c_min : Z; c_hasmax : bool; c_max : Z; c_limit : Z; c_capmax : bool; c_alloc : bool }.

Definition sized (c : cfg) : Z * Z * Z :=
  newMemorySizer (c_limit c) (c_capmax c) (c_min c) (negb (c_hasmax c)) (c_max c).

Definition accept (c : cfg) : bool :=
  let '(mn, cp, mx) := sized c in is_nil (Memory_Validate cp mx mn (c_limit c)).

(* ---- instance ---- *)
Record mem := { m_len : Z;               (* len(Buffer) in bytes *)
                m_min : Z; m_cap : Z; m_max : Z;   (* pages *)
                m_alloc : bool;          (* an experimental.MemoryAllocator backs the buffer *)
                m_data : list (Z * Z) }. (* sparse contents, newest first; unwritten bytes are 0 *)

Definition mem_init (c : cfg) : mem :=
  let '(mn, cp, mx) := sized c in
  {| m_len := MemoryPagesToBytesNum mn; m_min := mn;
     m_cap := (if c_alloc c then memoryBytesNumToPages (MemoryPagesToBytesNum mn) else cp);
     m_max := mx; m_alloc := c_alloc c; m_data := [] |}.

Definition pages (m : mem) : Z := MemoryInstance_Pages (m_len m).

Definition with_len (m : mem) (l cp : Z) : mem :=
  {| m_len := l; m_min := m_min m; m_cap := cp; m_max := m_max m; m_alloc := m_alloc m; m_data := m_data m |}.

(* MemoryInstance.Grow (non-shared memory; the allocator of the harness always succeeds) *)
Definition grow (m : mem) (delta : Z) : mem * option Z :=
  let cur := pages m in
  if delta =? 0 then (m, Some cur) else
  let newPages := wrap 32 (cur + delta) in
  if (m_max m <? newPages) || (swrap 32 delta <? 0) then (m, None)
  else if m_alloc m then (with_len m (MemoryPagesToBytesNum newPages) newPages, Some cur)
  else if m_cap m <? newPages then (with_len m (m_len m + MemoryPagesToBytesNum delta) newPages, Some cur)
  else (with_len m (MemoryPagesToBytesNum newPages) (m_cap m), Some cur).

(* ---- contents ---- *)
Fixpoint rd (d : list (Z * Z)) (a : Z) : Z :=
  match d with
  | [] => 0
  | (k, v) :: r => if k =? a then v else rd r a
  end.

Fixpoint rd_le (d : list (Z * Z)) (a : Z) (n : nat) : Z :=
  match n with O => 0 | S k => rd d a + 256 * rd_le d (a + 1) k end.

Fixpoint wr_le (d : list (Z * Z)) (a : Z) (n : nat) (v : Z) : list (Z * Z) :=
  match n with O => d | S k => (a, v mod 256) :: wr_le d (a + 1) k (v / 256) end.

Fixpoint wr_bytes (d : list (Z * Z)) (a : Z) (bs : list Z) : list (Z * Z) :=
  match bs with [] => d | b :: r => (a, b mod 256) :: wr_bytes d (a + 1) r end.

Definition with_data (m : mem) (d : list (Z * Z)) : mem :=
  {| m_len := m_len m; m_min := m_min m; m_cap := m_cap m; m_max := m_max m; m_alloc := m_alloc m; m_data := d |}.

(* ---- host accessors. Outcome: Ok v | Fail (ok=false) | Panic (Go runtime error) ---- *)
Inductive outcome := Ok (v : Z) | Fail | Panic.

Definition has_size (m : mem) (off n : Z) : bool := MemoryInstance_hasSize (m_len m) off n.

(* Buffer[offset:] followed by a fixed-width little-endian read: needs offset <= len and >= n bytes *)
Definition slice_from_ok (m : mem) (off n : Z) : bool := (off <=? m_len m) && (n <=? m_len m - off).

Definition read_fixed (m : mem) (off : Z) (n : nat) : outcome :=
  if has_size m off (Z.of_nat n) then
    if slice_from_ok m off (Z.of_nat n) then Ok (rd_le (m_data m) off n) else Panic
  else Fail.

(* Read(offset, byteCount): end computed in uint64; Buffer[offset:end:end] *)
Definition read_region (m : mem) (off n : Z) : outcome :=
  if has_size m off n then
    let e := wrap 64 (off + n) in
    if (off <=? e) && (e <=? m_len m) then Ok 0 else Panic
  else Fail.

Definition write_fixed (m : mem) (off : Z) (n : nat) (v : Z) : mem * outcome :=
  if has_size m off (Z.of_nat n) then
    if slice_from_ok m off (Z.of_nat n) then (with_data m (wr_le (m_data m) off n v), Ok 0) else (m, Panic)
  else (m, Fail).

Definition write_region (m : mem) (off : Z) (bs : list Z) : mem * outcome :=
  if has_size m off (Z.of_nat (length bs)) then
    if off <=? m_len m then (with_data m (wr_bytes (m_data m) off bs), Ok 0) else (m, Panic)
  else (m, Fail).

(* ---- guest view: memory.size as each engine computes it ---- *)
Definition size_interp (m : mem) : Z := wrap 32 (shr (m_len m) 16).         (* uint32(len >> 16) *)
Definition size_compiler (m : mem) : Z := shr (wrap 32 (m_len m)) 16.      (* 32-bit load of the length: F12 *)

(* ---- operations of the correspondence harness ---- *)
Inductive op :=
| OGrow (d : Z)                      (* host Grow or guest memory.grow: same function *)
| OPages                             (* host Grow(0) *)
| OSizeBytes                         (* host Size(): documented to wrap at 4GiB *)
| ORead (n : nat) (off : Z)          (* ReadByte / ReadUint16Le / ReadUint32Le / ReadUint64Le *)
| OReadRegion (off n : Z)            (* Read *)
| OWrite (n : nat) (off v : Z)
| OWriteRegion (off : Z) (bs : list Z).

Definition obs_of_opt (o : option Z) : outcome := match o with Some v => Ok v | None => Fail end.

Definition step (m : mem) (o : op) : mem * outcome :=
  match o with
  | OGrow d => let '(m', r) := grow m d in (m', obs_of_opt r)
  | OPages => (m, Ok (pages m))
  | OSizeBytes => (m, Ok (MemoryInstance_Size (m_len m)))
  | ORead n off => (m, read_fixed m off n)
  | OReadRegion off n => (m, read_region m off n)
  | OWrite n off v => write_fixed m off n v
  | OWriteRegion off bs => write_region m off bs
  end.

Fixpoint run (m : mem) (ops : list op) : mem * list outcome :=
  match ops with
  | [] => (m, [])
  | o :: r => let '(m1, x) := step m o in let '(m2, xs) := run m1 r in (m2, x :: xs)
  end.

Definition final (m : mem) (ops : list op) : mem := fold_left (fun s o => fst (step s o)) ops m.

(* comparison used by the correspondence check: index of the first differing observation *)
Definition outcome_eqb (a b : outcome) : bool :=
  match a, b with Ok x, Ok y => x =? y | Fail, Fail => true | Panic, Panic => true | _, _ => false end.

Fixpoint first_diff (i : Z) (xs ys : list outcome) : Z :=
  match xs, ys with
  | [], [] => -1
  | x :: xr, y :: yr => if outcome_eqb x y then first_diff (i + 1) xr yr else i
  | _, _ => i
  end.

(* a case: configuration, whether the implementation accepted it, operations, observations *)
Definition case := (cfg * bool * list op * list outcome)%type.

Definition check_case (c : case) : Z :=
  let '(cf, acc, ops, obs) := c in
  if negb (Bool.eqb (accept cf) acc) then -2
  else if acc then first_diff 0 (snd (run (mem_init cf) ops)) obs else -1.

Fixpoint mismatches (i : Z) (cs : list case) : list (Z * Z) :=
  match cs with
  | [] => []
  | c :: r => let d := check_case c in
              if d =? -1 then mismatches (i + 1) r else (i, d) :: mismatches (i + 1) r
  end.
