(* C10, anonymous modules and the registration window of Runtime.InstantiateModule.

   Rt/Registry.v already transcribes the code at lock-and-atomic granularity. This file makes explicit what that
   transcription means for ANONYMOUS modules (name 0 = the empty module name: WithName(""), or no WithName and no name
   section) and adds what is needed to compare single forced schedules of the real code with the step model:

   InstantiateModule, as runtime.go / store.go perform it                         micro steps of [compile (OInst h n i)]
     HostModuleBuilder.Instantiate only: failIfClosed; GetFunctionTypeIDs (lock)    MChkRt; MTypeIDs
     runtime.failIfClosed (atomic load of runtime.closed)                           MChkRt
     toSysContext; Store.instantiate: engine lookup of the compiled code,           MBuild n i
       imports, tables, memory, data; the wasm START SECTION function runs here
       (user code: host functions it calls) — BEFORE registration;
       verifYield "instantiate:before-register"
     Store.registerModule under the store lock: nil-map ("already closed") test     MRegister n i
       for EVERY module; name test and insertion for named ones; link in the list
       (on failure: m.Close = CAS, deleteModule, ensureResourcesClosed)             (close_fail i e)
     m.CloseNotifier = ..; m.CodeCloser = .. (plain writes)                         MAttach i
     config.startFunctions ("_start") run here — AFTER registration; return         MRet ROk
   Every other thread (a whole Runtime.Close in particular) can be scheduled between any two of these steps.

   An anonymous instance claims no name, but it is linked in Store.moduleList ([mlist]) and logged in [registered]
   exactly like a named one, Runtime.Close sweeps it, and the closed-store test applies to it. The seeded variant
   [RegSeeded] is the refactoring of seed C10c: the nil-map test moved into a helper that only runs for named modules.
   No proofs in this file. *)
From Coq Require Import List Bool Arith ZArith.
From Verif Require Import Rt.Registry.
Import ListNotations.

(* ------------------------------------------------------------------ where an instantiate is when Runtime.Close runs *)
Inductive window :=
| WInvoke      (* not yet past failIfClosed *)
| WChecked     (* past failIfClosed, the instance is not built yet *)
| WBuilt       (* instance built (start section ran), registerModule not yet called: the window of seed C10c *)
| WRegistered  (* registered, close notifier / code closer not yet attached *)
| WAttached.   (* attached ("_start" functions run here), not yet returned *)

(* number of steps (invocation included) a binary instantiate has taken when it sits in the window *)
Definition window_steps (w : window) : nat :=
  match w with WInvoke => 1 | WChecked => 2 | WBuilt => 3 | WRegistered => 4 | WAttached => 5 end.
Definition all_windows : list window := [WInvoke; WChecked; WBuilt; WRegistered; WAttached].

(* ------------------------------------------------------------------ the two registerModule functions *)
Inductive regvariant := RegReal | RegSeeded.

(* the tail of registerModule: m.next = s.moduleList; ..; s.moduleList = m — no test of any kind *)
Definition link_only (s : impl) (i : inst) : impl :=
  {| nmap := nmap s; mlist := i :: mlist s; closedw := closedw s; iname := iname s; rt_closed := rt_closed s;
     eng_closed := eng_closed s; notif := notif s; attached := attached s; res_log := res_log s; notified := notified s;
     registered := i :: registered s |}.

(* seed C10c: `if m.ModuleName != "" { if err := s.claimName(m); .. }` then link. claimName performs exactly the tests and
   the insertion of the real function, so the named path IS the real step; the anonymous path only links. *)
Definition mstep_v (v : regvariant) (s : impl) (m : micro) (k : list micro) : impl * list micro :=
  match v with
  | RegReal => mstep s m k
  | RegSeeded =>
      match m with
      | MRegister n i => if n =? 0 then (link_only s i, k) else mstep s m k
      | _ => mstep s m k
      end
  end.

(* [Registry.tstep] with the micro step as a parameter *)
Definition tstep_v (v : regvariant) (atomic : bool) (c : config) (k : nat) : option config :=
  match nth_error (thrs c) k with
  | None => None
  | Some t =>
      if atomic && blocked (hold c) k then None else
      match cur t with
      | None =>
          match todo t with
          | [] => None
          | o :: rest =>
              Some {| st := st c; thrs := replace_nth k {| todo := rest; cur := Some (o, clk c, compile o) |} (thrs c);
                      clk := S (clk c); hist := hist c; hold := hold c |}
          end
      | Some (o, inv, []) => None
      | Some (o, inv, MRet r :: _) =>
          Some {| st := st c; thrs := replace_nth k {| todo := todo t; cur := None |} (thrs c); clk := S (clk c);
                  hist := {| e_thr := k; e_op := o; e_ret := r; e_inv := inv; e_res := clk c |} :: hist c;
                  hold := hold c |}
      | Some (o, inv, m :: ms) =>
          let '(s', ms') := mstep_v v (st c) m ms in
          Some {| st := s'; thrs := replace_nth k {| todo := todo t; cur := Some (o, inv, ms') |} (thrs c);
                  clk := S (clk c); hist := hist c;
                  hold := (if atomic then (if in_window ms' then Some k else None) else None) |}
      end
  end.

Fixpoint run_sched_v (v : regvariant) (atomic : bool) (c : config) (sched : list nat) : option config :=
  match sched with
  | [] => Some c
  | k :: r => match tstep_v v atomic c k with Some c' => run_sched_v v atomic c' r | None => None end
  end.

(* ------------------------------------------------------------------ predicates used by the statements *)
Definition is_rtclose (o : op) : bool := match o with ORtClose _ => true | _ => false end.

(* thread [k] is about to run the locked loop of Store.CloseWithExitCode *)
Definition sweeping (c : config) (k : nat) : Prop :=
  exists t o inv x ms, nth_error (thrs c) k = Some t /\ cur t = Some (o, inv, MStoreClose x :: ms).

(* no Runtime.Close is in progress in any thread *)
Definition no_rtclose_in_flight (c : config) : Prop :=
  forall t o inv ms, In t (thrs c) -> cur t = Some (o, inv, ms) -> is_rtclose o = false.

(* ------------------------------------------------------------------ single forced schedules, block by block *)
(* thread [k] runs until its current (or, when idle, its next) operation has returned: the response step is the only
   one that appends an event *)
Fixpoint finish_op_v (v : regvariant) (a : bool) (fuel : nat) (c : config) (k : nat) : option config :=
  match fuel with
  | O => None
  | S f =>
      match tstep_v v a c k with
      | None => None
      | Some c' => if length (hist c') =? length (hist c) then finish_op_v v a f c' k else Some c'
      end
  end.

(* a block (k, 0) lets thread k finish its operation; a block (k, S n) lets it take S n steps *)
Fixpoint run_blocks_v (v : regvariant) (a : bool) (c : config) (bs : list (nat * nat)) : option config :=
  match bs with
  | [] => Some c
  | (k, O) :: r => match finish_op_v v a 64 c k with Some c' => run_blocks_v v a c' r | None => None end
  | (k, n) :: r => match run_sched_v v a c (repeat k n) with Some c' => run_blocks_v v a c' r | None => None end
  end.

(* forced-schedule case: close-atomic?, setup operations, program, blocks, per-thread results observed on the real code,
   and per instance (identity, closed word non-zero? 0/1, notifications fired, fs closes — 99 = not observed, linked in
   Store.moduleList? 0/1 — 9 = not observed) at the end *)
Definition sched_case := (bool * list op * list (list op) * list (nat * nat) * list (list ret) * list (inst * nat * nat * nat * nat))%type.

Definition final_ok (s : impl) (fin : list (inst * nat * nat * nat * nat)) : bool :=
  forallb (fun x => let '(i, cl, nn, nf, li) := x in
                    Bool.eqb (is_closed s i) (cl =? 1) && (count i (notified s) =? nn) &&
                    ((nf =? 99) || (count i (res_log s) =? nf)) &&
                    ((li =? 9) || Bool.eqb (mem i (mlist s)) (li =? 1))) fin.

(* 0 = the model, run under the same schedule, returns the same results and ends with the same closed words and counters;
   1 = the model cannot follow the schedule; 2 = the schedule does not complete the program; 3 = results differ;
   4 = final closed words / counters / list membership differ *)
Definition check_sched_v (v : regvariant) (x : sched_case) : Z :=
  let '(a, pre, prog, bs, obs, fin) := x in
  match run_blocks_v v a (init (fst (run_ops impl0 pre)) prog) bs with
  | None => 1%Z
  | Some c =>
      if negb (finished c) then 2%Z
      else if negb (retss_eqb (rets_of c (length prog)) obs) then 3%Z
      else if negb (final_ok (st c) fin) then 4%Z
      else 0%Z
  end.

Fixpoint sched_mismatches (i : Z) (cs : list sched_case) : list (Z * Z) :=
  match cs with
  | [] => []
  | c :: r => let d := check_sched_v RegReal c in
              if (d =? 0)%Z then sched_mismatches (i + 1) r else (i, d) :: sched_mismatches (i + 1) r
  end.

(* sequential history: operations, and per instance whether it is linked in Store.moduleList at the end (observed);
   result = the instances whose list membership differs from the model's *)
Definition seq_list_diff (ops : list op) (obs : list (inst * bool)) : list inst :=
  let s := fst (run_ops impl0 ops) in
  map fst (filter (fun x => negb (Bool.eqb (mem (fst x) (mlist s)) (snd x))) obs).

Fixpoint seq_list_mismatches (i : Z) (cs : list (list op * list (inst * bool))) : list Z :=
  match cs with
  | [] => []
  | (ops, obs) :: r => match seq_list_diff ops obs with
                       | [] => seq_list_mismatches (i + 1) r
                       | _ => i :: seq_list_mismatches (i + 1) r
                       end
  end.

(* the schedule "the instantiate of thread 0 sits in window [w]; thread 1's Runtime.Close runs to completion; thread 0
   finishes" for a binary (host = false) instantiate *)
Definition window_blocks (w : window) : list (nat * nat) := [(0, window_steps w); (1, 0); (0, 0)].
Definition window_prog (n : name) (i : inst) (c : code) : list (list op) := [[OInst false n i]; [ORtClose c]].

(* what thread 0's instantiate returned, and whether it handed out a module that is still open at the end *)
Definition window_outcome (v : regvariant) (s0 : impl) (n : name) (i : inst) (w : window) : option (list ret * bool) :=
  match run_blocks_v v true (init s0 (window_prog n i 0)) (window_blocks w) with
  | None => None
  | Some c => let r := nth 0 (rets_of c 2) [] in
              Some (r, rets_eqb r [ROk] && negb (is_closed (st c) i))
  end.
