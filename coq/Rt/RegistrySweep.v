(* C10: the relaxed specification of Registry.v, one level finer.

   Registry.v makes the locked loop of Store.CloseWithExitCode ONE step of the model ([MStoreClose]) and, in the relaxed
   specification that classifies the runtime-close window (open finding F33), lets a Runtime.Close take effect in two
   parts: [mark] (flag) and [finish] (all modules closed, names released). That is exact for every operation that takes
   the store lock (instantiate, lookup, a module's own delete) and for every operation on ONE module (its closed word is
   written once). It is not exact for an observer that reads the closed words of TWO modules without the lock
   (api.Module.IsClosed is an atomic load): the loop closes the listed modules one after the other, newest first, and such
   an observer can see the newer one closed with the runtime's exit code and, later, the older one still open.

   Here the finish of a Runtime.Close is split further: while that close is pending (after its mark, before its finish) it
   may close any open module individually ([H2Sweep i]); the finish closes whatever is left and releases the names. The
   names stay in place until the finish (the map is niled at the end of the loop, under the lock).
   No proofs in this file. *)
From Coq Require Import List Bool Arith ZArith.
From Verif Require Import Rt.Registry.
Import ListNotations.

Inductive half2 := H2Whole | H2Mark | H2Finish | H2Sweep (i : inst).

Definition rspec_step2 (rs : rspec) (x : half2 * nat * op) : rspec * ret :=
  let '(h, id, o) := x in
  match h with
  | H2Whole => rspec_step true rs (HWhole, id, o)
  | H2Mark => rspec_step true rs (HMark, id, o)
  | H2Finish => rspec_step true rs (HFinish, id, o)
  | H2Sweep i =>
      let s := r_s rs in
      match r_rtpend rs with
      | Some (id', c') =>
          if (id' =? id) && mem i (opened s)
          then ({| r_s := {| names := names s; opened := remove i (opened s); exits := (i, c') :: exits s; closed_rt := closed_rt s |};
                   r_pend := r_pend rs; r_rtpend := r_rtpend rs |}, ROk)
          else (rs, ROk)
      | None => (rs, ROk)
      end
  end.

Record pev2 := { q_half : half2; q_id : nat; q_ev : ev }.

Definition compared (h : half2) : bool := match h with H2Whole | H2Finish => true | _ => false end.

Fixpoint rlin2 (fuel : nat) (rs : rspec) (pending : list pev2) : bool :=
  match fuel with
  | O => match pending with [] => true | _ => false end
  | S f =>
      match pending with
      | [] => true
      | _ =>
          ex_lazy (fun k =>
            match nth_error pending k with
            | None => false
            | Some p =>
                let e := q_ev p in
                let rest := remove_at k pending in
                if all_lazy (fun p' => negb (e_res (q_ev p') <? e_inv e)) rest then
                  (let '(rs', r) := rspec_step2 rs (q_half p, q_id p, e_op e) in
                   if (if compared (q_half p) then ret_eqb r (e_ret e) else true) then rlin2 f rs' rest else false)
                else false
            end) (seq 0 (length pending))
      end
  end.

(* every Close is split into mark and finish; every Runtime.Close into mark, one sweep step per instance of [insts], finish *)
Fixpoint split_events2 (insts : list inst) (id : nat) (h : list ev) : list pev2 :=
  match h with
  | [] => []
  | e :: r =>
      (match e_op e with
       | OClose _ _ => [{| q_half := H2Mark; q_id := id; q_ev := e |}; {| q_half := H2Finish; q_id := id; q_ev := e |}]
       | ORtClose _ => {| q_half := H2Mark; q_id := id; q_ev := e |} ::
                       map (fun i => {| q_half := H2Sweep i; q_id := id; q_ev := e |}) insts ++
                       [{| q_half := H2Finish; q_id := id; q_ev := e |}]
       | _ => [{| q_half := H2Whole; q_id := id; q_ev := e |}]
       end) ++ split_events2 insts (S id) r
  end.

(* the check with the order of the pseudo events supplied from outside, as [Registry.rlin_check_perm] *)
Definition rlin2_check_perm (s : spec) (h : list ev) (insts : list inst) (perm : list nat) : bool :=
  let ps := split_events2 insts 0 h in
  match ps with
  | [] => true
  | p0 :: _ =>
      if perm_ok perm (length ps)
      then rlin2 (length ps) {| r_s := s; r_pend := []; r_rtpend := None |} (map (fun i => nth i ps p0) perm)
      else false
  end.

Definition rlin2_check (s : spec) (h : list ev) (insts : list inst) : bool :=
  let ps := split_events2 insts 0 h in rlin2 (length ps) {| r_s := s; r_pend := []; r_rtpend := None |} ps.

(* (history, instances, order of the pseudo events); result 1 = the module-by-module explanation checks *)
Fixpoint relaxed2_all (hs : list (list ev * list inst * list nat)) : list Z :=
  match hs with
  | [] => []
  | (h, insts, perm) :: r => (if rlin2_check_perm spec0 h insts perm then 1%Z else 0%Z) :: relaxed2_all r
  end.
