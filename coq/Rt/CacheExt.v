(* C13, second part: what the cache is keyed by, what a reader allocates, and a compile session.

   (1) THE KEY. runtime.CompileModule calls Module.AssignModuleID(wasm, listeners, ensureTermination)
       (internal/wasm/module.go): ID = sha256( wasm ++ for i, l := range listeners { u32le(i) ; l != nil }
       ++ [ensureTermination] ). wazevo's fileCacheKey (engine_cache.go) re-hashes it:
       key = sha256( ID ++ "WAZEVO" ++ u64le(platform.CpuFeatures.Raw()) ); the file name is hex(key).
       NOTHING else reaches the key: not CoreFeatures, memory limit pages, capacity-from-max, debug info,
       custom sections (these act before the cache is consulted - decoding / validation - or not on the
       generated code at all); the wazero version selects the directory and is stored in the entry.
       [kin] is the record of the inputs; [id_pre] / [key_suffix] are the byte strings that are hashed.
       The hash is a Section variable [H : list Z -> Z] (a digest as a number); the second stage takes the
       first digest as ONE element in front of the suffix (a fixed-width encoding of it is injective).

   (2) ALLOCATION. [alloc_c v inp] = (bytes of the functionOffsets slice made from the count field BEFORE any
       offset is read, length handed to MmapCodeSegment BEFORE the code is read): what
       deserializeCompiledModule asks the system for on the strength of two unchecked fields.

   (3) SESSION. [compile] is engine.CompileModule with a file cache, one call at a time:
       Get; deserialize; on Stale Delete; compile afresh; Add. [gen] is the compiler: a FUNCTION of the
       inputs (determinism is observed by the correspondence run, not proved).

   No proofs in this file. *)
From Verif Require Import Lib.GoInt Rt.CacheCodec Rt.CacheFs.
Open Scope Z_scope.

(* ------------------------------------------------------------------ (1) the key *)
Record kin := {
  k_wasm : bytes;          (* the binary as passed to CompileModule *)
  k_lis  : list bool;      (* listeners: [] when no factory is in the context, else one flag per LOCAL function: listener != nil *)
  k_term : bool;           (* RuntimeConfig.WithCloseOnContextDone *)
  k_cpu  : Z               (* platform.CpuFeatures.Raw() *)
}.

Definition kb2z (b : bool) : Z := if b then 1 else 0.

Fixpoint lis_bytes (i : Z) (ls : list bool) : bytes :=
  match ls with
  | [] => []
  | l :: r => le_enc 4 (wrap 32 i) ++ [kb2z l] ++ lis_bytes (i + 1) r
  end.

(* everything written into the first sha256 state, in order *)
Definition id_pre (i : kin) : bytes := k_wasm i ++ lis_bytes 0 (k_lis i) ++ [kb2z (k_term i)].

(* what follows the 32 ID bytes in the second sha256 state *)
Definition key_suffix (cpu : Z) : bytes := magic ++ le_enc 8 (wrap 64 cpu).

Section Key.
Variable H : list Z -> Z.
Definition module_id (i : kin) : Z := H (id_pre i).
Definition file_key (i : kin) : Z := H (module_id i :: key_suffix (k_cpu i)).
End Key.

(* the hashed strings of a list of inputs, flattened as length-prefixed runs: the correspondence run hashes
   them with the real sha256 and compares the result with the file names the implementation created *)
Fixpoint key_strings (cs : list kin) : list Z :=
  match cs with
  | [] => []
  | i :: r => let a := id_pre i in let b := key_suffix (k_cpu i) in
              zlen a :: a ++ zlen b :: b ++ key_strings r
  end.

(* ------------------------------------------------------------------ (2) allocation *)
Definition alloc_c (v inp : bytes) : Z * Z :=
  let Hd := 6 + 1 + zlen v + 4 in
  match take Hd inp with
  | None => (0, 0)
  | Some (hd, r1) =>
    if negb (bytes_eqb (firstn 6 hd) magic) then (0, 0) else
    let vs := nth 6 hd 0 in
    if Hd <=? 7 + vs then (0, 0) else
    if negb (bytes_eqb (firstn (Z.to_nat vs) (skipn 7 hd)) v) then (0, 0) else
    let n := le_dec (skipn (Z.to_nat (Hd - 4)) hd) in
    (8 * n,                                           (* make([]int, functionsNum) *)
     match read_u64s n r1 with
     | None => 0
     | Some (_, r2) => match take 8 r2 with
                       | None => 0
                       | Some (lb, _) => le_dec lb       (* platform.MmapCodeSegment(int(executableLen)) *)
                       end
     end)
  end.

(* ------------------------------------------------------------------ damage vocabulary *)
(* the entry with the bytes [pos, pos + length nw) replaced *)
Definition splice (e : bytes) (pos : nat) (nw : bytes) : bytes :=
  firstn pos e ++ nw ++ skipn (pos + length nw) e.

(* positions of the fields of an entry written under version v for a module with n functions and c code bytes *)
Definition pos_count (v : bytes) : nat := (7 + length v)%nat.
Definition pos_offsets (v : bytes) : nat := (11 + length v)%nat.
Definition pos_codelen (v : bytes) (n : nat) : nat := (11 + length v + 8 * n)%nat.
Definition pos_code (v : bytes) (n : nat) : nat := (19 + length v + 8 * n)%nat.
Definition pos_crc (v : bytes) (n c : nat) : nat := (19 + length v + 8 * n + c)%nat.
Definition pos_flag (v : bytes) (n c : nat) : nat := (23 + length v + 8 * n + c)%nat.

(* ------------------------------------------------------------------ (3) a compile session *)
Inductive cres :=
| CLoaded (cm : cmod)      (* cache hit: the deserialized entry is used *)
| CCompiled (cm : cmod)    (* compiled afresh and added *)
| CReported                (* CompileModule returns the reader's error; the entry stays *)
| CPanic.                  (* a Go panic escapes *)

Section Session.
Variable crc : bytes -> Z.
Variable H : list Z -> Z.
Variable v : bytes.              (* the running wazero version *)
Variable gen : kin -> cmod.      (* the compiler *)

Definition entry_of (i : kin) : option bytes := serialize crc v (gen i).

Definition add_fresh (d : dir) (i : kin) : dir * cres :=
  match entry_of i with
  | Some e => (set (Final (file_key H i)) {| f_data := e; f_synced := true |} d, CCompiled (gen i))
  | None => (d, CPanic)
  end.

Definition compile (d : dir) (i : kin) : dir * cres :=
  let n := Final (file_key H i) in
  match lookup n d with
  | None => add_fresh d i
  | Some f =>
    match deserialize crc v (f_data f) with
    | Ok cm => (d, CLoaded cm)
    | Error => (d, CReported)
    | Panic => (d, CPanic)
    | Stale => add_fresh (remove n d) i               (* fileCache.Delete, then as on a miss *)
    end
  end.

Fixpoint session (d : dir) (is : list kin) : dir * list cres :=
  match is with
  | [] => (d, [])
  | i :: r => let '(d1, x) := compile d i in let '(d2, xs) := session d1 r in (d2, x :: xs)
  end.
End Session.

(* ------------------------------------------------------------------ correspondence cases *)
(* damaged entries read by the real deserializer in a process of their own:
   (reader version, entry, observed outcome class 0 ok / 1 stale / 2 error / 3 panic / 4 died for want of memory,
    observed heap bytes allocated by the call (or -1), length named in the reader's mmap/read error (or -1)) *)
Definition acase := (bytes * bytes * Z * Z * Z)%type.

(* the reader needs a little more than the slice: header, reader, error values *)
Definition heap_slack (inp : bytes) : Z := 65536 + 8 * zlen inp.

Definition acheck (limit : Z) (c : acase) : Z :=
  let '(v, inp, cl, heap, ml) := c in
  let '(h, m) := alloc_c v inp in
  let o := outcome_class (deserialize crc32c v inp) in
  if cl =? 4 then (if limit <=? h + m then -1 else 1)           (* may only die when it was asked for more than the limit *)
  else if negb (cl =? o) then 2
  else if negb ((heap =? -1) || ((h <=? heap) && (heap <=? h + heap_slack inp))) then 3
  else if negb ((ml =? -1) || (ml =? m)) then 4
  else -1.

Fixpoint a_mismatches (limit i : Z) (cs : list acase) : list (Z * Z) :=
  match cs with
  | [] => []
  | c :: r => let d := acheck limit c in
              if d =? -1 then a_mismatches limit (i + 1) r else (i, d) :: a_mismatches limit (i + 1) r
  end.

(* a planted entry used by a fresh runtime, judged against the complete entry [good] of the module:
   model class 0 used (same module as the complete entry), 4 used although it differs, 1 discarded and
   compiled afresh, 2 reported, 3 panic inside the reader.
   observed class: 5 see below, 0 ran correctly and the file is untouched, 1 ran correctly and the file now is the complete
   entry, 2 CompileModule returned an error, 3 the process died / panicked, 9 wrong result.
   Once a differing module is accepted (4) the model says nothing about what running it does: 0, 3 and 9 agree. *)
Definition dcase := (bytes * bytes * bytes * Z)%type.

Definition dclass (v good inp : bytes) : Z :=
  match deserialize crc32c v inp with
  | Ok cm => match deserialize crc32c v good with
             | Ok cm0 => if cmod_eqb cm cm0 then 0 else 4
             | _ => 4
             end
  | Stale => 1 | Error => 2 | Panic => 3
  end.

Definition dagree (m o : Z) : bool :=
  if m =? 4 then (o =? 0) || (o =? 3) || (o =? 9) else m =? o.

(* observed class 5: the process died for want of memory (under the address-space limit of the harness); this agrees
   with the model exactly when the reader was asked for a gigabyte or more *)
Definition dagree_alloc (v inp : bytes) (m o : Z) : bool :=
  if o =? 5 then 2 ^ 30 <=? fst (alloc_c v inp) + snd (alloc_c v inp) else dagree m o.

Fixpoint d_mismatches (i : Z) (cs : list dcase) : list (Z * Z) :=
  match cs with
  | [] => []
  | (v, good, inp, o) :: r =>
    let m := dclass v good inp in
    if dagree_alloc v inp m o then d_mismatches (i + 1) r else (i, m) :: d_mismatches (i + 1) r
  end.

(* the model's class of every damaged entry of a list (for the oracle's bookkeeping) *)
Definition dclasses (cs : list dcase) : list Z := map (fun c => let '(v, good, inp, _) := c in dclass v good inp) cs.

(* ---- a session of the implementation against [session] ----
   Table-driven instances: the hash restricted to the strings that occur (the correspondence run computes the real
   sha256 of the strings printed by [key_strings] and numbers the distinct digests), the compiler as the table of the
   modules read from the entries the implementation wrote cold. *)
Fixpoint tab_lookup (tab : list (list Z * Z)) (l : list Z) : Z :=
  match tab with
  | [] => -1
  | (k, x) :: r => if list_eqb k l then x else tab_lookup r l
  end.

Definition nocode_cm : cmod := {| cm_offsets := []; cm_exec := []; cm_sm_wasm := []; cm_sm_exec := [] |}.
Definition lis_eqb (a b : list bool) : bool := list_eqb (map kb2z a) (map kb2z b).

Fixpoint gen_lookup (tab : list (list bool * bool * cmod)) (i : kin) : cmod :=
  match tab with
  | [] => nocode_cm
  | (ls, t, cm) :: r => if lis_eqb ls (k_lis i) && Bool.eqb t (k_term i) then cm else gen_lookup r i
  end.

Definition cres_class (r : cres) : Z :=
  match r with CLoaded _ => 0 | CCompiled _ => 1 | CReported => 2 | CPanic => 3 end.

(* (hash table, compiler table, binary, CPU word, version, the (listener pattern, termination) compiled in this order,
    observed per call: 0 nothing added / 1 a final name added / 2 error, observed number of final names at the end) *)
Definition scase := (list (list Z * Z) * list (list bool * bool * cmod) * bytes * Z * bytes *
                     list (list bool * bool) * list Z * Z)%type.

Definition scheck (c : scase) : Z :=
  let '(ht, gt, w, cpu, v, sets, obs, nfin) := c in
  let is := map (fun s => {| k_wasm := w; k_lis := fst s; k_term := snd s; k_cpu := cpu |}) sets in
  let '(d, rs) := session crc32c (tab_lookup ht) v (gen_lookup gt) [] is in
  if negb (list_eqb (map cres_class rs) obs) then 1 else if negb (zlen d =? nfin) then 2 else -1.

Fixpoint s_mismatches (i : Z) (cs : list scase) : list (Z * Z) :=
  match cs with
  | [] => []
  | c :: r => let d := scheck c in
              if d =? -1 then s_mismatches (i + 1) r else (i, d) :: s_mismatches (i + 1) r
  end.
