(* C19: a Go-heap model of the configuration values of wazero (config.go, fsconfig.go,
   internal/sock/sock.go, and the use InstantiateModule makes of a ModuleConfig in runtime.go).

   Hand transcription of the code AS IT IS in /repo (the transcript is pinned in checks/c19.py and
   compared with the source on every run; behaviour is tied by the C19 correspondence harness).

   Heap: one list of cells; an address is an index; allocation appends a cell; nothing is ever freed.
     CArr l   a backing array (its length is the capacity it was allocated with)
     CMap m   a Go map (reference type) as an association list, newest binding first
     CRc/CMc/CFc/CSc   a runtimeConfig / moduleConfig / fsConfig / sock.Config struct
   Structs are values: `ret := *c` copies the struct, sharing whatever its slice headers, map
   references and pointers refer to.  A slice is (array address, len, cap); the offset is always 0
   because no configuration method reslices.  `append` writes IN PLACE when the capacity suffices and
   otherwise allocates an array whose capacity is chosen by an ARBITRARY growth function
   [grow : len -> need -> cap]: Go's growth policy is not modelled, the theorems hold for every policy.
   Strings, io.Readers/Writers, clock functions, file systems, caches are opaque identities (Z, 0 = nil /
   the empty string).  Go panics (nil dereference, index out of range, the documented panic of
   WithMemoryLimitPages) are explicit [None] outcomes.  No proofs in this file. *)
From Coq Require Import List ZArith Bool Arith.
Import ListNotations.

Definition str := Z.
Bind Scope Z_scope with str.
Definition empty_str : str := 0%Z.         (* "" *)
Definition start_str : str := 1%Z.         (* "_start" *)
(* platform.Walltime / platform.Nanotime / platform.Nanosleep as used by the WithSys... methods *)
Definition SYS_WALLTIME : Z := 1000%Z.
Definition SYS_NANOTIME : Z := 1001%Z.
Definition SYS_NANOSLEEP : Z := 1002%Z.
Definition MemoryLimitPages : Z := 65536%Z.

Record slice := { aid : nat; len : nat; cap : nat }.
Definition nil_slice : slice := {| aid := 0; len := 0; cap := 0 |}.

(* ---- struct types, fields in source order ---- *)
Record rcfg := { r_enabledFeatures : Z; r_memoryLimitPages : Z; r_memoryCapacityFromMax : bool; r_engineKind : Z;
                 r_dwarfDisabled : bool; r_newEngine : Z; r_cache : Z; r_storeCustomSections : bool;
                 r_ensureTermination : bool }.

Record mcfg := { m_name : str; m_nameSet : bool; m_startFunctions : slice;
                 m_stdin : Z; m_stdout : Z; m_stderr : Z; m_randSource : Z;
                 m_walltime : Z; m_walltimeResolution : Z; m_nanotime : Z; m_nanotimeResolution : Z;
                 m_nanosleep : Z; m_osyield : Z;
                 m_args : slice; m_environ : slice;
                 m_environKeys : nat;            (* map[string]int, by reference *)
                 m_fsConfig : option nat;        (* FSConfig interface holding a *fsConfig, or nil *)
                 m_sockConfig : option nat }.    (* *internalsock.Config *)

Record fcfg := { f_fs : slice; f_guestPaths : slice; f_guestPathToFS : nat }.

Record scfg := { s_TCPAddresses : slice }.

Inductive cell :=
| CArr (l : list Z) | CMap (m : list (Z * nat))
| CRc (c : rcfg) | CMc (c : mcfg) | CFc (c : fcfg) | CSc (c : scfg).

Definition heap := list cell.

(* ---- heap primitives ---- *)
Definition alloc (h : heap) (c : cell) : heap * nat := (h ++ [c], length h).
Definition write (h : heap) (a : nat) (c : cell) : heap := firstn a h ++ c :: skipn (S a) h.

Definition arr (h : heap) (a : nat) : list Z := match nth_error h a with Some (CArr l) => l | _ => [] end.
Definition mapc (h : heap) (a : nat) : list (Z * nat) := match nth_error h a with Some (CMap m) => m | _ => [] end.
Definition get_rc (h : heap) (p : nat) := match nth_error h p with Some (CRc c) => Some c | _ => None end.
Definition get_mc (h : heap) (p : nat) := match nth_error h p with Some (CMc c) => Some c | _ => None end.
Definition get_fc (h : heap) (p : nat) := match nth_error h p with Some (CFc c) => Some c | _ => None end.
Definition get_sc (h : heap) (p : nat) := match nth_error h p with Some (CSc c) => Some c | _ => None end.

(* the elements a slice exposes: s[0:len] *)
Definition sview (h : heap) (s : slice) : list Z := firstn (len s) (arr h (aid s)).

Fixpoint find (k : Z) (m : list (Z * nat)) : option nat :=
  match m with [] => None | (k', i) :: t => if Z.eqb k k' then Some i else find k t end.

(* m[k] = v *)
Definition map_set (h : heap) (m : nat) (k : Z) (v : nat) : heap := write h m (CMap ((k, v) :: mapc h m)).

(* a fresh array holding exactly l (composite literal, variadic argument, make+fill) *)
Definition new_slice (h : heap) (l : list Z) : heap * slice :=
  match l with
  | [] => (h, nil_slice)
  | _ => let '(h', a) := alloc h (CArr l) in (h', {| aid := a; len := length l; cap := length l |})
  end.

(* make([]T, 0, n) *)
Definition make0 (h : heap) (n : nat) : heap * slice :=
  let '(h', a) := alloc h (CArr (repeat 0%Z n)) in (h', {| aid := a; len := 0; cap := n |}).

(* s[i] = v; None = index out of range *)
Definition store (h : heap) (s : slice) (i : nat) (v : Z) : option heap :=
  if i <? len s then
    let a := arr h (aid s) in Some (write h (aid s) (CArr (firstn i a ++ v :: skipn (S i) a)))
  else None.

Section Grow.
Variable grow : nat -> nat -> nat.          (* capacity chosen when append must reallocate *)

(* append(s, xs...) *)
Definition append (h : heap) (s : slice) (xs : list Z) : heap * slice :=
  match xs with
  | [] => (h, s)
  | _ =>
    let need := len s + length xs in
    if need <=? cap s then
      let a := arr h (aid s) in
      (write h (aid s) (CArr (firstn (len s) a ++ xs ++ skipn need a)),
       {| aid := aid s; len := need; cap := cap s |})
    else
      let c := grow (len s) need in
      let '(h', a) := alloc h (CArr (sview h s ++ xs ++ repeat 0%Z (c - need))) in
      (h', {| aid := a; len := need; cap := c |})
  end.

(* ---- field updates (ret.f = v on a struct value) ---- *)
Definition rset_enabledFeatures c v := {| r_enabledFeatures := v; r_memoryLimitPages := r_memoryLimitPages c; r_memoryCapacityFromMax := r_memoryCapacityFromMax c; r_engineKind := r_engineKind c; r_dwarfDisabled := r_dwarfDisabled c; r_newEngine := r_newEngine c; r_cache := r_cache c; r_storeCustomSections := r_storeCustomSections c; r_ensureTermination := r_ensureTermination c |}.
Definition rset_memoryLimitPages c v := {| r_enabledFeatures := r_enabledFeatures c; r_memoryLimitPages := v; r_memoryCapacityFromMax := r_memoryCapacityFromMax c; r_engineKind := r_engineKind c; r_dwarfDisabled := r_dwarfDisabled c; r_newEngine := r_newEngine c; r_cache := r_cache c; r_storeCustomSections := r_storeCustomSections c; r_ensureTermination := r_ensureTermination c |}.
Definition rset_memoryCapacityFromMax c v := {| r_enabledFeatures := r_enabledFeatures c; r_memoryLimitPages := r_memoryLimitPages c; r_memoryCapacityFromMax := v; r_engineKind := r_engineKind c; r_dwarfDisabled := r_dwarfDisabled c; r_newEngine := r_newEngine c; r_cache := r_cache c; r_storeCustomSections := r_storeCustomSections c; r_ensureTermination := r_ensureTermination c |}.
Definition rset_engineKind c v := {| r_enabledFeatures := r_enabledFeatures c; r_memoryLimitPages := r_memoryLimitPages c; r_memoryCapacityFromMax := r_memoryCapacityFromMax c; r_engineKind := v; r_dwarfDisabled := r_dwarfDisabled c; r_newEngine := r_newEngine c; r_cache := r_cache c; r_storeCustomSections := r_storeCustomSections c; r_ensureTermination := r_ensureTermination c |}.
Definition rset_dwarfDisabled c v := {| r_enabledFeatures := r_enabledFeatures c; r_memoryLimitPages := r_memoryLimitPages c; r_memoryCapacityFromMax := r_memoryCapacityFromMax c; r_engineKind := r_engineKind c; r_dwarfDisabled := v; r_newEngine := r_newEngine c; r_cache := r_cache c; r_storeCustomSections := r_storeCustomSections c; r_ensureTermination := r_ensureTermination c |}.
Definition rset_cache c v := {| r_enabledFeatures := r_enabledFeatures c; r_memoryLimitPages := r_memoryLimitPages c; r_memoryCapacityFromMax := r_memoryCapacityFromMax c; r_engineKind := r_engineKind c; r_dwarfDisabled := r_dwarfDisabled c; r_newEngine := r_newEngine c; r_cache := v; r_storeCustomSections := r_storeCustomSections c; r_ensureTermination := r_ensureTermination c |}.
Definition rset_storeCustomSections c v := {| r_enabledFeatures := r_enabledFeatures c; r_memoryLimitPages := r_memoryLimitPages c; r_memoryCapacityFromMax := r_memoryCapacityFromMax c; r_engineKind := r_engineKind c; r_dwarfDisabled := r_dwarfDisabled c; r_newEngine := r_newEngine c; r_cache := r_cache c; r_storeCustomSections := v; r_ensureTermination := r_ensureTermination c |}.
Definition rset_ensureTermination c v := {| r_enabledFeatures := r_enabledFeatures c; r_memoryLimitPages := r_memoryLimitPages c; r_memoryCapacityFromMax := r_memoryCapacityFromMax c; r_engineKind := r_engineKind c; r_dwarfDisabled := r_dwarfDisabled c; r_newEngine := r_newEngine c; r_cache := r_cache c; r_storeCustomSections := r_storeCustomSections c; r_ensureTermination := v |}.

(* moduleConfig: one generic rebuild, then one named setter per field *)
Definition mset_scalars (c : mcfg) (name : str) (nameSet : bool) (stdin stdout stderr randSource walltime walltimeRes nanotime
                         nanotimeRes nanosleep osyield : Z) : mcfg :=
  {| m_name := name; m_nameSet := nameSet; m_startFunctions := m_startFunctions c; m_stdin := stdin; m_stdout := stdout;
     m_stderr := stderr; m_randSource := randSource; m_walltime := walltime; m_walltimeResolution := walltimeRes;
     m_nanotime := nanotime; m_nanotimeResolution := nanotimeRes; m_nanosleep := nanosleep; m_osyield := osyield;
     m_args := m_args c; m_environ := m_environ c; m_environKeys := m_environKeys c; m_fsConfig := m_fsConfig c;
     m_sockConfig := m_sockConfig c |}.
Definition mset_refs (c : mcfg) (startFunctions args environ : slice) (environKeys : nat) (fsConfig sockConfig : option nat) : mcfg :=
  {| m_name := m_name c; m_nameSet := m_nameSet c; m_startFunctions := startFunctions; m_stdin := m_stdin c; m_stdout := m_stdout c;
     m_stderr := m_stderr c; m_randSource := m_randSource c; m_walltime := m_walltime c;
     m_walltimeResolution := m_walltimeResolution c; m_nanotime := m_nanotime c;
     m_nanotimeResolution := m_nanotimeResolution c; m_nanosleep := m_nanosleep c; m_osyield := m_osyield c;
     m_args := args; m_environ := environ; m_environKeys := environKeys; m_fsConfig := fsConfig; m_sockConfig := sockConfig |}.

Definition mset_name c v := mset_scalars c v (m_nameSet c) (m_stdin c) (m_stdout c) (m_stderr c) (m_randSource c) (m_walltime c) (m_walltimeResolution c) (m_nanotime c) (m_nanotimeResolution c) (m_nanosleep c) (m_osyield c).
Definition mset_nameSet c v := mset_scalars c (m_name c) v (m_stdin c) (m_stdout c) (m_stderr c) (m_randSource c) (m_walltime c) (m_walltimeResolution c) (m_nanotime c) (m_nanotimeResolution c) (m_nanosleep c) (m_osyield c).
Definition mset_stdin c v := mset_scalars c (m_name c) (m_nameSet c) v (m_stdout c) (m_stderr c) (m_randSource c) (m_walltime c) (m_walltimeResolution c) (m_nanotime c) (m_nanotimeResolution c) (m_nanosleep c) (m_osyield c).
Definition mset_stdout c v := mset_scalars c (m_name c) (m_nameSet c) (m_stdin c) v (m_stderr c) (m_randSource c) (m_walltime c) (m_walltimeResolution c) (m_nanotime c) (m_nanotimeResolution c) (m_nanosleep c) (m_osyield c).
Definition mset_stderr c v := mset_scalars c (m_name c) (m_nameSet c) (m_stdin c) (m_stdout c) v (m_randSource c) (m_walltime c) (m_walltimeResolution c) (m_nanotime c) (m_nanotimeResolution c) (m_nanosleep c) (m_osyield c).
Definition mset_randSource c v := mset_scalars c (m_name c) (m_nameSet c) (m_stdin c) (m_stdout c) (m_stderr c) v (m_walltime c) (m_walltimeResolution c) (m_nanotime c) (m_nanotimeResolution c) (m_nanosleep c) (m_osyield c).
Definition mset_walltime c v := mset_scalars c (m_name c) (m_nameSet c) (m_stdin c) (m_stdout c) (m_stderr c) (m_randSource c) v (m_walltimeResolution c) (m_nanotime c) (m_nanotimeResolution c) (m_nanosleep c) (m_osyield c).
Definition mset_walltimeResolution c v := mset_scalars c (m_name c) (m_nameSet c) (m_stdin c) (m_stdout c) (m_stderr c) (m_randSource c) (m_walltime c) v (m_nanotime c) (m_nanotimeResolution c) (m_nanosleep c) (m_osyield c).
Definition mset_nanotime c v := mset_scalars c (m_name c) (m_nameSet c) (m_stdin c) (m_stdout c) (m_stderr c) (m_randSource c) (m_walltime c) (m_walltimeResolution c) v (m_nanotimeResolution c) (m_nanosleep c) (m_osyield c).
Definition mset_nanotimeResolution c v := mset_scalars c (m_name c) (m_nameSet c) (m_stdin c) (m_stdout c) (m_stderr c) (m_randSource c) (m_walltime c) (m_walltimeResolution c) (m_nanotime c) v (m_nanosleep c) (m_osyield c).
Definition mset_nanosleep c v := mset_scalars c (m_name c) (m_nameSet c) (m_stdin c) (m_stdout c) (m_stderr c) (m_randSource c) (m_walltime c) (m_walltimeResolution c) (m_nanotime c) (m_nanotimeResolution c) v (m_osyield c).
Definition mset_osyield c v := mset_scalars c (m_name c) (m_nameSet c) (m_stdin c) (m_stdout c) (m_stderr c) (m_randSource c) (m_walltime c) (m_walltimeResolution c) (m_nanotime c) (m_nanotimeResolution c) (m_nanosleep c) v.
Definition mset_startFunctions c v := mset_refs c v (m_args c) (m_environ c) (m_environKeys c) (m_fsConfig c) (m_sockConfig c).
Definition mset_args c v := mset_refs c (m_startFunctions c) v (m_environ c) (m_environKeys c) (m_fsConfig c) (m_sockConfig c).
Definition mset_environ c v := mset_refs c (m_startFunctions c) (m_args c) v (m_environKeys c) (m_fsConfig c) (m_sockConfig c).
Definition mset_environKeys c v := mset_refs c (m_startFunctions c) (m_args c) (m_environ c) v (m_fsConfig c) (m_sockConfig c).
Definition mset_fsConfig c v := mset_refs c (m_startFunctions c) (m_args c) (m_environ c) (m_environKeys c) v (m_sockConfig c).
Definition mset_sockConfig c v := mset_refs c (m_startFunctions c) (m_args c) (m_environ c) (m_environKeys c) (m_fsConfig c) v.

(* =========================== config.go: runtimeConfig =========================== *)
(* var engineLessConfig = &runtimeConfig{enabledFeatures: api.CoreFeaturesV2, memoryLimitPages: wasm.MemoryLimitPages, ...} *)
Definition CoreFeaturesV2 : Z := 127%Z.      (* opaque to the model: only copied *)
Definition engineLessConfig : rcfg :=
  {| r_enabledFeatures := CoreFeaturesV2; r_memoryLimitPages := MemoryLimitPages; r_memoryCapacityFromMax := false;
     r_engineKind := 0; r_dwarfDisabled := false; r_newEngine := 0; r_cache := 0; r_storeCustomSections := false;
     r_ensureTermination := false |}.

(* func (c *runtimeConfig) clone() *runtimeConfig { ret := *c; return &ret } — the struct value; its cell is
   allocated when the With... method returns it *)
Definition rc_clone (c : rcfg) : rcfg := c.

(* NewRuntimeConfig / NewRuntimeConfigCompiler / NewRuntimeConfigInterpreter: ret := engineLessConfig.clone(); ret.engineKind = k *)
Definition rc_new (kind : Z) : rcfg := rset_engineKind (rc_clone engineLessConfig) kind.

Inductive rmeth :=
| RWithCoreFeatures (f : Z) | RWithCloseOnContextDone (b : bool) | RWithMemoryLimitPages (n : Z)
| RWithCompilationCache (ca : Z) | RWithMemoryCapacityFromMax (b : bool) | RWithDebugInfoEnabled (b : bool)
| RWithCustomSections (b : bool).

Definition rc_apply (c : rcfg) (m : rmeth) : option rcfg :=
  let ret := rc_clone c in
  match m with
  | RWithCoreFeatures f => Some (rset_enabledFeatures ret f)
  | RWithCloseOnContextDone b => Some (rset_ensureTermination ret b)
  | RWithMemoryLimitPages n =>
      if (MemoryLimitPages <? n)%Z then None (* panic(fmt.Errorf("memoryLimitPages invalid ...")) *)
      else Some (rset_memoryLimitPages ret n)
  | RWithCompilationCache ca => Some (rset_cache ret ca)
  | RWithMemoryCapacityFromMax b => Some (rset_memoryCapacityFromMax ret b)
  | RWithDebugInfoEnabled b => Some (rset_dwarfDisabled ret (negb b))
  | RWithCustomSections b => Some (rset_storeCustomSections ret b)
  end.

(* =========================== fsconfig.go =========================== *)
(* sysfs.DirFS(dir), &sysfs.ReadFS{FS: sysfs.DirFS(dir)}, &sysfs.AdaptFS{FS: fs}: injective tags over opaque ids; 0 = nil *)
Definition fs_dir (d : Z) : Z := (4 * d + 1)%Z.
Definition fs_readonly (d : Z) : Z := (4 * d + 2)%Z.
Definition fs_adapt (f : Z) : Z := (4 * f + 3)%Z.

(* func NewFSConfig() FSConfig { return &fsConfig{guestPathToFS: map[string]int{}} } *)
Definition fc_new (h : heap) : heap * fcfg :=
  let '(h1, m) := alloc h (CMap []) in
  (h1, {| f_fs := nil_slice; f_guestPaths := nil_slice; f_guestPathToFS := m |}).

(* func (c *fsConfig) clone() *fsConfig:
     ret := *c
     ret.fs = make([]experimentalsys.FS, 0, len(c.fs));          ret.fs = append(ret.fs, c.fs...)
     ret.guestPaths = make([]string, 0, len(c.guestPaths));      ret.guestPaths = append(ret.guestPaths, c.guestPaths...)
     ret.guestPathToFS = make(map[string]int, len(c.guestPathToFS)); for key, value := range c.guestPathToFS { ret.guestPathToFS[key] = value }
   (make + range-copy of a map yields a fresh map with the same bindings; the iteration order is unobservable) *)
Definition fc_clone (h : heap) (c : fcfg) : heap * fcfg :=
  let '(h1, s1) := make0 h (len (f_fs c)) in
  let '(h2, s2) := append h1 s1 (sview h1 (f_fs c)) in
  let '(h3, g1) := make0 h2 (len (f_guestPaths c)) in
  let '(h4, g2) := append h3 g1 (sview h3 (f_guestPaths c)) in
  let '(h5, m) := alloc h4 (CMap (mapc h4 (f_guestPathToFS c))) in
  (h5, {| f_fs := s2; f_guestPaths := g2; f_guestPathToFS := m |}).

(* func (c *fsConfig) WithSysFSMount(fs experimentalsys.FS, guestPath string) FSConfig
   [unimpl]: fs.(experimentalsys.UnimplementedFS) succeeds -> `return c`;  [cleaned] = sys.StripPrefixesAndTrailingSlash(guestPath)
   (a pure string function, computed by the harness with the real function).
   Result: Some (heap, inl p) = the receiver itself is returned; Some (heap, inr ret) = a new struct. *)
Definition fc_WithSysFSMount (h : heap) (c : fcfg) (fs : Z) (guestPath cleaned : str) (unimpl : bool)
  : option (heap * option fcfg) :=
  if unimpl then Some (h, None) else
  let '(h1, ret) := fc_clone h c in
  match find cleaned (mapc h1 (f_guestPathToFS ret)) with
  | Some i =>
      match store h1 (f_fs ret) i fs with                       (* ret.fs[i] = fs *)
      | None => None
      | Some h2 => match store h2 (f_guestPaths ret) i guestPath with   (* ret.guestPaths[i] = guestPath *)
                   | None => None
                   | Some h3 => Some (h3, Some ret)
                   end
      end
  | None =>
      if (fs =? 0)%Z then Some (h1, Some ret) else
      let h2 := map_set h1 (f_guestPathToFS ret) cleaned (len (f_fs ret)) in
      let '(h3, s) := append h2 (f_fs ret) [fs] in
      let '(h4, g) := append h3 (f_guestPaths ret) [guestPath] in
      Some (h4, Some {| f_fs := s; f_guestPaths := g; f_guestPathToFS := f_guestPathToFS ret |})
  end.

Inductive fmeth :=
| FWithDirMount (dir guestPath cleaned : str)
| FWithReadOnlyDirMount (dir guestPath cleaned : str)
| FWithFSMount (fs : Z) (guestPath cleaned : str)                  (* fs = 0: nil fs.FS *)
| FWithSysFSMount (fs : Z) (guestPath cleaned : str) (unimpl : bool).

(* sysfs.DirFS(dir) evaluates dir[len(dir)-1]: it panics (index out of range) for dir == "" *)
Definition dir_empty (m : fmeth) : bool :=
  match m with
  | FWithDirMount d _ _ | FWithReadOnlyDirMount d _ _ => (d =? empty_str)%Z
  | _ => false
  end.

Definition fc_apply (h : heap) (c : fcfg) (m : fmeth) : option (heap * option fcfg) :=
  if dir_empty m then None else
  match m with
  | FWithDirMount d g cl => fc_WithSysFSMount h c (fs_dir d) g cl false
  | FWithReadOnlyDirMount d g cl => fc_WithSysFSMount h c (fs_readonly d) g cl false
  | FWithFSMount f g cl => fc_WithSysFSMount h c (if (f =? 0)%Z then 0%Z else fs_adapt f) g cl false
  | FWithSysFSMount f g cl u => fc_WithSysFSMount h c f g cl u
  end.

(* a With... method of *fsConfig seen from outside: receiver pointer in, result pointer out *)
Definition fc_call (h : heap) (p : nat) (m : fmeth) : option (heap * nat) :=
  match get_fc h p with
  | None => None                                  (* nil receiver *)
  | Some c =>
      match fc_apply h c m with
      | None => None
      | Some (h1, None) => Some (h1, p)
      | Some (h1, Some ret) => Some (alloc h1 (CFc ret))
      end
  end.

(* =========================== config.go: moduleConfig =========================== *)
(* func NewModuleConfig() ModuleConfig { return &moduleConfig{startFunctions: []string{"_start"}, environKeys: map[string]int{}} } *)
Definition mc_new (h : heap) : heap * mcfg :=
  let '(h1, s) := new_slice h [start_str] in
  let '(h2, m) := alloc h1 (CMap []) in
  (h2, {| m_name := empty_str; m_nameSet := false; m_startFunctions := s; m_stdin := 0; m_stdout := 0; m_stderr := 0;
          m_randSource := 0; m_walltime := 0; m_walltimeResolution := 0; m_nanotime := 0; m_nanotimeResolution := 0;
          m_nanosleep := 0; m_osyield := 0; m_args := nil_slice; m_environ := nil_slice; m_environKeys := m;
          m_fsConfig := None; m_sockConfig := None |}).

(* func (c *moduleConfig) clone() *moduleConfig:
     ret := *c
     ret.environ = append([][]byte(nil), c.environ...)
     ret.environKeys = make(map[string]int, len(c.environKeys)); for key, value := range c.environKeys { ret.environKeys[key] = value } *)
Definition mc_clone (h : heap) (c : mcfg) : heap * mcfg :=
  let '(h1, e) := append h nil_slice (sview h (m_environ c)) in
  let '(h2, k) := alloc h1 (CMap (mapc h1 (m_environKeys c))) in
  (h2, mset_environKeys (mset_environ c e) k).

(* toByteSlices(args): nil for no arguments, else a fresh [][]byte with one fresh []byte per argument *)
Definition toByteSlices (h : heap) (args : list str) : heap * slice := new_slice h args.

Inductive mmeth :=
| MWithArgs (args : list str)
| MWithEnv (key value : str)
| MWithFS (fs : Z)                               (* 0 = nil fs.FS *)
| MWithFSConfig (config : option nat)            (* a *fsConfig pointer, or a nil FSConfig *)
| MWithName (name : str)
| MWithStartFunctions (fns : list str)
| MWithStderr (w : Z) | MWithStdin (r : Z) | MWithStdout (w : Z)
| MWithWalltime (f res : Z) | MWithSysWalltime
| MWithNanotime (f res : Z) | MWithSysNanotime
| MWithNanosleep (f : Z) | MWithOsyield (f : Z) | MWithSysNanosleep
| MWithRandSource (r : Z).

Definition mc_WithEnv (h : heap) (c : mcfg) (key value : str) : option (heap * mcfg) :=
  let '(h1, ret) := mc_clone h c in
  match find key (mapc h1 (m_environKeys ret)) with
  | Some i =>
      match store h1 (m_environ ret) (S i) value with       (* ret.environ[i+1] = []byte(value) *)
      | None => None
      | Some h2 => Some (h2, ret)
      end
  | None =>
      let h2 := map_set h1 (m_environKeys ret) key (len (m_environ ret)) in    (* ret.environKeys[key] = len(ret.environ) *)
      let '(h3, e) := append h2 (m_environ ret) [key; value] in                (* ret.environ = append(ret.environ, key, value) *)
      Some (h3, mset_environ ret e)
  end.

Definition mc_WithFSConfig (h : heap) (c : mcfg) (config : option nat) : option (heap * mcfg) :=
  let '(h1, ret) := mc_clone h c in Some (h1, mset_fsConfig ret config).

Definition mc_WithWalltime (h : heap) (c : mcfg) (f res : Z) : option (heap * mcfg) :=
  let '(h1, ret) := mc_clone h c in Some (h1, mset_walltimeResolution (mset_walltime ret f) res).
Definition mc_WithNanotime (h : heap) (c : mcfg) (f res : Z) : option (heap * mcfg) :=
  let '(h1, ret) := mc_clone h c in Some (h1, mset_nanotimeResolution (mset_nanotime ret f) res).
(* WithNanosleep and WithOsyield do `ret := *c` without clone: the result shares environ/environKeys with the receiver *)
Definition mc_WithNanosleep (h : heap) (c : mcfg) (f : Z) : option (heap * mcfg) := Some (h, mset_nanosleep c f).
Definition mc_WithOsyield (h : heap) (c : mcfg) (f : Z) : option (heap * mcfg) := Some (h, mset_osyield c f).

Definition mc_apply (h : heap) (c : mcfg) (m : mmeth) : option (heap * mcfg) :=
  match m with
  | MWithArgs args =>
      let '(h1, ret) := mc_clone h c in
      let '(h2, a) := toByteSlices h1 args in Some (h2, mset_args ret a)
  | MWithEnv k v => mc_WithEnv h c k v
  | MWithFS fs =>
      (* var config FSConfig; if fs != nil { config = NewFSConfig().WithFSMount(fs, "") }; return c.WithFSConfig(config) *)
      if (fs =? 0)%Z then mc_WithFSConfig h c None else
      let '(h1, f0) := fc_new h in
      let '(h2, p0) := alloc h1 (CFc f0) in
      match fc_call h2 p0 (FWithFSMount fs empty_str empty_str) with
      | None => None
      | Some (h3, p) => mc_WithFSConfig h3 c (Some p)
      end
  | MWithFSConfig config => mc_WithFSConfig h c config
  | MWithName name => let '(h1, ret) := mc_clone h c in Some (h1, mset_name (mset_nameSet ret true) name)
  | MWithStartFunctions fns =>
      (* the variadic parameter is a fresh slice built at the call site; it is stored as is *)
      let '(h0, s) := new_slice h fns in
      let '(h1, ret) := mc_clone h0 c in Some (h1, mset_startFunctions ret s)
  | MWithStderr w => let '(h1, ret) := mc_clone h c in Some (h1, mset_stderr ret w)
  | MWithStdin r => let '(h1, ret) := mc_clone h c in Some (h1, mset_stdin ret r)
  | MWithStdout w => let '(h1, ret) := mc_clone h c in Some (h1, mset_stdout ret w)
  | MWithWalltime f res => mc_WithWalltime h c f res
  | MWithSysWalltime => mc_WithWalltime h c SYS_WALLTIME 1000
  | MWithNanotime f res => mc_WithNanotime h c f res
  | MWithSysNanotime => mc_WithNanotime h c SYS_NANOTIME 1
  | MWithNanosleep f => mc_WithNanosleep h c f
  | MWithOsyield f => mc_WithOsyield h c f
  | MWithSysNanosleep => mc_WithNanosleep h c SYS_NANOSLEEP
  | MWithRandSource r => let '(h1, ret) := mc_clone h c in Some (h1, mset_randSource ret r)
  end.

Definition mc_call (h : heap) (p : nat) (m : mmeth) : option (heap * nat) :=
  match get_mc h p with
  | None => None
  | Some c => match mc_apply h c m with
              | None => None
              | Some (h1, ret) => Some (alloc h1 (CMc ret))
              end
  end.

(* =========================== internal/sock/sock.go =========================== *)
(* func (c *Config) clone() Config { ret := *c; ret.TCPAddresses = make([]TCPAddress, 0, len(c.TCPAddresses));
                                     ret.TCPAddresses = append(ret.TCPAddresses, c.TCPAddresses...); return ret } *)
Definition sc_clone (h : heap) (c : scfg) : heap * scfg :=
  let '(h1, s1) := make0 h (len (s_TCPAddresses c)) in
  let '(h2, s2) := append h1 s1 (sview h1 (s_TCPAddresses c)) in
  (h2, {| s_TCPAddresses := s2 |}).

(* func (c *Config) WithTCPListener(host string, port int) *Config { ret := c.clone(); ret.TCPAddresses = append(ret.TCPAddresses, TCPAddress{host, port}); return &ret } *)
Definition sc_call (h : heap) (p : nat) (addr : Z) : option (heap * nat) :=
  match get_sc h p with
  | None => None
  | Some c =>
      let '(h1, ret) := sc_clone h c in
      let '(h2, s) := append h1 (s_TCPAddresses ret) [addr] in
      Some (alloc h2 (CSc {| s_TCPAddresses := s |}))
  end.

(* =========================== runtime.go: InstantiateModule =========================== *)
(* What the guest can observe of a configuration: toSysContext() builds it by READING the struct:
   args as they are, environ as (key, value) pairs, the preopens (copies of fs and guestPaths). *)
Definition guest_view (h : heap) (c : mcfg) : list Z * list Z * (list Z * list Z) :=
  (sview h (m_args c), sview h (m_environ c),
   match m_fsConfig c with
   | Some p => match get_fc h p with Some f => (sview h (f_fs f), sview h (f_guestPaths f)) | None => ([], []) end
   | None => ([], [])
   end).

(* config := mConfig.( *moduleConfig)
   if !code.module.IsHostModule { if sockConfig, ok := ctx.Value(internalsock.ConfigKey{}).( *internalsock.Config); ok {
        config = config.clone(); config.sockConfig = sockConfig } }
   sysCtx, err = config.toSysContext() ...  (reads only)
   [sock]: the *sock.Config carried by the context, if any (sock.WithConfig only registers one with >= 1 address). *)
Definition instantiate (h : heap) (p : nat) (sock : option nat) : option (heap * (list Z * list Z * (list Z * list Z))) :=
  match get_mc h p with
  | None => None
  | Some c =>
      match sock with
      | Some q =>
          let '(h1, ret) := mc_clone h c in
          let '(h2, p') := alloc h1 (CMc (mset_sockConfig ret (Some q))) in
          match get_mc h2 p' with Some c' => Some (h2, guest_view h2 c') | None => None end
      | None => Some (h, guest_view h c)
      end
  end.

(* =========================== derivation trees =========================== *)
Inductive node := NR (p : nat) | NM (p : nat) | NF (p : nat) | NS (p : nat).

Record state := { st_heap : heap; st_nodes : list node }.
Definition init : state := {| st_heap := []; st_nodes := [] |}.

Inductive op :=
| ONewRuntimeConfig (kind : Z)          (* -1 auto, 0 compiler, 1 interpreter *)
| ONewModuleConfig
| ONewFSConfig
| ONewSockConfig
| OR (parent : nat) (m : rmeth)
| OM (parent : nat) (m : mmeth)         (* MWithFSConfig (Some i): i is a NODE index, resolved by [step] *)
| OF (parent : nat) (m : fmeth)
| OS (parent : nat) (addr : Z)
| OInstantiate (n : nat) (sock : option nat)   (* InstantiateModule with node n; ctx carrying sock node [sock] *)
| ONewRuntime (n : nat).                (* NewRuntimeWithConfig(ctx, node n): reads the struct only *)

Definition add_node (st : state) (r : heap * nat) (mk : nat -> node) : state :=
  {| st_heap := fst r; st_nodes := st_nodes st ++ [mk (snd r)] |}.

(* node index -> *fsConfig for WithFSConfig; a wrong kind or index is not a call the harness can make: no-op *)
Definition resolve_m (nodes : list node) (m : mmeth) : option mmeth :=
  match m with
  | MWithFSConfig (Some i) => match nth_error nodes i with Some (NF p) => Some (MWithFSConfig (Some p)) | _ => None end
  | _ => Some m
  end.

(* sock.WithConfig(ctx, cfg): registers cfg.c only when len(cfg.c.TCPAddresses) > 0 *)
Definition resolve_sock (st : state) (sock : option nat) : option nat :=
  match sock with
  | None => None
  | Some i => match nth_error (st_nodes st) i with
              | Some (NS q) => match get_sc (st_heap st) q with
                               | Some c => if 0 <? len (s_TCPAddresses c) then Some q else None
                               | None => None
                               end
              | _ => None
              end
  end.

(* one operation; a panicking call (None) creates no node and leaves the state as it was *)
Definition step (st : state) (o : op) : state :=
  let h := st_heap st in
  match o with
  | ONewRuntimeConfig k => add_node st (alloc h (CRc (rc_new k))) NR
  | ONewModuleConfig => let '(h1, c) := mc_new h in add_node st (alloc h1 (CMc c)) NM
  | ONewFSConfig => let '(h1, c) := fc_new h in add_node st (alloc h1 (CFc c)) NF
  | ONewSockConfig => add_node st (alloc h (CSc {| s_TCPAddresses := nil_slice |})) NS
  | OR i m => match nth_error (st_nodes st) i with
              | Some (NR p) => match get_rc h p with
                               | Some c => match rc_apply c m with
                                           | Some ret => add_node st (alloc h (CRc ret)) NR
                                           | None => st
                                           end
                               | None => st
                               end
              | _ => st
              end
  | OM i m => match nth_error (st_nodes st) i, resolve_m (st_nodes st) m with
              | Some (NM p), Some m' => match mc_call h p m' with Some r => add_node st r NM | None => st end
              | _, _ => st
              end
  | OF i m => match nth_error (st_nodes st) i with
              | Some (NF p) => match fc_call h p m with Some r => add_node st r NF | None => st end
              | _ => st
              end
  | OS i a => match nth_error (st_nodes st) i with
              | Some (NS p) => match sc_call h p a with Some r => add_node st r NS | None => st end
              | _ => st
              end
  | OInstantiate i sock =>
              match nth_error (st_nodes st) i with
              | Some (NM p) => match instantiate h p (resolve_sock st sock) with
                               | Some (h1, _) => {| st_heap := h1; st_nodes := st_nodes st |}
                               | None => st
                               end
              | _ => st
              end
  | ONewRuntime _ => st
  end.

Definition run (st : state) (ops : list op) : state := fold_left step ops st.

(* did the call panic? (used by the correspondence run and by the no-panic theorem) *)
Definition panics (st : state) (o : op) : bool :=
  let h := st_heap st in
  match o with
  | OR i m => match nth_error (st_nodes st) i with
              | Some (NR p) => match get_rc h p with Some c => match rc_apply c m with Some _ => false | None => true end | None => true end
              | _ => false
              end
  | OM i m => match nth_error (st_nodes st) i, resolve_m (st_nodes st) m with
              | Some (NM p), Some m' => match mc_call h p m' with Some _ => false | None => true end
              | _, _ => false
              end
  | OF i m => match nth_error (st_nodes st) i with
              | Some (NF p) => match fc_call h p m with Some _ => false | None => true end
              | _ => false
              end
  | OS i a => match nth_error (st_nodes st) i with
              | Some (NS p) => match sc_call h p a with Some _ => false | None => true end
              | _ => false
              end
  | OInstantiate i sock => match nth_error (st_nodes st) i with
              | Some (NM p) => match instantiate h p (resolve_sock st sock) with Some _ => false | None => true end
              | _ => false
              end
  | _ => false
  end.

(* the calls that panic whatever the receiver: WithMemoryLimitPages above the limit (documented), and
   WithDirMount / WithReadOnlyDirMount with an empty host directory (sysfs.DirFS indexes dir[len(dir)-1]) *)
Definition known_panic (o : op) : bool :=
  match o with
  | OR _ (RWithMemoryLimitPages n) => (MemoryLimitPages <? n)%Z
  | OF _ m => dir_empty m
  | _ => false
  end.

(* =========================== deep views =========================== *)
(* everything reachable from a configuration: the struct itself (bit for bit, including slice headers and
   references) and the contents of every array, map and struct it refers to *)
Definition fc_view (h : heap) (c : fcfg) := (c, sview h (f_fs c), sview h (f_guestPaths c), mapc h (f_guestPathToFS c)).
Definition sc_view (h : heap) (c : scfg) := (c, sview h (s_TCPAddresses c)).
Definition mc_view (h : heap) (c : mcfg) :=
  (c, sview h (m_startFunctions c), sview h (m_args c), sview h (m_environ c), mapc h (m_environKeys c),
   match m_fsConfig c with Some p => option_map (fc_view h) (get_fc h p) | None => None end,
   match m_sockConfig c with Some q => option_map (sc_view h) (get_sc h q) | None => None end,
   guest_view h c).

Inductive dview :=
| VR (c : option rcfg)
| VM (v : option (mcfg * list Z * list Z * list Z * list (Z * nat)
                  * option (fcfg * list Z * list Z * list (Z * nat)) * option (scfg * list Z)
                  * (list Z * list Z * (list Z * list Z))))
| VF (v : option (fcfg * list Z * list Z * list (Z * nat)))
| VS (v : option (scfg * list Z)).

Definition view (h : heap) (n : node) : dview :=
  match n with
  | NR p => VR (get_rc h p)
  | NM p => VM (option_map (mc_view h) (get_mc h p))
  | NF p => VF (option_map (fc_view h) (get_fc h p))
  | NS p => VS (option_map (sc_view h) (get_sc h p))
  end.

End Grow.

(* =========================== correspondence with the implementation =========================== *)
(* canonical, address-free rendering of a node as rows of integers (what harness/c19 dumps by reflection) *)
Definition b2z (b : bool) : Z := if b then 1%Z else 0%Z.
Definition n2z (n : nat) : Z := Z.of_nat n.

Fixpoint insert_kv (e : Z * Z) (l : list (Z * Z)) : list (Z * Z) :=
  match l with
  | [] => [e]
  | x :: r => if (fst e <=? fst x)%Z then e :: l else x :: insert_kv e r
  end.
Definition sort_map (m : list (Z * nat)) : list Z :=
  flat_map (fun e => [fst e; snd e]) (fold_right insert_kv [] (map (fun e => (fst e, n2z (snd e))) m)).

Definition rc_rows (c : rcfg) : list (list Z) :=
  [[r_enabledFeatures c; r_memoryLimitPages c; b2z (r_memoryCapacityFromMax c); r_engineKind c; b2z (r_dwarfDisabled c);
    r_newEngine c; r_cache c; b2z (r_storeCustomSections c); b2z (r_ensureTermination c)]].
Definition fc_rows (h : heap) (c : fcfg) : list (list Z) :=
  [sview h (f_fs c); sview h (f_guestPaths c); sort_map (mapc h (f_guestPathToFS c))].
Definition sc_rows (h : heap) (c : scfg) : list (list Z) := [sview h (s_TCPAddresses c)].
Definition mc_rows (h : heap) (c : mcfg) : list (list Z) :=
  [[m_name c; b2z (m_nameSet c); m_stdin c; m_stdout c; m_stderr c; m_randSource c; m_walltime c; m_walltimeResolution c;
    m_nanotime c; m_nanotimeResolution c; m_nanosleep c; m_osyield c];
   sview h (m_startFunctions c); sview h (m_args c); sview h (m_environ c); sort_map (mapc h (m_environKeys c))]
  ++ match m_fsConfig c with
     | Some p => match get_fc h p with Some f => [1%Z] :: fc_rows h f | None => [[(-1)%Z]] end
     | None => [[0%Z]]
     end
  ++ match m_sockConfig c with
     | Some q => match get_sc h q with Some s => [1%Z] :: sc_rows h s | None => [[(-1)%Z]] end
     | None => [[0%Z]]
     end.

Definition rows (h : heap) (n : node) : list (list Z) :=
  match n with
  | NR p => match get_rc h p with Some c => [0%Z] :: rc_rows c | None => [[(-1)%Z]] end
  | NM p => match get_mc h p with Some c => [1%Z] :: mc_rows h c | None => [[(-1)%Z]] end
  | NF p => match get_fc h p with Some c => [2%Z] :: fc_rows h c | None => [[(-1)%Z]] end
  | NS p => match get_sc h p with Some c => [3%Z] :: sc_rows h c | None => [[(-1)%Z]] end
  end.

(* identities (who shares what): struct address, then the address of every array (when cap > 0) and map reachable *)
Definition sid (s : slice) : Z := if cap s =? 0 then (-1)%Z else n2z (aid s).
Definition oid (o : option nat) : Z := match o with Some p => n2z p | None => (-1)%Z end.
Definition fc_ids (c : fcfg) : list Z := [sid (f_fs c); sid (f_guestPaths c); n2z (f_guestPathToFS c)].
Definition ids (h : heap) (n : node) : list Z :=
  match n with
  | NR p => [n2z p]
  | NM p => n2z p :: match get_mc h p with
                     | Some c => [sid (m_startFunctions c); sid (m_args c); sid (m_environ c); n2z (m_environKeys c);
                                  oid (m_fsConfig c); oid (m_sockConfig c)]
                     | None => []
                     end
  | NF p => n2z p :: match get_fc h p with Some c => fc_ids c | None => [] end
  | NS p => n2z p :: match get_sc h p with Some c => [sid (s_TCPAddresses c)] | None => [] end
  end.

(* rename identities by order of first appearance (-1 stays -1) *)
Fixpoint lookup (k : Z) (t : list (Z * Z)) : option Z :=
  match t with [] => None | (k', v) :: r => if (k =? k')%Z then Some v else lookup k r end.
Fixpoint canon_go (l : list Z) (t : list (Z * Z)) (next : Z) : list Z :=
  match l with
  | [] => []
  | x :: r => if (x <? 0)%Z then x :: canon_go r t next else
              match lookup x t with
              | Some v => v :: canon_go r t next
              | None => next :: canon_go r ((x, next) :: t) (next + 1)%Z
              end
  end.
Definition canon (l : list Z) : list Z := canon_go l [] 0%Z.

Fixpoint list_eqb {A} (eq : A -> A -> bool) (a b : list A) : bool :=
  match a, b with
  | [], [] => true
  | x :: r, y :: s => eq x y && list_eqb eq r s
  | _, _ => false
  end.
Definition rows_eqb := list_eqb (list_eqb Z.eqb).

(* run with a trace: which calls panicked, and what each instantiation exposed to the guest *)
Definition gv_rows (g : list Z * list Z * (list Z * list Z)) : list (list Z) :=
  let '(a, e, (f, p)) := g in [a; e; f].   (* preopen names are normalised by the fs context ("" -> "/"): not compared *)
Definition step_obs (grow : nat -> nat -> nat) (st : state) (o : op) : list (list Z) :=
  if panics grow st o then [[(-1)%Z]] else
  match o with
  | OInstantiate i sock =>
      match nth_error (st_nodes st) i with
      | Some (NM p) => match instantiate grow (st_heap st) p (resolve_sock st sock) with
                       | Some (_, g) => gv_rows g
                       | None => [[(-1)%Z]]
                       end
      | _ => []
      end
  | _ => []
  end.
Fixpoint run_obs (grow : nat -> nat -> nat) (st : state) (ops : list op) : state * list (list (list Z)) :=
  match ops with
  | [] => (st, [])
  | o :: r => let ob := step_obs grow st o in
              let '(st', obs) := run_obs grow (step grow st o) r in (st', ob :: obs)
  end.

(* growth policies used when the model is compared with the implementation (the theorems cover all) *)
Definition grow_tight (l n : nat) : nat := n.                       (* never any spare capacity *)
Definition grow_double (l n : nat) : nat := if n <=? 2 * l then 2 * l else n.   (* Go-like doubling *)
Definition grow_roomy (l n : nat) : nat := 2 * n + 3.               (* appends are in place as often as possible *)

(* a case: operations, the implementation's final dump of every node, its identity classes, its per-op observations *)
Definition case := (list op * list (list (list Z)) * list Z * list (list (list Z)))%type.

Fixpoint first_diff {A} (eq : A -> A -> bool) (i : Z) (xs ys : list A) : Z :=
  match xs, ys with
  | [], [] => (-1)%Z
  | x :: xr, y :: yr => if eq x y then first_diff eq (i + 1)%Z xr yr else i
  | _, _ => i
  end.

(* an expected observation [[-2]] means: the implementation refused to instantiate (invalid environment key, NUL in an
   argument, clock resolution out of range ...) — validation the model does not cover; not compared *)
Definition obs_eqb (m e : list (list Z)) : bool := rows_eqb e [[(-2)%Z]] || rows_eqb m e.

(* -1: agreement; 1000+i: node i differs; 2000: identity classes differ; 3000+j: observation of op j differs *)
Definition check_with (grow : nat -> nat -> nat) (c : case) : Z :=
  let '(ops, dumps, idc, obs) := c in
  let '(st, mobs) := run_obs grow init ops in
  let h := st_heap st in
  let d := first_diff rows_eqb 0%Z (map (rows h) (st_nodes st)) dumps in
  if negb (d =? -1)%Z then (1000 + d)%Z else
  if negb (list_eqb Z.eqb (canon (flat_map (ids h) (st_nodes st))) idc) then 2000%Z else
  let j := first_diff obs_eqb 0%Z mobs obs in
  if negb (j =? -1)%Z then (3000 + j)%Z else (-1)%Z.

Definition check_case (c : case) : Z :=
  let a := check_with grow_tight c in
  if negb (a =? -1)%Z then a else
  let b := check_with grow_double c in
  if negb (b =? -1)%Z then (10000 + b)%Z else
  let d := check_with grow_roomy c in
  if negb (d =? -1)%Z then (20000 + d)%Z else (-1)%Z.

Fixpoint mismatches (i : Z) (cs : list case) : list (Z * Z) :=
  match cs with
  | [] => []
  | c :: r => let d := check_case c in
              if (d =? -1)%Z then mismatches (i + 1)%Z r else (i, d) :: mismatches (i + 1)%Z r
  end.

(* =========================== the code before the repairs (for non-vacuity witnesses only) =========================== *)
Section Before.
Variable grow : nat -> nat -> nat.
(* clone before "fix: moduleConfig.clone must copy environ": ret := *c; only the map is copied *)
Definition mc_clone_before (h : heap) (c : mcfg) : heap * mcfg :=
  let '(h2, k) := alloc h (CMap (mapc h (m_environKeys c))) in (h2, mset_environKeys c k).
Definition mc_WithEnv_before (h : heap) (c : mcfg) (key value : str) : option (heap * mcfg) :=
  let '(h1, ret) := mc_clone_before h c in
  match find key (mapc h1 (m_environKeys ret)) with
  | Some i => match store h1 (m_environ ret) (S i) value with None => None | Some h2 => Some (h2, ret) end
  | None =>
      let h2 := map_set h1 (m_environKeys ret) key (len (m_environ ret)) in
      let '(h3, e) := append grow h2 (m_environ ret) [key; value] in
      Some (h3, mset_environ ret e)
  end.
Definition withenv_before (h : heap) (p : nat) (key value : str) : option (heap * nat) :=
  match get_mc h p with
  | None => None
  | Some c => match mc_WithEnv_before h c key value with
              | None => None
              | Some (h1, ret) => Some (alloc h1 (CMc ret))
              end
  end.
(* InstantiateModule before "fix: InstantiateModule must not write the sock config into the caller's ModuleConfig":
   config.sockConfig = sockConfig through the caller's pointer *)
Definition instantiate_before (h : heap) (p : nat) (sock : option nat) : option heap :=
  match get_mc h p with
  | None => None
  | Some c => match sock with
              | Some q => Some (write h p (CMc (mset_sockConfig c (Some q))))
              | None => Some h
              end
  end.
End Before.
