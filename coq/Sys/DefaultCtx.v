(* C18: what a module sees of the host under a module configuration.

   [mk_ctx] follows wazero's moduleConfig.toSysContext (config.go) and internal/sys.NewContext (sys.go):
   every option the embedder left unset is replaced by a fake: wall clock starting at the fixed epoch and
   advancing 1 ms per READING, monotonic clock from 0 advancing 1 ms per reading (internal/platform/time.go),
   no-op sleep and yield, a fixed-seed pseudo random stream (internal/platform/crypto.go), an always-EOF
   stdin and discarding stdout/stderr (internal/sys/stdio.go), no arguments, no environment, no pre-opened
   directories, no listeners.
   The host ([host_env]) is consulted by the semantics ONLY through ctx components that say so.
   [wasi_step] gives the WASI calls of imports/wasi_snapshot_preview1/{clock,random,args,environ,poll,sched,fs}.go
   the trace (errno, output bytes) they produce over a ctx.
   The fixed-seed stream is abstract: [R k] is its k-th byte (math/rand's Read is positional: the k-th byte
   does not depend on how reads are chunked). Constants come from coq/Gen (folded from the working tree).
   No proofs in this file. *)
From Verif Require Import Lib.GoInt Gen.GenC18Platform Gen.GenC18Sys Gen.GenC18Wasip1 Gen.GenC18Wasi.
Open Scope Z_scope.

Definition bytes := list Z.

(* ------------------------------------------------------------------------------------------ *)
(* the host process                                                                            *)
Record host_env := {
  h_args : list bytes;                 (* os.Args *)
  h_environ : list (bytes * bytes);    (* os.Environ *)
  h_cwd : bytes;
  h_stdin : bytes;                     (* what os.Stdin would deliver *)
  h_wall : nat -> Z;                   (* k-th reading of the real wall clock (ns since the Unix epoch) *)
  h_mono : nat -> Z;                   (* k-th reading of the real monotonic clock *)
  h_entropy : nat -> Z;                (* k-th byte of crypto/rand *)
  h_dirs : list bytes;                 (* host directories *)
  h_listeners : nat                    (* listening sockets *)
}.

(* how the embedder filled an option: not at all, from the host process, or with a fixed value *)
Inductive src (A : Type) := Unset | FromHost | Fixed (a : A).
Arguments Unset {A}. Arguments FromHost {A}. Arguments Fixed {A} a.

Record module_config := {
  m_args : src (list bytes);               (* WithArgs *)
  m_environ : src (list (bytes * bytes));  (* WithEnv *)
  m_stdin : src bytes;                     (* WithStdin *)
  m_stdout : bool;                         (* WithStdout(os.Stdout) *)
  m_stderr : bool;                         (* WithStderr(os.Stderr) *)
  m_rand : src (nat -> Z);                 (* WithRandSource *)
  m_walltime : src (nat -> Z);             (* WithWalltime / WithSysWalltime *)
  m_walltime_res : Z;
  m_nanotime : src (nat -> Z);             (* WithNanotime / WithSysNanotime *)
  m_nanotime_res : Z;
  m_nanosleep : bool;                      (* WithSysNanosleep *)
  m_osyield : bool;                        (* WithOsyield *)
  m_mounts : src (list bytes);             (* WithFSConfig *)
  m_listeners : bool                       (* sock config *)
}.

(* wazero.NewModuleConfig() *)
Definition default_config : module_config :=
  {| m_args := Unset; m_environ := Unset; m_stdin := Unset; m_stdout := false; m_stderr := false; m_rand := Unset;
     m_walltime := Unset; m_walltime_res := 0; m_nanotime := Unset; m_nanotime_res := 0;
     m_nanosleep := false; m_osyield := false; m_mounts := Unset; m_listeners := false |}.

(* ------------------------------------------------------------------------------------------ *)
(* sys.Context                                                                                  *)
Inductive clock :=
| FakeClock (next : Z)                       (* the value the next reading returns; then + 1 ms *)
| RealClock (readings : nat -> Z) (k : nat). (* the k-th reading of a host or embedder clock *)

Inductive rnd :=
| FakeRand (pos : nat)                       (* position in the fixed-seed stream *)
| RealRand (s : nat -> Z) (pos : nat).

Inductive stdin_t := StdinEOF | StdinData (rest : bytes).

Record ctx := {
  c_args : list bytes;
  c_environ : list bytes;            (* "key=value" *)
  c_stdin : stdin_t;
  c_stdout_host : bool;              (* false: writes are discarded *)
  c_stderr_host : bool;
  c_rand : rnd;
  c_wall : clock; c_wall_res : Z;
  c_mono : clock; c_mono_res : Z;
  c_sleep_real : bool;               (* false: nanosleep is a no-op *)
  c_yield_real : bool;
  c_preopens : list bytes;
  c_listeners : nat;
  (* effects on the host accumulated by the instance *)
  c_emitted : bytes;                 (* bytes that reached the host's stdout/stderr *)
  c_slept : Z                        (* nanoseconds really slept *)
}.

Definition ms : Z := GenC18Platform.ms.

(* internal/sys.clockResolutionInvalid: resolution < 1 || resolution > time.Hour.Nanoseconds()
   (not in the translator's subset: time.Hour.Nanoseconds() is a method call; transcribed) *)
Definition clockResolutionInvalid (res : Z) : bool := (res <? 1) || (3600000000000 <? res).
Definition fake_epoch : Z := FakeEpochNanos.

(* platform.NewFakeWalltime: t := epoch - ms; each reading returns atomic.AddInt64(&t, ms) *)
Definition new_fake_walltime : clock := FakeClock (swrap 64 (swrap 64 (fake_epoch - ms) + ms)).
(* platform.NewFakeNanotime: t := 0 - ms *)
Definition new_fake_nanotime : clock := FakeClock (swrap 64 (swrap 64 (0 - ms) + ms)).

Definition of_src {A} (s : src A) (host : A) (dflt : A) : A :=
  match s with Unset => dflt | FromHost => host | Fixed a => a end.

Definition env_entry (kv : bytes * bytes) : bytes := fst kv ++ [61] ++ snd kv.   (* key '=' value *)

Definition has_nul (b : bytes) : bool := existsb (Z.eqb 0) b.

(* toSysContext + NewContext; None = instantiation error *)
Definition mk_ctx (m : module_config) (h : host_env) : option ctx :=
  let args := of_src (m_args m) (h_args h) [] in
  let envkv := of_src (m_environ m) (h_environ h) [] in
  if existsb (fun kv => (Z.of_nat (length (fst kv)) =? 0) || existsb (Z.eqb 61) (fst kv)) envkv then None else
  let environ := map env_entry envkv in
  if existsb has_nul args || existsb has_nul environ then None else
  let wall_given := match m_walltime m with Unset => false | _ => true end in
  let mono_given := match m_nanotime m with Unset => false | _ => true end in
  if wall_given && clockResolutionInvalid (m_walltime_res m) then None else
  if mono_given && clockResolutionInvalid (m_nanotime_res m) then None else
  Some {|
    c_args := args;
    c_environ := environ;
    c_stdin := match m_stdin m with Unset => StdinEOF | FromHost => StdinData (h_stdin h) | Fixed b => StdinData b end;
    c_stdout_host := m_stdout m;
    c_stderr_host := m_stderr m;
    c_rand := match m_rand m with Unset => FakeRand 0 | FromHost => RealRand (h_entropy h) 0 | Fixed s => RealRand s 0 end;
    c_wall := match m_walltime m with Unset => new_fake_walltime | FromHost => RealClock (h_wall h) 0 | Fixed f => RealClock f 0 end;
    c_wall_res := if wall_given then m_walltime_res m else 1000;      (* time.Microsecond *)
    c_mono := match m_nanotime m with Unset => new_fake_nanotime | FromHost => RealClock (h_mono h) 0 | Fixed f => RealClock f 0 end;
    c_mono_res := if mono_given then m_nanotime_res m else 1;         (* time.Nanosecond *)
    c_sleep_real := m_nanosleep m;
    c_yield_real := m_osyield m;
    c_preopens := of_src (m_mounts m) (h_dirs h) [];
    c_listeners := if m_listeners m then h_listeners h else O;
    c_emitted := [];
    c_slept := 0
  |}.

(* ------------------------------------------------------------------------------------------ *)
(* WASI calls                                                                                   *)
Section Wasi.
Variable R : nat -> Z.       (* the byte stream of platform.NewFakeRandSource (math/rand, seed 42) *)

Fixpoint le_bytes (n : nat) (v : Z) : bytes :=
  match n with O => [] | S k => (v mod 256) :: le_bytes k (v / 256) end.

Definition read_clock (c : clock) : Z * clock :=
  match c with
  | FakeClock t => (t, FakeClock (swrap 64 (t + ms)))
  | RealClock f k => (f k, RealClock f (S k))
  end.

Fixpoint take_stream (s : nat -> Z) (pos : nat) (n : nat) : bytes :=
  match n with O => [] | S k => s pos :: take_stream s (S pos) k end.

Definition read_rand (r : rnd) (n : nat) : bytes * rnd :=
  match r with
  | FakeRand pos => (take_stream R pos n, FakeRand (pos + n))
  | RealRand s pos => (take_stream s pos n, RealRand s (pos + n))
  end.

(* one subscription of poll_oneoff: a relative/absolute clock, fd_read, fd_write, or an unknown event type *)
Inductive sub :=
| SClock (timeout flags userdata : Z)
| SFdRead (fd userdata : Z)
| SFdWrite (fd userdata : Z)
| SOther (ty userdata : Z).

Inductive call :=
| ClockTimeGet (id precision : Z)
| ClockResGet (id : Z)
| RandomGet (n : nat)
| ArgsSizesGet
| ArgsGet
| EnvironSizesGet
| EnvironGet
| FdRead (fd : Z) (n : nat)
| FdWrite (fd : Z) (data : bytes)
| FdPrestatGet (fd : Z)
| FdFdstatGet (fd : Z)
| PollClock (clockid timeout flags userdata : Z)
| Poll (subs : list sub)
| SchedYield
| PathOpen (fd : Z).

Definition result := (Z * bytes)%type.      (* WASI errno, bytes written to the result areas *)

Definition with_wall (c : ctx) (w : clock) : ctx :=
  {| c_args := c_args c; c_environ := c_environ c; c_stdin := c_stdin c; c_stdout_host := c_stdout_host c;
     c_stderr_host := c_stderr_host c; c_rand := c_rand c; c_wall := w; c_wall_res := c_wall_res c; c_mono := c_mono c;
     c_mono_res := c_mono_res c; c_sleep_real := c_sleep_real c; c_yield_real := c_yield_real c; c_preopens := c_preopens c;
     c_listeners := c_listeners c; c_emitted := c_emitted c; c_slept := c_slept c |}.
Definition with_mono (c : ctx) (w : clock) : ctx :=
  {| c_args := c_args c; c_environ := c_environ c; c_stdin := c_stdin c; c_stdout_host := c_stdout_host c;
     c_stderr_host := c_stderr_host c; c_rand := c_rand c; c_wall := c_wall c; c_wall_res := c_wall_res c; c_mono := w;
     c_mono_res := c_mono_res c; c_sleep_real := c_sleep_real c; c_yield_real := c_yield_real c; c_preopens := c_preopens c;
     c_listeners := c_listeners c; c_emitted := c_emitted c; c_slept := c_slept c |}.
Definition with_rand (c : ctx) (r : rnd) : ctx :=
  {| c_args := c_args c; c_environ := c_environ c; c_stdin := c_stdin c; c_stdout_host := c_stdout_host c;
     c_stderr_host := c_stderr_host c; c_rand := r; c_wall := c_wall c; c_wall_res := c_wall_res c; c_mono := c_mono c;
     c_mono_res := c_mono_res c; c_sleep_real := c_sleep_real c; c_yield_real := c_yield_real c; c_preopens := c_preopens c;
     c_listeners := c_listeners c; c_emitted := c_emitted c; c_slept := c_slept c |}.
Definition with_stdin (c : ctx) (s : stdin_t) : ctx :=
  {| c_args := c_args c; c_environ := c_environ c; c_stdin := s; c_stdout_host := c_stdout_host c;
     c_stderr_host := c_stderr_host c; c_rand := c_rand c; c_wall := c_wall c; c_wall_res := c_wall_res c; c_mono := c_mono c;
     c_mono_res := c_mono_res c; c_sleep_real := c_sleep_real c; c_yield_real := c_yield_real c; c_preopens := c_preopens c;
     c_listeners := c_listeners c; c_emitted := c_emitted c; c_slept := c_slept c |}.
Definition with_effects (c : ctx) (em : bytes) (sl : Z) : ctx :=
  {| c_args := c_args c; c_environ := c_environ c; c_stdin := c_stdin c; c_stdout_host := c_stdout_host c;
     c_stderr_host := c_stderr_host c; c_rand := c_rand c; c_wall := c_wall c; c_wall_res := c_wall_res c; c_mono := c_mono c;
     c_mono_res := c_mono_res c; c_sleep_real := c_sleep_real c; c_yield_real := c_yield_real c; c_preopens := c_preopens c;
     c_listeners := c_listeners c; c_emitted := em; c_slept := sl |}.

Definition total_size (l : list bytes) : Z := fold_right (fun b a => Z.of_nat (length b) + 1 + a) 0 l.
Definition nul_terminated (l : list bytes) : bytes := flat_map (fun b => b ++ [0]) l.

(* number of descriptors open at start: stdio + preopens + listeners *)
Definition nfds (c : ctx) : Z := 3 + Z.of_nat (length (c_preopens c)) + Z.of_nat (c_listeners c).

(* poll_oneoff (poll.go): the subscriptions are scanned in order. Clock and fd_write subscriptions and fd_read on a
   descriptor that is not open are answered at once, in subscription order; fd_read on an open (blocking) descriptor is
   deferred and answered, again in subscription order, after the immediate ones once stdin is ready (the stdin of
   stdinFileEntry for a nil or plain reader is always ready).  An error inside the scan ends the whole call.
   [nf] = number of open descriptors, [tmo] = minimum of the clock timeouts so far (int64). *)
Definition poll_event (userdata errno ty : Z) : bytes :=
  le_bytes 8 (wrap 64 userdata) ++ le_bytes 2 errno ++ le_bytes 4 ty ++ le_bytes 18 0.

Fixpoint poll_scan (nf : Z) (subs : list sub) (now deferred : list bytes) (tmo : Z) : Z + (list bytes * list bytes * Z) :=
  match subs with
  | [] => inr (now, deferred, tmo)
  | SClock t fl u :: r =>
      let fl := wrap 16 fl in
      if fl =? 0 then poll_scan nf r (now ++ [poll_event u 0 EventTypeClock]) deferred (Z.min (swrap 64 t) tmo)
      else if fl =? 1 then inl ErrnoNotsup else inl ErrnoInval
  | SFdRead fd u :: r =>
      let fd := swrap 32 fd in
      if fd <? 0 then inl ErrnoBadf
      else if fd <? nf then poll_scan nf r now (deferred ++ [poll_event u 0 EventTypeFdRead]) tmo
      else poll_scan nf r (now ++ [poll_event u ErrnoBadf EventTypeFdRead]) deferred tmo
  | SFdWrite fd u :: r =>
      let fd := swrap 32 fd in
      if fd <? 0 then inl ErrnoBadf
      else poll_scan nf r (now ++ [poll_event u (if fd <? nf then ErrnoNotsup else ErrnoBadf) EventTypeFdWrite]) deferred tmo
  | SOther _ _ :: _ => inl ErrnoInval
  end.

(* errno, bytes at result.nevents followed by the nsubscriptions*32 bytes of the (zeroed) event area, nanoseconds slept *)
Definition poll_result (nf : Z) (subs : list sub) : Z * bytes * Z :=
  match subs with
  | [] => (ErrnoInval, [], 0)
  | _ =>
    match poll_scan nf subs [] [] (2 ^ 63 - 1) with
    | inl e => (e, [], 0)
    | inr (now, deferred, tmo) =>
        let evs := now ++ deferred in
        let area := concat evs in
        (0, le_bytes 4 (Z.of_nat (length evs)) ++ area ++ repeat 0 (32 * length subs - length area)%nat,
         match deferred with [] => (if 0 <? tmo then tmo else 0) | _ => 0 end)
    end
  end.

(* fd_fdstat_get of a stdio descriptor: Stat gives fs.ModeDevice|0640, which getWasiFiletype maps to
   FILETYPE_BLOCK_DEVICE (the seek/tell rights are only removed for character devices); no fd flags *)
Definition stdio_fdstat : bytes :=
  le_bytes 2 FILETYPE_BLOCK_DEVICE ++ le_bytes 2 0 ++ le_bytes 4 0 ++ le_bytes 8 fileRightsBase ++ le_bytes 8 0.

Definition wasi_step (c : ctx) (k : call) : ctx * result :=
  match k with
  | ClockTimeGet id _ =>
      let id := wrap 32 id in
      if id =? ClockIDRealtime then let '(v, w) := read_clock (c_wall c) in (with_wall c w, (0, le_bytes 8 (wrap 64 v)))
      else if id =? ClockIDMonotonic then let '(v, w) := read_clock (c_mono c) in (with_mono c w, (0, le_bytes 8 (wrap 64 v)))
      else (c, (ErrnoInval, []))
  | ClockResGet id =>
      let id := wrap 32 id in
      if id =? ClockIDRealtime then (c, (0, le_bytes 8 (wrap 64 (c_wall_res c))))
      else if id =? ClockIDMonotonic then (c, (0, le_bytes 8 (wrap 64 (c_mono_res c))))
      else (c, (ErrnoInval, []))
  | RandomGet n => let '(b, r) := read_rand (c_rand c) n in (with_rand c r, (0, b))
  | ArgsSizesGet => (c, (0, le_bytes 4 (Z.of_nat (length (c_args c))) ++ le_bytes 4 (total_size (c_args c))))
  | ArgsGet => (c, (0, nul_terminated (c_args c)))
  | EnvironSizesGet => (c, (0, le_bytes 4 (Z.of_nat (length (c_environ c))) ++ le_bytes 4 (total_size (c_environ c))))
  | EnvironGet => (c, (0, nul_terminated (c_environ c)))
  | FdRead fd n =>
      let fd := swrap 32 fd in
      if fd =? 0 then
        match c_stdin c with
        | StdinEOF => (c, (0, le_bytes 4 0))
        | StdinData rest => (with_stdin c (StdinData (skipn n rest)),
                             (0, le_bytes 4 (Z.of_nat (length (firstn n rest))) ++ firstn n rest))
        end
      else (c, (ErrnoBadf, []))      (* stdout/stderr are not readable (ENOSYS reported as EBADF); nothing else is open *)
  | FdWrite fd data =>
      let fd := swrap 32 fd in
      if (fd =? 1) || (fd =? 2) then
        let host := if fd =? 1 then c_stdout_host c else c_stderr_host c in
        (with_effects c (if host then c_emitted c ++ data else c_emitted c) (c_slept c),
         (0, le_bytes 4 (Z.of_nat (length data))))
      else (c, (ErrnoBadf, []))
  | FdPrestatGet fd =>
      let fd := swrap 32 fd in
      if (0 <=? fd) && (fd <? 3) then (c, (0, le_bytes 8 0))     (* stdio entries are flagged pre-open, not directories *)
      else if (3 <=? fd) && (fd <? 3 + Z.of_nat (length (c_preopens c)))
      then (c, (0, le_bytes 4 0 ++ le_bytes 4 (Z.of_nat (length (nth (Z.to_nat (fd - 3)) (c_preopens c) [])))))
      else (c, (ErrnoBadf, []))
  | FdFdstatGet fd =>
      let fd := swrap 32 fd in
      if (0 <=? fd) && (fd <? 3) then (c, (0, stdio_fdstat))
      else (c, (ErrnoBadf, []))      (* only meaningful without preopens: used under the default configuration *)
  | PollClock clockid timeout flags userdata =>
      let flags := wrap 16 flags in
      if flags =? 0 then
        let t := swrap 64 timeout in
        (with_effects c (c_emitted c) (if c_sleep_real c && (0 <? t) then c_slept c + t else c_slept c),
         (0, le_bytes 4 1 ++ le_bytes 8 (wrap 64 userdata) ++ le_bytes 2 0 ++ le_bytes 4 EventTypeClock ++ le_bytes 18 0))
      else if flags =? 1 then (c, (ErrnoNotsup, []))
      else (c, (ErrnoInval, []))
  | Poll subs =>
      let '(e, out, sl) := poll_result (nfds c) subs in
      (with_effects c (c_emitted c) (if c_sleep_real c then c_slept c + sl else c_slept c), (e, out))
  | SchedYield => (c, (0, []))
  | PathOpen fd =>
      let fd := swrap 32 fd in
      if (0 <=? fd) && (fd <? 3) then (c, (ErrnoNotdir, []))
      else (c, (ErrnoBadf, []))      (* without preopens there is no directory descriptor *)
  end.

Fixpoint trace (c : ctx) (ks : list call) : list result :=
  match ks with
  | [] => []
  | k :: r => let '(c', x) := wasi_step c k in x :: trace c' r
  end.

Definition final (c : ctx) (ks : list call) : ctx := fold_left (fun a k => fst (wasi_step a k)) ks c.

(* several instances of one runtime: each has its own ctx; a schedule interleaves their calls *)
Fixpoint set_nth {A} (l : list A) (n : nat) (v : A) : list A :=
  match l, n with
  | [], _ => []
  | _ :: r, O => v :: r
  | x :: r, S k => x :: set_nth r k v
  end.

Fixpoint run_multi (cs : list ctx) (sched : list (nat * call)) : list (nat * result) :=
  match sched with
  | [] => []
  | (i, k) :: r =>
      match nth_error cs i with
      | None => run_multi cs r
      | Some c => let '(c', x) := wasi_step c k in (i, x) :: run_multi (set_nth cs i c') r
      end
  end.

Definition proj {A} (i : nat) (l : list (nat * A)) : list A :=
  map snd (filter (fun e => Nat.eqb (fst e) i) l).

(* which calls read which clock *)
Definition reads_wall (k : call) : bool := match k with ClockTimeGet id _ => wrap 32 id =? ClockIDRealtime | _ => false end.
Definition reads_mono (k : call) : bool := match k with ClockTimeGet id _ => wrap 32 id =? ClockIDMonotonic | _ => false end.
Definition count (f : call -> bool) (ks : list call) : Z := Z.of_nat (length (filter f ks)).

End Wasi.

(* hermetic: no component of the context consults or affects the host *)
Definition hermetic (c : ctx) : Prop :=
  c_args c = [] /\ c_environ c = [] /\ c_stdin c = StdinEOF /\ c_stdout_host c = false /\ c_stderr_host c = false /\
  (exists p, c_rand c = FakeRand p) /\ (exists t, c_wall c = FakeClock t) /\ (exists t, c_mono c = FakeClock t) /\
  c_sleep_real c = false /\ c_yield_real c = false /\ c_preopens c = [] /\ c_listeners c = O.

(* the initial context of every default instance, spelled out *)
Definition default_ctx : ctx :=
  {| c_args := []; c_environ := []; c_stdin := StdinEOF; c_stdout_host := false; c_stderr_host := false;
     c_rand := FakeRand 0; c_wall := FakeClock 1640995200000000000; c_wall_res := 1000;
     c_mono := FakeClock 0; c_mono_res := 1; c_sleep_real := false; c_yield_real := false;
     c_preopens := []; c_listeners := O; c_emitted := []; c_slept := 0 |}.

(* ------------------------------------------------------------------------------------------ *)
(* correspondence cases: the oracle stream is a list (bytes beyond it read as -1 and never match) *)
Definition stream_of (l : list Z) : nat -> Z := fun k => nth k l (-1).

Fixpoint list_eqb (a b : list Z) : bool :=
  match a, b with
  | [], [] => true
  | x :: a', y :: b' => (x =? y) && list_eqb a' b'
  | _, _ => false
  end.

Fixpoint first_diff (i : Z) (xs ys : list result) : Z :=
  match xs, ys with
  | [], [] => -1
  | x :: xr, y :: yr => if (fst x =? fst y) && list_eqb (snd x) (snd y) then first_diff (i + 1) xr yr else i
  | _, _ => i
  end.

Definition case := (list call * list result)%type.

Definition dummy_host : host_env :=
  {| h_args := [[104; 111; 115; 116]]; h_environ := [([72], [49])]; h_cwd := [47]; h_stdin := [1; 2; 3];
     h_wall := fun k => 1700000000000000000 + Z.of_nat k; h_mono := fun k => 5 + Z.of_nat k; h_entropy := fun k => Z.of_nat k mod 256;
     h_dirs := [[47]]; h_listeners := 1%nat |}.

Definition check_case (rs : list Z) (c : case) : Z :=
  match mk_ctx default_config dummy_host with
  | None => -2
  | Some c0 => first_diff 0 (trace (stream_of rs) c0 (fst c)) (snd c)
  end.

Fixpoint mismatches (rs : list Z) (i : Z) (cs : list case) : list (Z * Z) :=
  match cs with
  | [] => []
  | c :: r => let d := check_case rs c in
              if d =? -1 then mismatches rs (i + 1) r else (i, d) :: mismatches rs (i + 1) r
  end.
