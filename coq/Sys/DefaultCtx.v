(* C18: what a module sees of the host under a module configuration.

   [mk_ctx] follows wazero's moduleConfig.toSysContext (config.go) and internal/sys.NewContext (sys.go):
   every option the embedder left unset is replaced by a fake: wall clock starting at the fixed epoch and
   advancing 1 ms per READING, monotonic clock from 0 advancing 1 ms per reading (internal/platform/time.go),
   no-op sleep and yield, a fixed-seed pseudo random stream (internal/platform/crypto.go), an always-EOF
   stdin and discarding stdout/stderr (internal/sys/stdio.go), no arguments, no environment, no pre-opened
   directories, no listeners.
   The host ([host_env]) is consulted by the semantics ONLY through ctx components that say so.
   [wasi_step] gives ALL 46 functions of imports/wasi_snapshot_preview1/{args,environ,clock,random,poll,sched,fs,sock,proc}.go
   the trace (errno, output bytes) they produce over a ctx, including the descriptor table ([c_fds]: the open descriptor
   numbers; under the default configuration 0, 1, 2, and fd_close is the only call that changes it) and proc_exit
   ([c_exited]: afterwards every call is refused with the exit code).  Calls on descriptors the model does not describe
   (pre-opened directories, listeners, host-backed stdio: never present under the default configuration) answer the
   explicit marker [unmodelled]; DefaultCtxP.hermetic_total shows it never occurs in a hermetic context.
   The fixed-seed stream is abstract: [R k] is its k-th byte (math/rand's Read is positional: the k-th byte
   does not depend on how reads are chunked). Constants come from coq/Gen (folded from the working tree).
   No proofs in this file. *)
From Verif Require Import Lib.GoInt Gen.GenC18Platform Gen.GenC18Sys Gen.GenC18Wasip1 Gen.GenC18Wasi.
Open Scope Z_scope.

Definition bytes := list Z.

(* ------------------------------------------------------------------------------------------ *)
(* the host process                                                                            *)
Record host_env := {
  h_args : list bytes;                 (* os.Args *)
  h_environ : list (bytes * bytes);    (* os.Environ *)
  h_cwd : bytes;
  h_stdin : bytes;                     (* what os.Stdin would deliver *)
  h_wall : nat -> Z;                   (* k-th reading of the real wall clock (ns since the Unix epoch) *)
  h_mono : nat -> Z;                   (* k-th reading of the real monotonic clock *)
  h_entropy : nat -> Z;                (* k-th byte of crypto/rand *)
  h_dirs : list bytes;                 (* host directories *)
  h_listeners : nat                    (* listening sockets *)
}.

(* how the embedder filled an option: not at all, from the host process, or with a fixed value *)
Inductive src (A : Type) := Unset | FromHost | Fixed (a : A).
Arguments Unset {A}. Arguments FromHost {A}. Arguments Fixed {A} a.

Record module_config := {
  m_args : src (list bytes);               (* WithArgs *)
  m_environ : src (list (bytes * bytes));  (* WithEnv *)
  m_stdin : src bytes;                     (* WithStdin *)
  m_stdout : bool;                         (* WithStdout(os.Stdout) *)
  m_stderr : bool;                         (* WithStderr(os.Stderr) *)
  m_rand : src (nat -> Z);                 (* WithRandSource *)
  m_walltime : src (nat -> Z);             (* WithWalltime / WithSysWalltime *)
  m_walltime_res : Z;
  m_nanotime : src (nat -> Z);             (* WithNanotime / WithSysNanotime *)
  m_nanotime_res : Z;
  m_nanosleep : bool;                      (* WithSysNanosleep *)
  m_osyield : bool;                        (* WithOsyield *)
  m_mounts : src (list bytes);             (* WithFSConfig *)
  m_listeners : bool                       (* sock config *)
}.

(* wazero.NewModuleConfig() *)
Definition default_config : module_config :=
  {| m_args := Unset; m_environ := Unset; m_stdin := Unset; m_stdout := false; m_stderr := false; m_rand := Unset;
     m_walltime := Unset; m_walltime_res := 0; m_nanotime := Unset; m_nanotime_res := 0;
     m_nanosleep := false; m_osyield := false; m_mounts := Unset; m_listeners := false |}.

(* ------------------------------------------------------------------------------------------ *)
(* sys.Context                                                                                  *)
Inductive clock :=
| FakeClock (next : Z)                       (* the value the next reading returns; then + 1 ms *)
| RealClock (readings : nat -> Z) (k : nat). (* the k-th reading of a host or embedder clock *)

Inductive rnd :=
| FakeRand (pos : nat)                       (* position in the fixed-seed stream *)
| RealRand (s : nat -> Z) (pos : nat).

Inductive stdin_t := StdinEOF | StdinData (rest : bytes).

Record ctx := {
  c_args : list bytes;
  c_environ : list bytes;            (* "key=value" *)
  c_stdin : stdin_t;
  c_stdout_host : bool;              (* false: writes are discarded *)
  c_stderr_host : bool;
  c_rand : rnd;
  c_wall : clock; c_wall_res : Z;
  c_mono : clock; c_mono_res : Z;
  c_sleep_real : bool;               (* false: nanosleep is a no-op *)
  c_yield_real : bool;
  c_preopens : list bytes;
  c_listeners : nat;
  c_fds : list Z;                    (* the descriptor table: numbers of the open descriptors *)
  c_exited : option Z;               (* Some code: proc_exit closed the instance *)
  (* effects on the host accumulated by the instance *)
  c_emitted : bytes;                 (* bytes that reached the host's stdout/stderr *)
  c_slept : Z                        (* nanoseconds really slept *)
}.

Definition ms : Z := GenC18Platform.ms.

(* internal/sys.clockResolutionInvalid: resolution < 1 || resolution > time.Hour.Nanoseconds()
   (not in the translator's subset: time.Hour.Nanoseconds() is a method call; transcribed) *)
Definition clockResolutionInvalid (res : Z) : bool := (res <? 1) || (3600000000000 <? res).
Definition fake_epoch : Z := FakeEpochNanos.

(* platform.NewFakeWalltime: t := epoch - ms; each reading returns atomic.AddInt64(&t, ms) *)
Definition new_fake_walltime : clock := FakeClock (swrap 64 (swrap 64 (fake_epoch - ms) + ms)).
(* platform.NewFakeNanotime: t := 0 - ms *)
Definition new_fake_nanotime : clock := FakeClock (swrap 64 (swrap 64 (0 - ms) + ms)).

Definition of_src {A} (s : src A) (host : A) (dflt : A) : A :=
  match s with Unset => dflt | FromHost => host | Fixed a => a end.

Definition env_entry (kv : bytes * bytes) : bytes := fst kv ++ [61] ++ snd kv.   (* key '=' value *)

Definition has_nul (b : bytes) : bool := existsb (Z.eqb 0) b.

(* toSysContext + NewContext; None = instantiation error *)
Definition mk_ctx (m : module_config) (h : host_env) : option ctx :=
  let args := of_src (m_args m) (h_args h) [] in
  let envkv := of_src (m_environ m) (h_environ h) [] in
  if existsb (fun kv => (Z.of_nat (length (fst kv)) =? 0) || existsb (Z.eqb 61) (fst kv)) envkv then None else
  let environ := map env_entry envkv in
  if existsb has_nul args || existsb has_nul environ then None else
  let wall_given := match m_walltime m with Unset => false | _ => true end in
  let mono_given := match m_nanotime m with Unset => false | _ => true end in
  if wall_given && clockResolutionInvalid (m_walltime_res m) then None else
  if mono_given && clockResolutionInvalid (m_nanotime_res m) then None else
  Some {|
    c_args := args;
    c_environ := environ;
    c_stdin := match m_stdin m with Unset => StdinEOF | FromHost => StdinData (h_stdin h) | Fixed b => StdinData b end;
    c_stdout_host := m_stdout m;
    c_stderr_host := m_stderr m;
    c_rand := match m_rand m with Unset => FakeRand 0 | FromHost => RealRand (h_entropy h) 0 | Fixed s => RealRand s 0 end;
    c_wall := match m_walltime m with Unset => new_fake_walltime | FromHost => RealClock (h_wall h) 0 | Fixed f => RealClock f 0 end;
    c_wall_res := if wall_given then m_walltime_res m else 1000;      (* time.Microsecond *)
    c_mono := match m_nanotime m with Unset => new_fake_nanotime | FromHost => RealClock (h_mono h) 0 | Fixed f => RealClock f 0 end;
    c_mono_res := if mono_given then m_nanotime_res m else 1;         (* time.Nanosecond *)
    c_sleep_real := m_nanosleep m;
    c_yield_real := m_osyield m;
    c_preopens := of_src (m_mounts m) (h_dirs h) [];
    c_listeners := if m_listeners m then h_listeners h else O;
    (* InitFSContext: stdin, stdout, stderr, then the pre-opens, then the listeners, numbered from 0 *)
    c_fds := map Z.of_nat (seq 0 (3 + length (of_src (m_mounts m) (h_dirs h) []) + (if m_listeners m then h_listeners h else O)));
    c_exited := None;
    c_emitted := [];
    c_slept := 0
  |}.

(* ------------------------------------------------------------------------------------------ *)
(* WASI calls                                                                                   *)
Section Wasi.
Variable R : nat -> Z.       (* the byte stream of platform.NewFakeRandSource (math/rand, seed 42) *)

Fixpoint le_bytes (n : nat) (v : Z) : bytes :=
  match n with O => [] | S k => (v mod 256) :: le_bytes k (v / 256) end.

(* one subscription of poll_oneoff: a relative/absolute clock, fd_read, fd_write, or an unknown event type *)
Inductive sub :=
| SClock (timeout flags userdata : Z)
| SFdRead (fd userdata : Z)
| SFdWrite (fd userdata : Z)
| SOther (ty userdata : Z).

(* every function of wasi_snapshot_preview1 (the pointer arguments are fixed by the harness and valid: EFAULT paths
   belong to C15).  Descriptor, flag and size arguments are the raw i32/i64 values the guest passes. *)
Inductive call :=
| ClockTimeGet (id precision : Z)
| ClockResGet (id : Z)
| RandomGet (n : nat)
| ArgsSizesGet
| ArgsGet
| EnvironSizesGet
| EnvironGet
| FdRead (fd : Z) (lens : list nat)                 (* one iovec per length *)
| FdWrite (fd : Z) (chunks : list bytes)            (* one ciovec per chunk *)
| FdPread (fd : Z) (lens : list nat) (off : Z)
| FdPwrite (fd : Z) (chunks : list bytes) (off : Z)
| FdPrestatGet (fd : Z)
| FdPrestatDirName (fd len : Z)
| FdFdstatGet (fd : Z)
| FdFdstatSetFlags (fd flags : Z)
| FdFdstatSetRights (fd base inheriting : Z)
| FdFilestatGet (fd : Z)
| FdFilestatSetSize (fd size : Z)
| FdFilestatSetTimes (fd atim mtim fstflags : Z)
| FdAdvise (fd off len advice : Z)
| FdAllocate (fd off len : Z)
| FdClose (fd : Z)
| FdDatasync (fd : Z)
| FdSync (fd : Z)
| FdReaddir (fd buflen cookie : Z)
| FdRenumber (from to : Z)
| FdSeek (fd off whence : Z)
| FdTell (fd : Z)
| PollClock (clockid timeout flags userdata : Z)
| Poll (subs : list sub)
| SchedYield
| PathOpen (fd : Z) (path : bytes)
| PathCreateDirectory (fd : Z) (path : bytes)
| PathFilestatGet (fd lflags : Z) (path : bytes)
| PathFilestatSetTimes (fd lflags : Z) (path : bytes) (atim mtim fstflags : Z)
| PathLink (oldfd oldflags : Z) (oldpath : bytes) (newfd : Z) (newpath : bytes)
| PathReadlink (fd : Z) (path : bytes) (buflen : Z)
| PathRemoveDirectory (fd : Z) (path : bytes)
| PathRename (fd : Z) (oldpath : bytes) (newfd : Z) (newpath : bytes)
| PathSymlink (oldpath : bytes) (fd : Z) (newpath : bytes)
| PathUnlinkFile (fd : Z) (path : bytes)
| ProcExit (code : Z)
| ProcRaise (sig : Z)
| SockAccept (fd flags : Z)
| SockRecv (fd : Z) (lens : list nat) (riflags : Z)
| SockSend (fd : Z) (chunks : list bytes) (siflags : Z)
| SockShutdown (fd how : Z).

Definition result := (Z * bytes)%type.      (* WASI errno, bytes written to the result areas *)

(* pseudo errno values of the trace (never WASI errno values, which are 0..76) *)
Definition res_exit : Z := -1.               (* proc_exit: the call does not return; bytes = the exit code *)
Definition res_closed : Z := -2.             (* a call into an instance that has exited is refused; bytes = the exit code *)
Definition res_unmodelled : Z := -3.         (* the model does not describe this call in this context *)
Definition unmodelled : result := (res_unmodelled, []).

Definition with_wall (c : ctx) (w : clock) : ctx :=
  {| c_args := c_args c; c_environ := c_environ c; c_stdin := c_stdin c; c_stdout_host := c_stdout_host c;
     c_stderr_host := c_stderr_host c; c_rand := c_rand c; c_wall := w; c_wall_res := c_wall_res c; c_mono := c_mono c;
     c_mono_res := c_mono_res c; c_sleep_real := c_sleep_real c; c_yield_real := c_yield_real c; c_preopens := c_preopens c;
     c_listeners := c_listeners c; c_fds := c_fds c; c_exited := c_exited c; c_emitted := c_emitted c; c_slept := c_slept c |}.
Definition with_mono (c : ctx) (w : clock) : ctx :=
  {| c_args := c_args c; c_environ := c_environ c; c_stdin := c_stdin c; c_stdout_host := c_stdout_host c;
     c_stderr_host := c_stderr_host c; c_rand := c_rand c; c_wall := c_wall c; c_wall_res := c_wall_res c; c_mono := w;
     c_mono_res := c_mono_res c; c_sleep_real := c_sleep_real c; c_yield_real := c_yield_real c; c_preopens := c_preopens c;
     c_listeners := c_listeners c; c_fds := c_fds c; c_exited := c_exited c; c_emitted := c_emitted c; c_slept := c_slept c |}.
Definition with_rand (c : ctx) (r : rnd) : ctx :=
  {| c_args := c_args c; c_environ := c_environ c; c_stdin := c_stdin c; c_stdout_host := c_stdout_host c;
     c_stderr_host := c_stderr_host c; c_rand := r; c_wall := c_wall c; c_wall_res := c_wall_res c; c_mono := c_mono c;
     c_mono_res := c_mono_res c; c_sleep_real := c_sleep_real c; c_yield_real := c_yield_real c; c_preopens := c_preopens c;
     c_listeners := c_listeners c; c_fds := c_fds c; c_exited := c_exited c; c_emitted := c_emitted c; c_slept := c_slept c |}.
Definition with_stdin (c : ctx) (s : stdin_t) : ctx :=
  {| c_args := c_args c; c_environ := c_environ c; c_stdin := s; c_stdout_host := c_stdout_host c;
     c_stderr_host := c_stderr_host c; c_rand := c_rand c; c_wall := c_wall c; c_wall_res := c_wall_res c; c_mono := c_mono c;
     c_mono_res := c_mono_res c; c_sleep_real := c_sleep_real c; c_yield_real := c_yield_real c; c_preopens := c_preopens c;
     c_listeners := c_listeners c; c_fds := c_fds c; c_exited := c_exited c; c_emitted := c_emitted c; c_slept := c_slept c |}.
Definition with_effects (c : ctx) (em : bytes) (sl : Z) : ctx :=
  {| c_args := c_args c; c_environ := c_environ c; c_stdin := c_stdin c; c_stdout_host := c_stdout_host c;
     c_stderr_host := c_stderr_host c; c_rand := c_rand c; c_wall := c_wall c; c_wall_res := c_wall_res c; c_mono := c_mono c;
     c_mono_res := c_mono_res c; c_sleep_real := c_sleep_real c; c_yield_real := c_yield_real c; c_preopens := c_preopens c;
     c_listeners := c_listeners c; c_fds := c_fds c; c_exited := c_exited c; c_emitted := em; c_slept := sl |}.
(* the descriptor table and the exit state *)
Definition with_table (c : ctx) (fds : list Z) (ex : option Z) : ctx :=
  {| c_args := c_args c; c_environ := c_environ c; c_stdin := c_stdin c; c_stdout_host := c_stdout_host c;
     c_stderr_host := c_stderr_host c; c_rand := c_rand c; c_wall := c_wall c; c_wall_res := c_wall_res c; c_mono := c_mono c;
     c_mono_res := c_mono_res c; c_sleep_real := c_sleep_real c; c_yield_real := c_yield_real c; c_preopens := c_preopens c;
     c_listeners := c_listeners c; c_fds := fds; c_exited := ex; c_emitted := c_emitted c; c_slept := c_slept c |}.

Definition total_size (l : list bytes) : Z := fold_right (fun b a => Z.of_nat (length b) + 1 + a) 0 l.
Definition nul_terminated (l : list bytes) : bytes := flat_map (fun b => b ++ [0]) l.

(* ---- the descriptor table (internal/descriptor.Table through FSContext.LookupFile): a set of numbers ---- *)
Definition fd_in (fds : list Z) (fd : Z) : bool := existsb (Z.eqb fd) fds.
Definition fd_remove (fds : list Z) (fd : Z) : list Z := filter (fun x => negb (x =? fd)) fds.
Definition is_open (c : ctx) (fd : Z) : bool := fd_in (c_fds c) fd.

(* what a descriptor number (already an int32) denotes: nothing; the always-EOF stdin (noopStdinFile); a discarding
   stdout/stderr (noopStdoutFile); or something the model does not describe *)
Inductive fdk := KClosed | KStdin | KStdout | KOther.
Definition fd_kind (c : ctx) (fd : Z) : fdk :=
  if negb (is_open c fd) then KClosed
  else if fd =? FdStdin then match c_stdin c with StdinEOF => KStdin | StdinData _ => KOther end
  else if fd =? FdStdout then (if c_stdout_host c then KOther else KStdout)
  else if fd =? FdStderr then (if c_stderr_host c then KOther else KStdout)
  else KOther.

(* a call that only looks the descriptor up: [closed] when it is not open, [stdio] on a no-op stdio file *)
Definition on_fd (c : ctx) (fd : Z) (closed stdio : result) : ctx * result :=
  match fd_kind c (swrap 32 fd) with
  | KClosed => (c, closed)
  | KStdin | KStdout => (c, stdio)
  | KOther => (c, unmodelled)
  end.

(* ---- atPath (fs.go): path.Clean, then fs.ValidPath (EPERM), then the descriptor (EBADF), then IsDir (ENOTDIR) ----
   For ASCII paths ValidPath (Clean p) holds iff p is not rooted and never climbs above its starting directory. *)
Definition elem_step (cur : bytes) (depth : Z) : option Z :=
  if (Z.of_nat (length cur) =? 0) then Some depth
  else if (Z.of_nat (length cur) =? 1) && (nth 0 cur 0 =? 46) then Some depth
  else if (Z.of_nat (length cur) =? 2) && (nth 0 cur 0 =? 46) && (nth 1 cur 0 =? 46)
       then (if depth =? 0 then None else Some (depth - 1))
  else Some (depth + 1).

Fixpoint path_scan (p cur : bytes) (depth : Z) : bool :=
  match p with
  | [] => match elem_step cur depth with None => false | Some _ => true end
  | b :: r => if b =? 47 then match elem_step cur depth with None => false | Some d => path_scan r [] d end
              else path_scan r (cur ++ [b]) depth
  end.

Definition path_ok (p : bytes) : bool :=
  match p with
  | b :: _ => if b =? 47 then false else path_scan p [] 0
  | [] => true                     (* Clean "" = "." *)
  end.

Definition ascii (p : bytes) : bool := forallb (fun b => (0 <=? b) && (b <? 128)) p.

Definition at_path (c : ctx) (fd : Z) (p : bytes) : ctx * result :=
  if negb (ascii p) then (c, unmodelled)            (* ValidPath also wants UTF-8: outside the model *)
  else if negb (path_ok p) then (c, (ErrnoPerm, []))
  else on_fd c fd (ErrnoBadf, []) (ErrnoNotdir, []).

(* ---- iovec loops (readv / writev of fs.go) ---- *)
Definition all_zero (lens : list nat) : bool := forallb (fun n => Nat.eqb n 0) lens.
Definition all_empty (chunks : list bytes) : bool := forallb (fun b => Nat.eqb (length b) 0) chunks.

(* reading [rest] into buffers of the given lengths: zero-length buffers are skipped, a short read ends the loop *)
Fixpoint readv (lens : list nat) (rest : bytes) : bytes * bytes :=
  match lens with
  | [] => ([], rest)
  | O :: r => readv r rest
  | n :: r => let got := firstn n rest in
              let rest' := skipn n rest in
              if (length got <? n)%nat then (got, rest')
              else let '(g, rest'') := readv r rest' in (got ++ g, rest'')
  end.

(* ---- toTimes (fs.go): which timestamps fd/path_filestat_set_times would set; "now" READS THE WALL CLOCK ---- *)
Definition has (fl m : Z) : bool := negb (Z.land fl m =? 0).

Definition read_clock (c : clock) : Z * clock :=
  match c with
  | FakeClock t => (t, FakeClock (swrap 64 (t + ms)))
  | RealClock f k => (f k, RealClock f (S k))
  end.

(* the wall clock afterwards and the errno (0 or EINVAL).  A second reading happens only when the first one gave 0. *)
Definition to_times (w : clock) (fstflags : Z) : clock * Z :=
  let fl := wrap 16 fstflags in
  if has fl FstflagsAtim && has fl FstflagsAtimNow then (w, ErrnoInval) else
  let '(now, w1) := if has fl FstflagsAtimNow then read_clock w else (0, w) in
  if has fl FstflagsMtim && has fl FstflagsMtimNow then (w1, ErrnoInval) else
  if has fl FstflagsMtimNow && (now =? 0) then (snd (read_clock w1), 0) else (w1, 0).

Fixpoint take_stream (s : nat -> Z) (pos : nat) (n : nat) : bytes :=
  match n with O => [] | S k => s pos :: take_stream s (S pos) k end.

Definition read_rand (r : rnd) (n : nat) : bytes * rnd :=
  match r with
  | FakeRand pos => (take_stream R pos n, FakeRand (pos + n))
  | RealRand s pos => (take_stream s pos n, RealRand s (pos + n))
  end.

(* poll_oneoff (poll.go): the subscriptions are scanned in order. Clock and fd_write subscriptions and fd_read on a
   descriptor that is not open are answered at once, in subscription order; fd_read on an open (blocking) descriptor is
   deferred and answered, again in subscription order, after the immediate ones once stdin is ready (the stdin of
   stdinFileEntry for a nil or plain reader is always ready) — and if stdin itself has been closed the whole call
   fails with EBADF.  An error inside the scan ends the whole call.
   [opn] = the descriptor table, [tmo] = minimum of the clock timeouts so far (int64). *)
Definition poll_event (userdata errno ty : Z) : bytes :=
  le_bytes 8 (wrap 64 userdata) ++ le_bytes 2 errno ++ le_bytes 4 ty ++ le_bytes 18 0.

Fixpoint poll_scan (opn : Z -> bool) (subs : list sub) (now deferred : list bytes) (tmo : Z) : Z + (list bytes * list bytes * Z) :=
  match subs with
  | [] => inr (now, deferred, tmo)
  | SClock t fl u :: r =>
      let fl := wrap 16 fl in
      if fl =? 0 then poll_scan opn r (now ++ [poll_event u 0 EventTypeClock]) deferred (Z.min (swrap 64 t) tmo)
      else if fl =? 1 then inl ErrnoNotsup else inl ErrnoInval
  | SFdRead fd u :: r =>
      let fd := swrap 32 fd in
      if fd <? 0 then inl ErrnoBadf
      else if opn fd then poll_scan opn r now (deferred ++ [poll_event u 0 EventTypeFdRead]) tmo
      else poll_scan opn r (now ++ [poll_event u ErrnoBadf EventTypeFdRead]) deferred tmo
  | SFdWrite fd u :: r =>
      let fd := swrap 32 fd in
      if fd <? 0 then inl ErrnoBadf
      else poll_scan opn r (now ++ [poll_event u (if opn fd then ErrnoNotsup else ErrnoBadf) EventTypeFdWrite]) deferred tmo
  | SOther _ _ :: _ => inl ErrnoInval
  end.

Definition is_clock_sub (s : sub) : bool := match s with SClock _ _ _ => true | _ => false end.

(* errno, bytes at result.nevents followed by the nsubscriptions*32 bytes of the (zeroed) event area, nanoseconds slept
   (only a clock subscription supplies a timeout to sleep for) *)
Definition poll_result (opn : Z -> bool) (subs : list sub) : Z * bytes * Z :=
  match subs with
  | [] => (ErrnoInval, [], 0)
  | _ =>
    match poll_scan opn subs [] [] (2 ^ 63 - 1) with
    | inl e => (e, [], 0)
    | inr (now, deferred, tmo) =>
        let evs := now ++ deferred in
        let area := concat evs in
        match deferred with
        | [] => (0, le_bytes 4 (Z.of_nat (length evs)) ++ area ++ repeat 0 (32 * length subs - length area)%nat,
                 if existsb is_clock_sub subs && (0 <? tmo) then tmo else 0)
        | _ => if opn FdStdin
               then (0, le_bytes 4 (Z.of_nat (length evs)) ++ area ++ repeat 0 (32 * length subs - length area)%nat, 0)
               else (ErrnoBadf, [], 0)
        end
    end
  end.

(* fd_fdstat_get of a stdio descriptor: Stat gives fs.ModeDevice|0640, which getWasiFiletype maps to
   FILETYPE_BLOCK_DEVICE (the seek/tell rights are only removed for character devices); no fd flags *)
Definition stdio_fdstat : bytes :=
  le_bytes 2 FILETYPE_BLOCK_DEVICE ++ le_bytes 2 0 ++ le_bytes 4 0 ++ le_bytes 8 fileRightsBase ++ le_bytes 8 0.

(* fd_filestat_get of a stdio descriptor: noopStdioFile.Stat is Stat_t{Mode: ModeDevice|0640, Nlink: 1}: device 0,
   inode 0, block device, one link, size 0, all three timestamps 0 — nothing of the host *)
Definition stdio_filestat : bytes :=
  le_bytes 8 0 ++ le_bytes 8 0 ++ le_bytes 8 FILETYPE_BLOCK_DEVICE ++ le_bytes 8 1 ++ le_bytes 8 0 ++
  le_bytes 8 0 ++ le_bytes 8 0 ++ le_bytes 8 0.

Definition bad : result := (ErrnoBadf, []).

(* a call of an instance that has not exited *)
Definition wasi_live (c : ctx) (k : call) : ctx * result :=
  match k with
  | ClockTimeGet id _ =>
      let id := wrap 32 id in
      if id =? ClockIDRealtime then let '(v, w) := read_clock (c_wall c) in (with_wall c w, (0, le_bytes 8 (wrap 64 v)))
      else if id =? ClockIDMonotonic then let '(v, w) := read_clock (c_mono c) in (with_mono c w, (0, le_bytes 8 (wrap 64 v)))
      else (c, (ErrnoInval, []))
  | ClockResGet id =>
      let id := wrap 32 id in
      if id =? ClockIDRealtime then (c, (0, le_bytes 8 (wrap 64 (c_wall_res c))))
      else if id =? ClockIDMonotonic then (c, (0, le_bytes 8 (wrap 64 (c_mono_res c))))
      else (c, (ErrnoInval, []))
  | RandomGet n => let '(b, r) := read_rand (c_rand c) n in (with_rand c r, (0, b))
  | ArgsSizesGet => (c, (0, le_bytes 4 (Z.of_nat (length (c_args c))) ++ le_bytes 4 (total_size (c_args c))))
  | ArgsGet => (c, (0, nul_terminated (c_args c)))
  | EnvironSizesGet => (c, (0, le_bytes 4 (Z.of_nat (length (c_environ c))) ++ le_bytes 4 (total_size (c_environ c))))
  | EnvironGet => (c, (0, nul_terminated (c_environ c)))
  | FdRead fd lens =>
      (* readv over File.Read: EOF stdin gives 0 bytes; stdout/stderr have no Read (ENOSYS, reported as EBADF) but are
         only asked when some buffer is not empty *)
      let fd := swrap 32 fd in
      if negb (is_open c fd) then (c, bad)
      else if fd =? FdStdin then
        match c_stdin c with
        | StdinEOF => (c, (0, le_bytes 4 0))
        | StdinData rest => let '(got, rest') := readv lens rest in
                            (with_stdin c (StdinData rest'), (0, le_bytes 4 (Z.of_nat (length got)) ++ got))
        end
      else if (fd =? FdStdout) || (fd =? FdStderr) then (c, if all_zero lens then (0, le_bytes 4 0) else bad)
      else (c, unmodelled)
  | FdWrite fd chunks =>
      (* writev over File.Write: every ciovec, even an empty one, is handed to the file; stdin has no Write *)
      let fd := swrap 32 fd in
      if negb (is_open c fd) then (c, bad)
      else if fd =? FdStdin then (c, match chunks with [] => (0, le_bytes 4 0) | _ => bad end)
      else if (fd =? FdStdout) || (fd =? FdStderr) then
        let host := if fd =? FdStdout then c_stdout_host c else c_stderr_host c in
        (with_effects c (if host then c_emitted c ++ concat chunks else c_emitted c) (c_slept c),
         (0, le_bytes 4 (wrap 32 (Z.of_nat (length (concat chunks))))))
      else (c, unmodelled)
  | FdPread fd lens _ =>
      (* no stdio file has Pread: ENOSYS (reported as EBADF) as soon as a buffer is not empty *)
      on_fd c fd bad (if all_zero lens then (0, le_bytes 4 0) else bad)
  | FdPwrite fd chunks _ =>
      on_fd c fd bad (if all_empty chunks then (0, le_bytes 4 0) else bad)
  | FdPrestatGet fd =>
      let fd := swrap 32 fd in
      if negb (is_open c fd) then (c, bad)
      else if (0 <=? fd) && (fd <? 3) then (c, (0, le_bytes 8 0))     (* stdio entries are flagged pre-open, not directories *)
      else if (3 <=? fd) && (fd <? 3 + Z.of_nat (length (c_preopens c)))
      then (c, (0, le_bytes 4 0 ++ le_bytes 4 (Z.of_nat (length (nth (Z.to_nat (fd - 3)) (c_preopens c) [])))))
      else (c, bad)
  | FdPrestatDirName fd len =>
      let fd := swrap 32 fd in
      let len := wrap 32 len in
      if negb (is_open c fd) then (c, bad)
      else if (0 <=? fd) && (fd <? 3) then (c, if 0 <? len then (ErrnoNametoolong, []) else (0, []))   (* the name is "" *)
      else if (3 <=? fd) && (fd <? 3 + Z.of_nat (length (c_preopens c)))
      then let name := nth (Z.to_nat (fd - 3)) (c_preopens c) [] in
           (c, if Z.of_nat (length name) <? len then (ErrnoNametoolong, []) else (0, firstn (Z.to_nat len) name))
      else (c, bad)
  | FdFdstatGet fd => on_fd c fd bad (0, stdio_fdstat)
  | FdFdstatSetFlags fd flags =>
      let fl := wrap 16 flags in
      if has fl FD_DSYNC || has fl FD_RSYNC || has fl FD_SYNC then (c, (ErrnoInval, []))
      else on_fd c fd bad (ErrnoNosys, [])                        (* noopStdioFile.SetNonblock *)
  | FdFdstatSetRights _ _ _ => (c, (ErrnoNosys, []))               (* stub *)
  | FdFilestatGet fd => on_fd c fd bad (0, stdio_filestat)
  | FdFilestatSetSize fd _ => on_fd c fd bad (ErrnoNosys, [])     (* Truncate *)
  | FdFilestatSetTimes fd _ _ fstflags =>
      match fd_kind c (swrap 32 fd) with
      | KClosed => (c, bad)
      | KOther => (c, unmodelled)
      | _ => let '(w, e) := to_times (c_wall c) fstflags in
             (with_wall c w, (if e =? 0 then ErrnoNosys else e, []))   (* Utimens; there is no file system to fall back to *)
      end
  | FdAdvise fd _ _ advice =>
      on_fd c fd bad (if wrap 8 advice <=? FdAdviceNoReuse then 0 else ErrnoInval, [])
  | FdAllocate fd off len =>
      let tail := swrap 64 (wrap 64 off + wrap 64 len) in
      on_fd c fd bad (if tail <? 0 then ErrnoInval else if tail <=? 0 then 0 else ErrnoNosys, [])   (* size 0; Truncate *)
  | FdClose fd =>
      match fd_kind c (swrap 32 fd) with
      | KClosed => (c, bad)
      | KOther => (c, unmodelled)
      | _ => (with_table c (fd_remove (c_fds c) (swrap 32 fd)) (c_exited c), (0, []))
      end
  | FdDatasync fd => on_fd c fd bad (0, [])
  | FdSync fd => on_fd c fd bad (0, [])
  | FdReaddir fd buflen _ =>
      if wrap 32 buflen <? DirentSize then (c, (ErrnoInval, []))
      else on_fd c fd bad bad                                    (* not a directory: ENOTDIR is reported as EBADF *)
  | FdRenumber from to =>
      (* stdio entries are pre-opens: never renumbered, never replaced *)
      on_fd c from bad (if swrap 32 to <? 0 then ErrnoBadf else ErrnoNotsup, [])
  | FdSeek fd _ _ => on_fd c fd bad (ErrnoNosys, [])
  | FdTell fd => on_fd c fd bad (ErrnoNosys, [])
  | PollClock clockid timeout flags userdata =>
      let flags := wrap 16 flags in
      if flags =? 0 then
        let t := swrap 64 timeout in
        (with_effects c (c_emitted c) (if c_sleep_real c && (0 <? t) then c_slept c + t else c_slept c),
         (0, le_bytes 4 1 ++ le_bytes 8 (wrap 64 userdata) ++ le_bytes 2 0 ++ le_bytes 4 EventTypeClock ++ le_bytes 18 0))
      else if flags =? 1 then (c, (ErrnoNotsup, []))
      else (c, (ErrnoInval, []))
  | Poll subs =>
      let '(e, out, sl) := poll_result (is_open c) subs in
      (with_effects c (c_emitted c) (if c_sleep_real c then c_slept c + sl else c_slept c), (e, out))
  | SchedYield => (c, (0, []))
  | PathOpen fd p => at_path c fd p
  | PathCreateDirectory fd p => at_path c fd p
  | PathFilestatGet fd _ p => at_path c fd p
  | PathFilestatSetTimes fd _ p _ _ fstflags =>
      (* toTimes runs BEFORE the descriptor is looked at *)
      let '(w, e) := to_times (c_wall c) fstflags in
      if e =? 0 then let '(_, r) := at_path c fd p in (with_wall c w, r) else (with_wall c w, (e, []))
  | PathLink oldfd _ oldp _ _ => at_path c oldfd oldp
  | PathReadlink fd p buflen =>
      if (Z.of_nat (length p) =? 0) || (wrap 32 buflen =? 0) then (c, (ErrnoInval, [])) else at_path c fd p
  | PathRemoveDirectory fd p => at_path c fd p
  | PathRename fd oldp _ _ => at_path c fd oldp
  | PathSymlink _ fd _ => on_fd c fd bad (ErrnoNotdir, [])
  | PathUnlinkFile fd p => at_path c fd p
  | ProcExit code => (with_table c [] (Some (wrap 32 code)), (res_exit, le_bytes 4 (wrap 32 code)))
  | ProcRaise _ => (c, (ErrnoNosys, []))                           (* stub *)
  | SockAccept fd _ => on_fd c fd bad bad                          (* not a listener *)
  | SockRecv fd _ _ => on_fd c fd bad bad                          (* not a connection *)
  | SockSend fd _ siflags => if wrap 32 siflags =? 0 then on_fd c fd bad bad else (c, (ErrnoNotsup, []))
  | SockShutdown fd _ => on_fd c fd bad bad
  end.

Definition wasi_step (c : ctx) (k : call) : ctx * result :=
  match c_exited c with
  | Some code => (c, (res_closed, le_bytes 4 code))
  | None => wasi_live c k
  end.

Fixpoint trace (c : ctx) (ks : list call) : list result :=
  match ks with
  | [] => []
  | k :: r => let '(c', x) := wasi_step c k in x :: trace c' r
  end.

Definition final (c : ctx) (ks : list call) : ctx := fold_left (fun a k => fst (wasi_step a k)) ks c.

(* several instances of one runtime: each has its own ctx; a schedule interleaves their calls *)
Fixpoint set_nth {A} (l : list A) (n : nat) (v : A) : list A :=
  match l, n with
  | [], _ => []
  | _ :: r, O => v :: r
  | x :: r, S k => x :: set_nth r k v
  end.

Fixpoint run_multi (cs : list ctx) (sched : list (nat * call)) : list (nat * result) :=
  match sched with
  | [] => []
  | (i, k) :: r =>
      match nth_error cs i with
      | None => run_multi cs r
      | Some c => let '(c', x) := wasi_step c k in (i, x) :: run_multi (set_nth cs i c') r
      end
  end.

Definition proj {A} (i : nat) (l : list (nat * A)) : list A :=
  map snd (filter (fun e => Nat.eqb (fst e) i) l).

(* ---- the descriptor table as a function of the calls alone ----
   None: the instance has exited (its table is gone).  Nothing ever ADDS a descriptor: without a directory there is
   nothing path_open could open, without a listener nothing sock_accept could accept, and the stdio entries, being
   pre-opens, cannot be renumbered. *)
Definition tbl := option (list Z).
Definition tbl_step (t : tbl) (k : call) : tbl :=
  match t with
  | None => None
  | Some fds => match k with
                | ProcExit _ => None
                | FdClose fd => Some (fd_remove fds (swrap 32 fd))
                | _ => Some fds
                end
  end.
Definition ctx_tbl (c : ctx) : tbl := match c_exited c with Some _ => None | None => Some (c_fds c) end.
Definition tbl_after (ks : list call) : tbl := fold_left tbl_step ks (Some [0; 1; 2]).

(* which calls read which clock: clock_time_get, and fd/path_filestat_set_times with a "now" flag (one reading: the
   second timestamp re-uses the first reading unless that was 0) *)
Definition times_reads (fstflags : Z) : bool :=
  let fl := wrap 16 fstflags in
  if has fl FstflagsAtim && has fl FstflagsAtimNow then false
  else if has fl FstflagsAtimNow then true
  else if has fl FstflagsMtim && has fl FstflagsMtimNow then false
  else has fl FstflagsMtimNow.

Definition reads_wall (t : tbl) (k : call) : bool :=
  match t with
  | None => false
  | Some fds =>
      match k with
      | ClockTimeGet id _ => wrap 32 id =? ClockIDRealtime
      | FdFilestatSetTimes fd _ _ fl => fd_in fds (swrap 32 fd) && times_reads fl
      | PathFilestatSetTimes _ _ _ _ _ fl => times_reads fl
      | _ => false
      end
  end.
Definition reads_mono (t : tbl) (k : call) : bool :=
  match t with
  | None => false
  | Some _ => match k with ClockTimeGet id _ => wrap 32 id =? ClockIDMonotonic | _ => false end
  end.
(* number of calls of [ks], started with table [t], for which [f] holds *)
Fixpoint count (f : tbl -> call -> bool) (t : tbl) (ks : list call) : Z :=
  match ks with
  | [] => 0
  | k :: r => (if f t k then 1 else 0) + count f (tbl_step t k) r
  end.

(* every path argument of the call is ASCII (the model's atPath is stated for ASCII paths) *)
Definition ascii_call (k : call) : bool :=
  match k with
  | PathOpen _ p | PathCreateDirectory _ p | PathFilestatGet _ _ p | PathFilestatSetTimes _ _ p _ _ _
  | PathLink _ _ p _ _ | PathReadlink _ p _ | PathRemoveDirectory _ p | PathRename _ p _ _ | PathUnlinkFile _ p => ascii p
  | _ => true
  end.

End Wasi.

(* hermetic: no component of the context consults or affects the host *)
Definition hermetic (c : ctx) : Prop :=
  c_args c = [] /\ c_environ c = [] /\ c_stdin c = StdinEOF /\ c_stdout_host c = false /\ c_stderr_host c = false /\
  (exists p, c_rand c = FakeRand p) /\ (exists t, c_wall c = FakeClock t) /\ (exists t, c_mono c = FakeClock t) /\
  c_sleep_real c = false /\ c_yield_real c = false /\ c_preopens c = [] /\ c_listeners c = O /\
  forallb (fun fd => (0 <=? fd) && (fd <? 3)) (c_fds c) = true.      (* only stdio descriptors are open *)

(* the initial context of every default instance, spelled out *)
Definition default_ctx : ctx :=
  {| c_args := []; c_environ := []; c_stdin := StdinEOF; c_stdout_host := false; c_stderr_host := false;
     c_rand := FakeRand 0; c_wall := FakeClock 1640995200000000000; c_wall_res := 1000;
     c_mono := FakeClock 0; c_mono_res := 1; c_sleep_real := false; c_yield_real := false;
     c_preopens := []; c_listeners := O; c_fds := [0; 1; 2]; c_exited := None; c_emitted := []; c_slept := 0 |}.

(* ------------------------------------------------------------------------------------------ *)
(* correspondence cases: the oracle stream is a list (bytes beyond it read as -1 and never match) *)
Definition stream_of (l : list Z) : nat -> Z := fun k => nth k l (-1).

Fixpoint list_eqb (a b : list Z) : bool :=
  match a, b with
  | [], [] => true
  | x :: a', y :: b' => (x =? y) && list_eqb a' b'
  | _, _ => false
  end.

Fixpoint first_diff (i : Z) (xs ys : list result) : Z :=
  match xs, ys with
  | [], [] => -1
  | x :: xr, y :: yr => if (fst x =? fst y) && list_eqb (snd x) (snd y) then first_diff (i + 1) xr yr else i
  | _, _ => i
  end.

Definition case := (list call * list result)%type.

Definition dummy_host : host_env :=
  {| h_args := [[104; 111; 115; 116]]; h_environ := [([72], [49])]; h_cwd := [47]; h_stdin := [1; 2; 3];
     h_wall := fun k => 1700000000000000000 + Z.of_nat k; h_mono := fun k => 5 + Z.of_nat k; h_entropy := fun k => Z.of_nat k mod 256;
     h_dirs := [[47]]; h_listeners := 1%nat |}.

Definition check_case (rs : list Z) (c : case) : Z :=
  match mk_ctx default_config dummy_host with
  | None => -2
  | Some c0 => first_diff 0 (trace (stream_of rs) c0 (fst c)) (snd c)
  end.

Fixpoint mismatches (rs : list Z) (i : Z) (cs : list case) : list (Z * Z) :=
  match cs with
  | [] => []
  | c :: r => let d := check_case rs c in
              if d =? -1 then mismatches rs (i + 1) r else (i, d) :: mismatches rs (i + 1) r
  end.
