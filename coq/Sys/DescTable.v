(* C16 (part A): model of internal/descriptor/table.go — Table[Key ~int32, Item].
   Two executable models and no proofs in this file:
     * the IMPLEMENTATION model [tbl]: `masks []uint64` bitmap + `items []Item`, Insert = scan for the first
       word with a zero bit + bits.TrailingZeros64(^mask), InsertAt / Lookup / Delete / Reset with the
       same index arithmetic and the same grow policy (grow(n): n more mask words, 64*n more items,
       zero filled). Slice-index panics are explicit [OPanic] outcomes, the `goto insert` loop has
       explicit fuel ([OOutOfFuel]);
     * the ABSTRACT model [amap]: a finite map as an association list, Insert yields the least key
       not in the map (and panics when that key does not fit an int32, as the implementation does).
   Items are integers; 0 is the zero value of Item. The table functions are generic and slice based,
   outside the go2coq subset, hence transcribed by hand and tied by the correspondence run, which
   also compares the final `masks` words and `len(items)` read through an overlay accessor. *)
From Verif Require Import Lib.GoInt.
Open Scope Z_scope.

Definition len {A} (l : list A) : Z := Z.of_nat (length l).
Definition getz (l : list Z) (i : Z) : Z := nth (Z.to_nat i) l 0.
Fixpoint set_nth (l : list Z) (n : nat) (v : Z) : list Z :=
  match l, n with
  | [], _ => []
  | _ :: r, O => v :: r
  | x :: r, S k => x :: set_nth r k v
  end.
Definition setz (l : list Z) (i v : Z) : list Z := set_nth l (Z.to_nat i) v.

(* ---- uint64 words ---- *)
Definition ones64 : Z := Z.ones 64.
Definition not64 (m : Z) : Z := Z.lxor m ones64.                      (* ^mask *)
Definition bit64 (s : Z) : Z := wrap 64 (Z.shiftl 1 s).                (* uint64(1<<shift) *)
Fixpoint tz_scan (n : nat) (i x : Z) : Z :=
  match n with O => i | S k => if Z.testbit x i then i else tz_scan k (i + 1) x end.
Definition tz64 (x : Z) : Z := tz_scan 64 0 x.                         (* bits.TrailingZeros64 *)

(* ---- implementation model ---- *)
Record tbl := { masks : list Z; items : list Z }.
Definition empty_tbl : tbl := {| masks := []; items := [] |}.

Inductive out :=
| OKey (k : Z) (ok : bool)        (* Insert *)
| OItem (v : Z) (found : bool)    (* Lookup *)
| OBool (b : bool)                (* InsertAt *)
| OUnit                           (* Delete, Reset *)
| OPanic                          (* Go runtime panic: index out of range *)
| OOutOfFuel.                     (* the `goto insert` loop did not finish within the model's fuel *)

Definition grow (t : tbl) (n : Z) : tbl :=
  {| masks := masks t ++ repeat 0 (Z.to_nat n); items := items t ++ repeat 0 (Z.to_nat (n * 64)) |}.

(* for index, mask := range t.masks[offset:] { if ^mask != 0 {...} } : first word that is not full *)
Fixpoint scan (ms : list Z) (index : Z) : option (Z * Z) :=
  match ms with
  | [] => None
  | m :: r => if not64 m =? 0 then scan r (index + 1) else Some (index, m)
  end.

(* body of the `if ^mask != 0` branch; `index` already includes `offset` *)
Definition insert_slot (t : tbl) (index mask item : Z) : tbl * out :=
  let shift := tz64 (not64 mask) in
  let key := swrap 32 (swrap 32 (swrap 32 index * 64) + swrap 32 shift) in   (* Key(index)*64 + Key(shift) *)
  if (0 <=? key) && (key <? len (items t)) then                              (* t.items[key] = item *)
    if (0 <=? index) && (index <? len (masks t)) then                        (* t.masks[index] = ... *)
      ({| masks := setz (masks t) index (Z.lor mask (bit64 shift)); items := setz (items t) key item |},
       OKey key (0 <=? key))
    else (t, OPanic)
  else (t, OPanic).

Fixpoint insert_loop (fuel : nat) (t : tbl) (offset item : Z) : tbl * out :=
  match fuel with
  | O => (t, OOutOfFuel)
  | S f =>
      match scan (skipn (Z.to_nat offset) (masks t)) offset with
      | Some (index, mask) => insert_slot t index mask item
      | None => insert_loop f (grow t 1) (len (masks t)) item      (* offset = len(t.masks); t.grow(1); goto insert *)
      end
  end.
Definition insert (t : tbl) (item : Z) : tbl * out := insert_loop 3 t 0 item.

Definition lookup (t : tbl) (key : Z) : out :=
  if key <? 0 then OItem 0 false
  else if key <? len (items t) then
    let index := key / 64 in
    let shift := key mod 64 in
    if index <? len (masks t) then
      if Z.land (getz (masks t) index) (bit64 shift) =? 0 then OItem 0 false
      else OItem (getz (items t) key) true
    else OPanic
  else OItem 0 false.

Definition insert_at (t : tbl) (item key : Z) : tbl * out :=
  if key <? 0 then (t, OBool false) else
  let index := key / 64 in
  let diff := index - len (masks t) + 1 in
  let t1 := if 0 <? diff then grow t diff else t in
  let shift := key mod 64 in
  if (index <? len (masks t1)) && (key <? len (items t1)) then
    ({| masks := setz (masks t1) index (Z.lor (getz (masks t1) index) (bit64 shift));
        items := setz (items t1) key item |}, OBool true)
  else (t1, OPanic).

Definition delete (t : tbl) (key : Z) : tbl * out :=
  if key <? 0 then (t, OUnit) else
  let index := key / 64 in
  if index <? len (masks t) then
    let shift := key mod 64 in
    let mask := getz (masks t) index in
    if Z.land mask (bit64 shift) =? 0 then (t, OUnit)
    else if key <? len (items t) then
      ({| masks := setz (masks t) index (Z.land mask (not64 (bit64 shift))); items := setz (items t) key 0 |}, OUnit)
    else (t, OPanic)
  else (t, OUnit).

Definition reset (t : tbl) : tbl :=
  {| masks := repeat 0 (length (masks t)); items := repeat 0 (length (items t)) |}.

(* ---- abstract model: association list, at most one binding per key ---- *)
Definition amap := list (Z * Z).
Fixpoint alookup (a : amap) (k : Z) : option Z :=
  match a with [] => None | (k', v) :: r => if k' =? k then Some v else alookup r k end.
Fixpoint aremove (a : amap) (k : Z) : amap :=
  match a with [] => [] | (k', v) :: r => if k' =? k then aremove r k else (k', v) :: aremove r k end.
Definition amem (a : amap) (k : Z) : bool := match alookup a k with Some _ => true | None => false end.
Fixpoint amax (a : amap) : Z := match a with [] => -1 | (k, _) :: r => Z.max k (amax r) end.
(* least key >= k that is not bound, searching at most [fuel] keys *)
Fixpoint lfree (fuel : nat) (a : amap) (k : Z) : Z :=
  match fuel with O => k | S f => if amem a k then lfree f a (k + 1) else k end.
Definition least_free (a : amap) : Z := lfree (Z.to_nat (amax a + 1)) a 0.

(* ---- operations ---- *)
Inductive op :=
| Insert (item : Z) | InsertAt (item key : Z) | Lookup (key : Z) | Delete (key : Z) | Reset.

Definition step_impl (t : tbl) (o : op) : tbl * out :=
  match o with
  | Insert v => insert t v
  | InsertAt v k => insert_at t v k
  | Lookup k => (t, lookup t k)
  | Delete k => delete t k
  | Reset => (reset t, OUnit)
  end.

Definition step_abs (a : amap) (o : op) : amap * out :=
  match o with
  | Insert v => let k := least_free a in
                if k <? 2 ^ 31 then ((k, v) :: a, OKey k true) else (a, OPanic)   (* all 2^31 keys in use *)
  | InsertAt v k => if k <? 0 then (a, OBool false) else ((k, v) :: aremove a k, OBool true)
  | Lookup k => (a, match alookup a k with Some v => OItem v true | None => OItem 0 false end)
  | Delete k => (aremove a k, OUnit)
  | Reset => ([], OUnit)
  end.

Definition is_stop (o : out) : bool := match o with OPanic | OOutOfFuel => true | _ => false end.

(* a run stops at the first panic: the outcomes so far (including the panic) are what is observable *)
Fixpoint run_impl (ops : list op) (t : tbl) : tbl * list out :=
  match ops with
  | [] => (t, [])
  | o :: r => let '(t1, x) := step_impl t o in
              if is_stop x then (t1, [x]) else let '(t2, xs) := run_impl r t1 in (t2, x :: xs)
  end.
Fixpoint run_abs (ops : list op) (a : amap) : amap * list out :=
  match ops with
  | [] => (a, [])
  | o :: r => let '(a1, x) := step_abs a o in
              if is_stop x then (a1, [x]) else let '(a2, xs) := run_abs r a1 in (a2, x :: xs)
  end.

(* keys are int32 values, items int64 values: the Go types of the harness instance *)
Definition op_wf (o : op) : Prop :=
  match o with
  | InsertAt _ k | Lookup k | Delete k => - 2 ^ 31 <= k < 2 ^ 31
  | _ => True
  end.

(* ---- correspondence: a case is (ops, observed outcomes, final masks, final len(items)) ---- *)
Definition out_eqb (a b : out) : bool :=
  match a, b with
  | OKey k o, OKey k' o' => (k =? k') && Bool.eqb o o'
  | OItem v f, OItem v' f' => (v =? v') && Bool.eqb f f'
  | OBool x, OBool y => Bool.eqb x y
  | OUnit, OUnit => true
  | OPanic, OPanic => true
  | _, _ => false
  end.
Fixpoint first_diff (i : Z) (xs ys : list out) : Z :=
  match xs, ys with
  | [], [] => -1
  | x :: xr, y :: yr => if out_eqb x y then first_diff (i + 1) xr yr else i
  | _, _ => i
  end.
Fixpoint zlist_eqb (a b : list Z) : bool :=
  match a, b with [] , [] => true | x :: r, y :: s => (x =? y) && zlist_eqb r s | _, _ => false end.

Definition case := (list op * list out * list Z * Z)%type.
(* -1: agree; j >= 0: first differing outcome (implementation model); -2: final masks/len(items) differ;
   -3: the abstract map's outcomes differ from the implementation model's (would contradict the theorem) *)
Definition check_case (c : case) : Z :=
  let '(ops, obs, fmasks, nitems) := c in
  let '(t, outs) := run_impl ops empty_tbl in
  let d := first_diff 0 outs obs in
  if negb (d =? -1) then d
  else if negb (zlist_eqb (masks t) fmasks && (len (items t) =? nitems)) then -2
  else if negb (first_diff 0 (snd (run_abs ops [])) obs =? -1) then -3
  else -1.
Fixpoint mismatches (i : Z) (cs : list case) : list (Z * Z) :=
  match cs with
  | [] => []
  | c :: r => let d := check_case c in
              if d =? -1 then mismatches (i + 1) r else (i, d) :: mismatches (i + 1) r
  end.
