(* C16 (part B): model of fd_readdir — imports/wasi_snapshot_preview1/fs.go (fdReaddirFn, maxDirents,
   writeDirents, writeDirent) on top of internal/sys/fs.go (DirentCache.Read, cachedDirents) on top of
   a directory stream (sys.File Readdir/Seek as implemented by internal/sysfs for an unchanging
   directory: Readdir(n) yields the next min(n, remaining) entries, Seek(0) rewinds).
   Executable definitions only. Sizes and counters are Z with Go's wrap-around made explicit; the
   `panic("invalid filename: too large")` and slice-index panics are explicit outcomes.
   DirentSize, largestDirent and the errno numbers come from coq/Gen (regenerated from /repo). *)
From Verif Require Import Lib.GoInt Gen.GenC16Wasip1 Gen.GenC16Wasi.
Open Scope Z_scope.

Definition len {A} (l : list A) : Z := Z.of_nat (length l).

(* sys.Dirent: name bytes, inode, and the WASI filetype byte its fs.FileMode maps to *)
Record dirent := { d_name : list Z; d_ino : Z; d_type : Z }.

(* ---- DirentCache ---- *)
Record cache := {
  c_dirents : option (list dirent);   (* None = nil ("re-read"), Some [] = exhausted *)
  c_countRead : Z;                    (* uint64 *)
  c_eof : bool;
  c_upos : nat                        (* entries consumed from the underlying directory stream *)
}.
Definition cache_init : cache := {| c_dirents := None; c_countRead := 0; c_eof := false; c_upos := O |}.

Section Dir.
Variable dotIno : Z.                  (* inode of the directory itself, reported for "." *)
Variable dir : list dirent.           (* the directory's entries in stream order, without dot entries *)

Definition dots : list dirent :=
  [ {| d_name := [46]; d_ino := dotIno; d_type := FILETYPE_DIRECTORY |};
    {| d_name := [46; 46]; d_ino := 0; d_type := FILETYPE_DIRECTORY |} ].

(* sys.File.Readdir(n) on the underlying directory (n <= 0 means "all", as for os.File) *)
Definition u_readdir (pos : nat) (n : Z) : list dirent :=
  if n <=? 0 then skipn pos dir else firstn (Z.to_nat n) (skipn pos dir).

Definition with_dirents (c : cache) (l : option (list dirent)) (cr : Z) (e : bool) (u : nat) : cache :=
  {| c_dirents := l; c_countRead := cr; c_eof := e; c_upos := u |}.

(* cachedDirents(n) *)
Definition cached (l : list dirent) (n : Z) : list dirent :=
  let direntCount := wrap 32 (len l) in
  if direntCount =? 0 then [] else if n <? direntCount then firstn (Z.to_nat n) l else l.

Inductive rres := RErr (errno : Z) | ROk (l : list dirent).

(* DirentCache.Read(pos uint64, n uint32) *)
Definition cache_read (c : cache) (pos n : Z) : cache * rres :=
  if c_countRead c <? pos then (c, RErr ErrnoNoent) else
  let c := match c_dirents c with
           | Some _ => if pos =? 0 then with_dirents c None 0 (c_eof c) O else c   (* Seek(0); dump cache *)
           | None => c
           end in
  if n =? 0 then (c, ROk []) else
  match c_dirents c with
  | None =>
      let countToRead := swrap 64 (wrap 32 (n - 2)) in                    (* int(n - 2), n - 2 in uint32 *)
      let c0 := with_dirents c (Some dots) 2 false (c_upos c) in
      if countToRead <=? 0 then (c0, ROk [])                              (* named result `dirents` is still nil *)
      else
        let got := u_readdir (c_upos c) countToRead in
        let c1 := if 0 <? len got
                  then with_dirents c (Some (dots ++ got)) (wrap 64 (2 + len got)) (len got <? countToRead)
                                    (c_upos c + length got)%nat
                  else c0 in
        (c1, ROk (match c_dirents c1 with Some l => cached l n | None => [] end))
  | Some l =>
      let cacheStart := wrap 64 (c_countRead c - len l) in
      if pos <? cacheStart then (c, RErr ErrnoNoent) else
      let posInCache := wrap 64 (pos - cacheStart) in
      if len l <? posInCache then (c, RErr (-1))                          (* slice bounds panic; unreachable *)
      else
      let l1 := if posInCache =? 0 then l else if len l =? posInCache then [] else skipn (Z.to_nat posInCache) l in
      let countToRead := n - len l1 in                                    (* int(n) - len(d.dirents) *)
      let c1 :=
        if (0 <? countToRead) && negb (c_eof c) then
          let got := u_readdir (c_upos c) countToRead in
          if 0 <? len got
          then with_dirents c (Some (l1 ++ got)) (wrap 64 (c_countRead c + len got)) (len got <? countToRead)
                            (c_upos c + length got)%nat
          else with_dirents c (Some l1) (c_countRead c) (c_eof c) (c_upos c)
        else with_dirents c (Some l1) (c_countRead c) (c_eof c) (c_upos c) in
      (c1, ROk (match c_dirents c1 with Some l2 => cached l2 n | None => [] end))
  end.

(* ---- maxDirents: (bufToWrite, direntCount, truncatedLen); None = panic("invalid filename: too large") ---- *)
Fixpoint max_dirents (l : list dirent) (lenRemaining : Z) : option (Z * Z * Z) :=
  match l with
  | [] => Some (0, 0, 0)
  | d :: r =>
      if lenRemaining =? 0 then Some (0, 0, 0) else
      let el := DirentSize + len (d_name d) in
      if largestDirent <? el then None else
      if lenRemaining <? el then
        let t := if DirentSize <=? lenRemaining then DirentSize else lenRemaining in Some (t, 1, t)
      else match max_dirents r (lenRemaining - el) with
           | None => None
           | Some (w, cnt, t) => Some (wrap 32 (el + w), cnt + 1, t)
           end
  end.

(* ---- writeDirents: what is stored into the buffer ---- *)
Inductive witem :=
| WFull (dnext : Z) (e : dirent)      (* 24-byte header followed by the name *)
| WHeader (dnext : Z) (e : dirent).   (* header only: the name did not fit *)

(* for i := 0; i < direntCount; i++ { e := dirents[i] ... }  — None = index out of range *)
Fixpoint write_loop (l : list dirent) (dnext i cnt skip : Z) : option (list witem) :=
  if cnt <=? i then Some [] else
  match l with
  | [] => None
  | e :: r => match write_loop r (wrap 64 (dnext + 1)) (i + 1) cnt skip with
              | None => None
              | Some ws => Some ((if i =? skip then WHeader dnext e else WFull dnext e) :: ws)
              end
  end.

Definition write_dirents (l : list dirent) (dnext cnt truncatedLen : Z) : option (list witem) :=
  let cnt1 := if (0 <? truncatedLen) && (truncatedLen <? DirentSize) then cnt - 1 else cnt in
  let skip := if (0 <? truncatedLen) && negb (truncatedLen <? DirentSize) then cnt - 1 else -1 in
  write_loop l dnext 0 cnt1 skip.

(* ---- fd_readdir(fd, buf, buf_len, cookie) -> errno, bufused and the buffer contents ---- *)
Inductive fres :=
| FErr (errno : Z)
| FOk (items : list witem) (bufToWrite bufused : Z) (returned : list dirent)   (* returned: what Read gave *)
| FPanic.

Definition fd_readdir (c : cache) (bufLen cookie : Z) : cache * fres :=
  if bufLen <? DirentSize then (c, FErr ErrnoInval) else
  let maxDirEntries := wrap 32 (wrap 32 (bufLen / DirentSize + 1) + 1) in
  match cache_read c cookie maxDirEntries with
  | (c1, RErr e) => (c1, if e <? 0 then FPanic else FErr e)
  | (c1, ROk dirents) =>
      match max_dirents dirents bufLen with
      | None => (c1, FPanic)
      | Some (bufToWrite, direntCount, truncatedLen) =>
          match (if 0 <? bufToWrite then write_dirents dirents (wrap 64 (cookie + 1)) direntCount truncatedLen
                 else Some []) with
          | None => (c1, FPanic)
          | Some items => (c1, FOk items bufToWrite (if 0 <? truncatedLen then bufLen else bufToWrite) dirents)
          end
      end
  end.

(* the entries a guest can use: header and whole name present *)
Fixpoint complete (ws : list witem) : list (Z * dirent) :=
  match ws with
  | [] => []
  | WFull n e :: r => (n, e) :: complete r
  | WHeader _ _ :: r => complete r
  end.

(* ---- client protocol ----
   Cont b   : call with buffer length b and the cookie = d_next of the last complete entry so far
              (0 before the first entry);
   Rewind b : call with cookie 0 and forget what was read. *)
Inductive cmd := Cont (bufLen : Z) | Rewind (bufLen : Z).

Record client := {
  k_cache : cache;
  k_cookie : Z;
  k_acc : list (Z * dirent);     (* (d_next, entry) of every complete entry since the last rewind *)
  k_failed : bool;               (* some call returned an errno or panicked *)
  k_last_used : Z; k_last_len : Z;           (* bufused and buf_len of the last call *)
  k_last_unfit : bool            (* the last call returned an entry that was not written completely *)
}.
Definition client_init : client :=
  {| k_cache := cache_init; k_cookie := 0; k_acc := []; k_failed := false;
     k_last_used := 0; k_last_len := 0; k_last_unfit := false |}.

Definition last_dnext (cookie : Z) (l : list (Z * dirent)) : Z :=
  match rev l with [] => cookie | (n, _) :: _ => n end.

Definition client_step (k : client) (m : cmd) : client :=
  if k_failed k then k else
  let '(bufLen, cookie, acc) := match m with Cont b => (b, k_cookie k, k_acc k) | Rewind b => (b, 0, []) end in
  match fd_readdir (k_cache k) bufLen cookie with
  | (c1, FOk items w used ret) =>
      let got := complete items in
      {| k_cache := c1; k_cookie := last_dnext cookie got; k_acc := acc ++ got; k_failed := false;
         k_last_used := used; k_last_len := bufLen; k_last_unfit := len got <? len ret |}
  | (c1, _) =>
      {| k_cache := c1; k_cookie := cookie; k_acc := acc; k_failed := true;
         k_last_used := 0; k_last_len := bufLen; k_last_unfit := false |}
  end.

Definition client_run (cmds : list cmd) : client := fold_left client_step cmds client_init.

(* the wasi-libc style loop: read until a call reports bufused < buf_len *)
Inductive cres := Done (acc : list (Z * dirent)) | More (acc : list (Z * dirent)) | Failed.
Fixpoint client_loop (fuel : nat) (bufs : nat -> Z) (i : nat) (k : client) : cres :=
  match fuel with
  | O => More (k_acc k)
  | S f => let k1 := client_step k (Cont (bufs i)) in
           if k_failed k1 then Failed
           else if k_last_used k1 <? k_last_len k1 then Done (k_acc k1)
           else client_loop f bufs (S i) k1
  end.

(* the listing a guest must see: ".", "..", entries, with d_next = index + 1 *)
Fixpoint number (i : Z) (l : list dirent) : list (Z * dirent) :=
  match l with [] => [] | e :: r => (i, e) :: number (i + 1) r end.
Definition listing : list (Z * dirent) := number 1 (dots ++ dir).
End Dir.

(* longest name among ".", ".." and the entries *)
Definition max_name (l : list dirent) : Z := fold_right (fun e m => Z.max (len (d_name e)) m) 2 l.

(* ---- byte layout (writeDirent) for the correspondence run ---- *)
Fixpoint le (n : nat) (v : Z) : list Z := match n with O => [] | S k => v mod 256 :: le k (v / 256) end.
Definition header (dnext : Z) (e : dirent) : list Z :=
  le 8 dnext ++ le 8 (d_ino e) ++ le 4 (wrap 32 (len (d_name e))) ++ le 4 (d_type e).
Fixpoint render (ws : list witem) : list Z :=
  match ws with
  | [] => []
  | WFull n e :: r => header n e ++ d_name e ++ render r
  | WHeader n e :: r => header n e ++ render r
  end.
Fixpoint to_num (bs : list Z) : Z := match bs with [] => 0 | b :: r => b + 256 * to_num r end.

(* a script: directory, then calls (buf_len, cookie) with the observed (errno, bufused, buffer as a
   little-endian number; the harness pre-fills the buffer with [fill]) *)
Definition call := (Z * Z * (Z * Z * Z))%type.
Definition case := (Z * list dirent * Z * list call)%type.

Fixpoint run_calls (dotIno : Z) (dir : list dirent) (fill : Z) (c : cache) (i : Z) (cs : list call) : Z :=
  match cs with
  | [] => -1
  | (bufLen, cookie, (errno, used, buf)) :: r =>
      match fd_readdir dotIno dir c bufLen cookie with
      | (c1, FErr e) => if (e =? errno) then run_calls dotIno dir fill c1 (i + 1) r else i
      | (c1, FPanic) => if errno =? -1 then run_calls dotIno dir fill c1 (i + 1) r else i
      | (c1, FOk items w u _) =>
          let bytes := render items in
          (* a trailing partial header (< 24 bytes) counts in bufToWrite but nothing is stored for it *)
          if (errno =? 0) && (u =? used) && (len bytes <=? w) && (w <=? bufLen) &&
             (to_num (bytes ++ repeat fill (Z.to_nat (bufLen - len bytes))) =? buf)
          then run_calls dotIno dir fill c1 (i + 1) r else i
      end
  end.

Definition check_case (c : case) : Z :=
  let '(dotIno, dir, fill, calls) := c in run_calls dotIno dir fill cache_init 0 calls.
Fixpoint mismatches (i : Z) (cs : list case) : list (Z * Z) :=
  match cs with
  | [] => []
  | c :: r => let d := check_case c in
              if d =? -1 then mismatches (i + 1) r else (i, d) :: mismatches (i + 1) r
  end.
