(* C17: model of read-only mounts.

   Layers (bottom up):
   0. the host file system (Linux open/write/... semantics on a finite tree) - these DO mutate;
   1. sysfs.DirFS / osFile: every method is the host operation (internal/sysfs/dirfs.go, osfile.go);
      the sys.Oflag -> Linux open(2) flag conversion is the TRANSLATED [toOsOpenFlag] (coq/Gen);
   2. sysfs.ReadFS / readFile (internal/sysfs/readfs.go) and sysfs.AdaptFS / fsFile
      (internal/sysfs/adapter.go, file.go) - transcribed method by method;
   3. the WASI host functions of imports/wasi_snapshot_preview1/fs.go over a descriptor table;
      the WASI flags -> sys.Oflag conversion is the TRANSLATED [openFlags] (coq/Gen).
   The O_xxx and Exxx constants are folded from the real values by go2coq (Gen.GenC17Sys).
   No proofs in this file. *)
From Coq Require Import String.
From Verif Require Import Lib.GoInt Gen.GenC17Wasi Gen.GenC17Sysfs Gen.GenC17Sys.
From Verif Require Gen.GenC17Wasip1.
Open Scope Z_scope.

(* ------------------------------------------------------------------------------------------ *)
(* 0. host tree                                                                               *)

Definition path := list string.          (* components below the mount root; [] is the root *)

Inductive node :=
| NFile (data : list Z) (mtime perm : Z)
| NDir (mtime perm : Z)
| NLink (target : string).

Definition tree := list (path * node).   (* finite map, first binding wins *)

Fixpoint path_eqb (a b : path) : bool :=
  match a, b with
  | [], [] => true
  | x :: a', y :: b' => String.eqb x y && path_eqb a' b'
  | _, _ => false
  end.

Fixpoint lookup (t : tree) (p : path) : option node :=
  match t with
  | [] => None
  | (q, n) :: r => if path_eqb q p then Some n else lookup r p
  end.

Fixpoint update (t : tree) (p : path) (n : node) : tree :=
  match t with
  | [] => [(p, n)]
  | (q, m) :: r => if path_eqb q p then (q, n) :: r else (q, m) :: update r p n
  end.

Fixpoint remove (t : tree) (p : path) : tree :=
  match t with
  | [] => []
  | (q, m) :: r => if path_eqb q p then remove r p else (q, m) :: remove r p
  end.

Fixpoint is_prefix (a b : path) : bool :=       (* a is a prefix of b *)
  match a, b with
  | [], _ => true
  | x :: a', y :: b' => String.eqb x y && is_prefix a' b'
  | _ :: _, [] => false
  end.

Definition has_children (t : tree) (p : path) : bool :=
  existsb (fun e => is_prefix p (fst e) && negb (path_eqb p (fst e))) t.

Definition parent (p : path) : path := removelast p.

(* walk the components: every node on the way must be a directory *)
Fixpoint resolve_from (t : tree) (cur : path) (n : node) (rest : path) : Z + node :=
  match rest with
  | [] => inr n
  | c :: r =>
      match n with
      | NDir _ _ =>
          match lookup t (cur ++ [c]) with
          | None => inl ENOENT
          | Some n' => resolve_from t (cur ++ [c]) n' r
          end
      | _ => inl ENOTDIR
      end
  end.

Definition resolve (t : tree) (p : path) : Z + node :=
  match lookup t [] with
  | None => inl ENOENT
  | Some n => resolve_from t [] n p
  end.

Definition touch_dir (t : tree) (p : path) (now : Z) : tree :=
  match lookup t p with
  | Some (NDir _ pm) => update t p (NDir now pm)
  | _ => t
  end.

Definition is_dir_node (n : node) : bool := match n with NDir _ _ => true | _ => false end.

(* Linux open(2) flag bits (asm-generic/fcntl.h, amd64/arm64): the values the translated
   toOsOpenFlag produces for O_CREAT / O_TRUNC / ... are checked against these by Examples. *)
Definition LF_WRONLY : Z := 1.
Definition LF_RDWR : Z := 2.
Definition LF_CREAT : Z := 64.
Definition LF_EXCL : Z := 128.
Definition LF_TRUNC : Z := 512.
Definition LF_APPEND : Z := 1024.
Definition LF_DIRECTORY : Z := 65536.

Definition has (x bit : Z) : bool := negb (Z.land x bit =? 0).
Definition lf_acc (lf : Z) : Z := Z.land lf 3.      (* 0 = O_RDONLY *)

(* an open host descriptor: identified by path (adequate here: under the wrappers the tree never
   changes; for the host layer itself this ignores unlink-while-open) *)
Record handle := { h_path : path; h_lf : Z; h_isdir : bool }.

Definition UTIME_OMIT : Z := -1.

(* open(2): creates on O_CREAT and empties on O_TRUNC WHATEVER the access mode *)
Definition host_open (t : tree) (now : Z) (p : path) (lf : Z) : tree * (Z * option handle) :=
  let fail e := (t, (e, None)) in
  if has lf LF_CREAT && has lf LF_DIRECTORY then fail EINVAL else
  match resolve t p with
  | inr (NDir _ _) =>
      if has lf LF_CREAT then (if has lf LF_EXCL then fail EEXIST else fail EISDIR)
      else if negb (lf_acc lf =? 0) || has lf LF_TRUNC then fail EISDIR
      else (t, (0, Some {| h_path := p; h_lf := lf; h_isdir := true |}))
  | inr (NFile d m pm) =>
      if has lf LF_CREAT && has lf LF_EXCL then fail EEXIST
      else if has lf LF_DIRECTORY then fail ENOTDIR
      else
        let t' := if has lf LF_TRUNC then update t p (NFile [] now pm) else t in
        (t', (0, Some {| h_path := p; h_lf := lf; h_isdir := false |}))
  | inr (NLink _) => fail ELOOP       (* links are opaque leaves in this model *)
  | inl e =>
      match resolve t (parent p) with
      | inr (NDir _ _) =>
          if has lf LF_CREAT
          then (touch_dir (update t p (NFile [] now 384)) (parent p) now,
                (0, Some {| h_path := p; h_lf := lf; h_isdir := false |}))
          else fail e
      | _ => fail e
      end
  end.

Fixpoint pad_to (d : list Z) (n : nat) : list Z :=
  match n with
  | O => []
  | S k => match d with [] => 0 :: pad_to [] k | x :: r => x :: pad_to r k end
  end.

Definition splice (d : list Z) (off : Z) (data : list Z) : list Z :=
  pad_to d (Z.to_nat off) ++ data ++ skipn (Z.to_nat off + length data) d.

(* write(2)/pwrite(2): refused with EBADF on a descriptor opened O_RDONLY *)
Definition host_pwrite (t : tree) (now : Z) (h : handle) (off : Z) (data : list Z) : tree * Z :=
  if lf_acc (h_lf h) =? 0 then (t, EBADF)
  else match lookup t (h_path h) with
       | Some (NFile d _ pm) =>
           let off' := if has (h_lf h) LF_APPEND then Z.of_nat (length d) else off in
           (update t (h_path h) (NFile (splice d off' data) now pm), 0)
       | _ => (t, EBADF)
       end.

(* ftruncate(2): EINVAL on a descriptor not open for writing *)
Definition host_ftruncate (t : tree) (now : Z) (h : handle) (size : Z) : tree * Z :=
  if size <? 0 then (t, EINVAL)
  else if lf_acc (h_lf h) =? 0 then (t, EINVAL)
  else match lookup t (h_path h) with
       | Some (NFile d _ pm) => (update t (h_path h) (NFile (pad_to d (Z.to_nat size)) now pm), 0)
       | _ => (t, EINVAL)
       end.

Definition set_mtime (n : node) (mtim : Z) : node :=
  if mtim =? UTIME_OMIT then n else
  match n with
  | NFile d _ pm => NFile d mtim pm
  | NDir _ pm => NDir mtim pm
  | NLink s => NLink s
  end.

(* futimens(2) works on ANY open descriptor, including O_RDONLY ones *)
Definition host_futimens (t : tree) (h : handle) (atim mtim : Z) : tree * Z :=
  match lookup t (h_path h) with
  | Some n => (update t (h_path h) (set_mtime n mtim), 0)
  | None => (t, EBADF)
  end.

Definition host_utimens (t : tree) (p : path) (atim mtim : Z) : tree * Z :=
  match resolve t p with
  | inr n => (update t p (set_mtime n mtim), 0)
  | inl e => (t, e)
  end.

Definition host_chmod (t : tree) (p : path) (perm : Z) : tree * Z :=
  match resolve t p with
  | inr (NFile d m _) => (update t p (NFile d m perm), 0)
  | inr (NDir m _) => (update t p (NDir m perm), 0)
  | inr (NLink s) => (t, 0)
  | inl e => (t, e)
  end.

(* creation of a new entry [n] at [p] (mkdir, symlink, link) *)
Definition host_create (t : tree) (now : Z) (p : path) (n : node) : tree * Z :=
  match resolve t p with
  | inr _ => (t, EEXIST)
  | inl e =>
      match p, resolve t (parent p) with
      | _ :: _, inr (NDir _ _) => (touch_dir (update t p n) (parent p) now, 0)
      | _, inr _ => (t, ENOTDIR)
      | _, inl e' => (t, e')
      end
  end.

Definition host_mkdir (t : tree) (now : Z) (p : path) (perm : Z) : tree * Z :=
  host_create t now p (NDir now perm).

Definition host_symlink (t : tree) (now : Z) (target : string) (p : path) : tree * Z :=
  host_create t now p (NLink target).

Definition host_link (t : tree) (now : Z) (old new : path) : tree * Z :=
  match resolve t old with
  | inr (NDir _ _) => (t, EPERM)
  | inr n => host_create t now new n
  | inl e => (t, e)
  end.

Definition host_rmdir (t : tree) (now : Z) (p : path) : tree * Z :=
  match resolve t p with
  | inr (NDir _ _) =>
      match p with
      | [] => (t, EINVAL)
      | _ => if has_children t p then (t, ENOTEMPTY) else (touch_dir (remove t p) (parent p) now, 0)
      end
  | inr _ => (t, ENOTDIR)
  | inl e => (t, e)
  end.

Definition host_unlink (t : tree) (now : Z) (p : path) : tree * Z :=
  match resolve t p with
  | inr (NDir _ _) => (t, EISDIR)
  | inr _ => (touch_dir (remove t p) (parent p) now, 0)
  | inl e => (t, e)
  end.

(* rename(2) of a file or of an EMPTY-or-not directory onto a missing or same-kind target;
   sub-entries of a renamed directory move with it *)
Fixpoint rebase (from to : path) (q : path) : path :=
  match from, q with
  | [], _ => to ++ q
  | x :: f', y :: q' => rebase f' to q'
  | _ :: _, [] => q
  end.

Definition host_rename (t : tree) (now : Z) (from to : path) : tree * Z :=
  match resolve t from with
  | inl e => (t, e)
  | inr n =>
      match from, to, resolve t (parent to) with
      | _ :: _, _ :: _, inr (NDir _ _) =>
          let clash :=
            match resolve t to with
            | inr (NDir _ _) => if is_dir_node n then (if has_children t to then ENOTEMPTY else 0) else EISDIR
            | inr _ => if is_dir_node n then ENOTDIR else 0
            | inl _ => 0
            end in
          if negb (clash =? 0) then (t, clash)
          else if is_prefix from to && negb (path_eqb from to) then (t, EINVAL)
          else if path_eqb from to then (t, 0)
          else
            let t1 := remove t to in
            let t2 := map (fun e => if is_prefix from (fst e) then (rebase from to (fst e), snd e) else e) t1 in
            (touch_dir (touch_dir t2 (parent from) now) (parent to) now, 0)
      | _, _, inr _ => (t, ENOTDIR)
      | _, _, inl e => (t, e)
      end
  end.

(* ------------------------------------------------------------------------------------------ *)
(* 1. sysfs.DirFS: OpenFile = os.OpenFile(join(path), toOsOpenFlag(flag), perm)               *)

Definition dirfs_open (t : tree) (now : Z) (p : path) (flag : Z) : tree * (Z * option handle) :=
  host_open t now p (toOsOpenFlag flag).

(* dirFS.Mkdir maps ENOTDIR to ENOENT *)
Definition dirfs_mkdir (t : tree) (now : Z) (p : path) (perm : Z) : tree * Z :=
  let '(t', e) := host_mkdir t now p perm in (t', if e =? ENOTDIR then ENOENT else e).

(* ------------------------------------------------------------------------------------------ *)
(* 2a. sysfs.ReadFS                                                                           *)

(* ReadFS.OpenFile up to the delegation: 0 = delegate, otherwise the errno returned *)
Definition rfs_guard (flag : Z) : Z :=
  let m := Z.land flag (Z.lor (Z.lor O_RDONLY O_WRONLY) O_RDWR) in
  if (m =? O_WRONLY) || (m =? O_RDWR)
  then (if negb (Z.land flag O_DIRECTORY =? 0) then EISDIR else ENOSYS)
  else if negb (Z.land flag (Z.lor O_CREAT O_TRUNC) =? 0) then EROFS
  else 0.

Definition rfs_open (t : tree) (now : Z) (p : path) (flag : Z) : tree * (Z * option handle) :=
  let g := rfs_guard flag in
  if g =? 0 then dirfs_open t now p flag else (t, (g, None)).

(* every other mutating sys.FS method of ReadFS returns EROFS without delegating;
   of AdaptFS: ENOSYS without delegating *)
Inductive fsop :=
| PMkdir (p : path) (perm : Z)
| PChmod (p : path) (perm : Z)
| PRename (from to : path)
| PRmdir (p : path)
| PLink (old new : path)
| PSymlink (target : string) (p : path)
| PUnlink (p : path)
| PUtimens (p : path) (atim mtim : Z).

Definition dirfs_fsop (t : tree) (now : Z) (o : fsop) : tree * Z :=
  match o with
  | PMkdir p perm => dirfs_mkdir t now p perm
  | PChmod p perm => host_chmod t p perm
  | PRename a b => host_rename t now a b
  | PRmdir p => host_rmdir t now p
  | PLink a b => host_link t now a b
  | PSymlink s p => host_symlink t now s p
  | PUnlink p => host_unlink t now p
  | PUtimens p a m => host_utimens t p a m
  end.

Inductive fskind := KRead | KAdaptOS | KAdaptMap.   (* ReadFS{DirFS}, AdaptFS{os.DirFS}, AdaptFS{fstest.MapFS} *)

Definition rfs_fsop (t : tree) (now : Z) (o : fsop) : tree * Z := (t, EROFS).
Definition adapt_fsop (t : tree) (now : Z) (o : fsop) : tree * Z := (t, ENOSYS).

(* 2b. sysfs.AdaptFS: OpenFSFile ignores every flag except the O_DIRECTORY+write check, then fs.FS.Open.
   os.DirFS(dir).Open = os.Open (O_RDONLY); fstest.MapFS.Open is a map lookup: both read-only. *)
Definition map_open (t : tree) (p : path) : tree * (Z * option handle) :=
  match lookup t p with
  | Some n => (t, (0, Some {| h_path := p; h_lf := 0; h_isdir := is_dir_node n |}))
  | None => (t, (ENOENT, None))
  end.

Definition adapt_open (k : fskind) (t : tree) (now : Z) (p : path) (flag : Z) : tree * (Z * option handle) :=
  if negb (Z.land flag O_DIRECTORY =? 0) && negb (Z.land flag (Z.lor O_WRONLY O_RDWR) =? 0)
  then (t, (EISDIR, None))
  else match k with
       | KAdaptMap => map_open t p
       | _ => host_open t now p 0
       end.

Definition fs_open (k : fskind) (t : tree) (now : Z) (p : path) (flag : Z) : tree * (Z * option handle) :=
  match k with
  | KRead => rfs_open t now p flag
  | _ => adapt_open k t now p flag
  end.

Definition fs_fsop (k : fskind) (t : tree) (now : Z) (o : fsop) : tree * Z :=
  match k with
  | KRead => rfs_fsop t now o
  | _ => adapt_fsop t now o
  end.

(* ---- sys.File method tables ---- *)
Inductive fop :=
| FWrite (off : Z) (data : list Z)      (* Write at the descriptor's offset [off] *)
| FPwrite (off : Z) (data : list Z)
| FTruncate (size : Z)
| FSync
| FDatasync
| FUtimens (atim mtim : Z).

(* osFile: the host operation; on error fileError turns it into EISDIR for directories *)
Definition file_error (h : handle) (e : Z) : Z := if h_isdir h then EISDIR else e.

Definition osfile_op (t : tree) (now : Z) (h : handle) (o : fop) : tree * Z :=
  match o with
  | FWrite off d | FPwrite off d =>
      let '(t', e) := host_pwrite t now h off d in (t', if e =? 0 then 0 else file_error h e)
  | FTruncate size =>
      if size <? 0 then (t, EINVAL) else
      let '(t', e) := host_ftruncate t now h size in (t', if e =? 0 then 0 else file_error h e)
  | FSync | FDatasync => (t, 0)
  | FUtimens a m => host_futimens t h a m
  end.

(* readFile: Write/Pwrite/Truncate -> writeErr(); Sync/Datasync/Utimens -> EBADF; nothing delegated *)
Definition readfile_op (t : tree) (now : Z) (h : handle) (o : fop) : tree * Z :=
  match o with
  | FWrite _ _ | FPwrite _ _ | FTruncate _ => (t, if h_isdir h then EISDIR else EBADF)
  | FSync | FDatasync | FUtimens _ _ => (t, EBADF)
  end.

(* fsFile over an fs.File: Write/Pwrite only if the fs.File is an io.Writer/io.WriterAt
   (the os.File returned by os.DirFS is one: the write reaches the host on an O_RDONLY descriptor);
   Truncate/Utimens: UnimplementedFile (ENOSYS); Sync/Datasync: UnimplementedFile (0) *)
Definition fsfile_op (k : fskind) (t : tree) (now : Z) (h : handle) (o : fop) : tree * Z :=
  match o with
  | FWrite off d | FPwrite off d =>
      match k with
      | KAdaptMap => (t, ENOSYS)
      | _ => let '(t', e) := host_pwrite t now h off d in (t', if e =? 0 then 0 else file_error h e)
      end
  | FTruncate _ | FUtimens _ _ => (t, ENOSYS)
  | FSync | FDatasync => (t, 0)
  end.

Definition file_op (k : fskind) (t : tree) (now : Z) (h : handle) (o : fop) : tree * Z :=
  match k with
  | KRead => readfile_op t now h o
  | _ => fsfile_op k t now h o
  end.

(* ------------------------------------------------------------------------------------------ *)
(* 3. WASI host functions over a descriptor table                                             *)

Record entry := { e_pre : bool; e_h : handle; e_off : Z }.

Record st := { s_kind : fskind; s_tree : tree; s_fds : list (option entry) }.   (* index i = fd 3 + i *)

Definition root_handle : handle := {| h_path := []; h_lf := 0; h_isdir := true |}.
Definition init (k : fskind) (t : tree) : st :=
  {| s_kind := k; s_tree := t; s_fds := [Some {| e_pre := true; e_h := root_handle; e_off := 0 |}] |}.

Definition get_fd (s : st) (fd : Z) : option entry :=
  if (fd <? 3) || (2 ^ 31 <=? fd) then None else
  match nth_error (s_fds s) (Z.to_nat (fd - 3)) with Some (Some e) => Some e | _ => None end.

Fixpoint insert_fd (l : list (option entry)) (e : entry) (i : Z) : list (option entry) * Z :=
  match l with
  | [] => ([Some e], i)
  | None :: r => (Some e :: r, i)
  | Some x :: r => let '(r', j) := insert_fd r e (i + 1) in (Some x :: r', j)
  end.

Fixpoint set_nth (l : list (option entry)) (n : nat) (v : option entry) : list (option entry) :=
  match l, n with
  | [], _ => []
  | _ :: r, O => v :: r
  | x :: r, S k => x :: set_nth r k v
  end.

Definition with_tree (s : st) (t : tree) : st := {| s_kind := s_kind s; s_tree := t; s_fds := s_fds s |}.
Definition with_fds (s : st) (l : list (option entry)) : st := {| s_kind := s_kind s; s_tree := s_tree s; s_fds := l |}.

(* atPath: the descriptor must be an open directory; the path is joined below a non-preopen *)
Definition at_path (s : st) (fd : Z) (p : path) : Z + path :=
  match get_fd s fd with
  | None => inl EBADF
  | Some e => if h_isdir (e_h e) then inr (h_path (e_h e) ++ p) else inl ENOTDIR
  end.

(* toTimes: set and now together are invalid *)
Definition times_invalid (fst_flags : Z) : bool :=
  (has fst_flags 1 && has fst_flags 2) || (has fst_flags 4 && has fst_flags 8).

Inductive wop :=
| WPathOpen (dirfd dirflags oflags fdflags rights : Z) (p : path)
| WFdClose (fd : Z)
| WFdWrite (fd : Z) (data : list Z)
| WFdPwrite (fd off : Z) (data : list Z)
| WFdAllocate (fd off len : Z)
| WFdSetSize (fd size : Z)
| WFdSetTimes (fd atim mtim fst_flags : Z)
| WFdSetFlags (fd flags : Z)
| WFdSync (fd : Z)
| WFdDatasync (fd : Z)
| WMkdir (dirfd : Z) (p : path)
| WRmdir (dirfd : Z) (p : path)
| WUnlink (dirfd : Z) (p : path)
| WRename (fd : Z) (p : path) (fd2 : Z) (p2 : path)
| WLink (fd : Z) (p : path) (fd2 : Z) (p2 : path)
| WSymlink (target : string) (fd : Z) (p : path)
| WPathSetTimes (dirfd lookupflags : Z) (p : path) (atim mtim fst_flags : Z)
| WFdRead (fd n : Z)
| WFdPread (fd off n : Z)
| WPathStat (dirfd : Z) (p : path).

(* observation: errno and payload (opened fd | bytes read | [filetype; size]) *)
Definition obs := (Z * list Z)%type.

Definition file_size (t : tree) (h : handle) : Z :=
  match lookup t (h_path h) with Some (NFile d _ _) => Z.of_nat (length d) | _ => 0 end.

(* the sys.File behind a descriptor: a preopen is a lazyDir (DirFile) that opens "." on demand *)
Definition entry_fop (s : st) (now : Z) (e : entry) (o : fop) : tree * Z :=
  if e_pre e then
    match o with
    | FWrite _ _ | FPwrite _ _ | FTruncate _ => (s_tree s, EISDIR)
    | _ => file_op (s_kind s) (s_tree s) now (e_h e) o
    end
  else file_op (s_kind s) (s_tree s) now (e_h e) o.

Definition wasi_filetype (n : node) : Z := match n with NDir _ _ => 3 | NFile _ _ _ => 4 | NLink _ => 7 end.

Definition fd_fop (s : st) (now : Z) (fd : Z) (o : fop) : st * obs :=
  match get_fd s fd with
  | None => (s, (EBADF, []))
  | Some e => let '(t', er) := entry_fop s now e o in (with_tree s t', (er, []))
  end.

Definition path_fsop (s : st) (now : Z) (fd : Z) (mk : path -> fsop) (p : path) : st * obs :=
  match at_path s fd p with
  | inl e => (s, (e, []))
  | inr q => let '(t', er) := fs_fsop (s_kind s) (s_tree s) now (mk q) in (with_tree s t', (er, []))
  end.

Definition read_bytes (t : tree) (h : handle) (off n : Z) : list Z :=
  match lookup t (h_path h) with
  | Some (NFile d _ _) => firstn (Z.to_nat n) (skipn (Z.to_nat off) d)
  | _ => []
  end.

Definition wstep (now : Z) (s : st) (o : wop) : st * obs :=
  match o with
  | WPathOpen dirfd dirflags oflags fdflags rights p =>
      match at_path s dirfd p with
      | inl e => (s, (e, []))
      | inr q =>
          let flag := openFlags (wrap 16 dirflags) (wrap 16 oflags) (wrap 16 fdflags) (wrap 32 rights) in
          let isdir := negb (Z.land flag O_DIRECTORY =? 0) in
          if isdir && negb (Z.land (wrap 16 oflags) GenC17Wasip1.O_CREAT =? 0) then (s, (EINVAL, []))
          else
            let '(t', (er, oh)) := fs_open (s_kind s) (s_tree s) now q flag in
            match oh with
            | None => (with_tree s t', (er, []))
            | Some h =>
                if isdir && negb (h_isdir h) then (with_tree s t', (ENOTDIR, []))
                else
                  let '(l, fd) := insert_fd (s_fds s) {| e_pre := false; e_h := h; e_off := 0 |} 3 in
                  ({| s_kind := s_kind s; s_tree := t'; s_fds := l |}, (0, [fd]))
            end
      end
  | WFdClose fd =>
      match get_fd s fd with
      | None => (s, (EBADF, []))
      | Some _ => (with_fds s (set_nth (s_fds s) (Z.to_nat (fd - 3)) None), (0, []))
      end
  | WFdWrite fd d =>
      match get_fd s fd with
      | None => (s, (EBADF, []))
      | Some e => let '(t', er) := entry_fop s now e (FWrite (e_off e) d) in
                  (with_tree s t', ((if er =? ENOSYS then EBADF else er), []))
      end
  | WFdPwrite fd off d =>
      match get_fd s fd with
      | None => (s, (EBADF, []))
      | Some e => let '(t', er) := entry_fop s now e (FPwrite off d) in
                  (with_tree s t', ((if er =? ENOSYS then EBADF else er), []))
      end
  | WFdAllocate fd off len =>
      match get_fd s fd with
      | None => (s, (EBADF, []))
      | Some e =>
          let tail := swrap 64 (off + len) in
          if tail <? 0 then (s, (EINVAL, []))
          else if tail <=? file_size (s_tree s) (e_h e) then (s, (0, []))
          else let '(t', er) := entry_fop s now e (FTruncate tail) in (with_tree s t', (er, []))
      end
  | WFdSetSize fd size => fd_fop s now fd (FTruncate (swrap 64 size))
  | WFdSetTimes fd atim mtim ff =>
      match get_fd s fd with
      | None => (s, (EBADF, []))
      | Some e =>
          if times_invalid ff then (s, (EINVAL, [])) else
          let '(t', er) := entry_fop s now e (FUtimens atim mtim) in
          if (er =? EPERM) || (er =? ENOSYS)
          then let '(t2, er2) := fs_fsop (s_kind s) t' now (PUtimens (h_path (e_h e)) atim mtim) in
               (with_tree s t2, (er2, []))
          else (with_tree s t', (er, []))
      end
  | WFdSetFlags fd flags =>
      if has flags GenC17Wasip1.FD_DSYNC || has flags GenC17Wasip1.FD_RSYNC || has flags GenC17Wasip1.FD_SYNC
      then (s, (EINVAL, []))
      else match get_fd s fd with
           | None => (s, (EBADF, []))
           | Some e => (s, ((if e_pre e then EISDIR else ENOSYS), []))   (* SetNonblock: lazyDir / not an fsapi.File *)
           end
  | WFdSync fd => fd_fop s now fd FSync
  | WFdDatasync fd => fd_fop s now fd FDatasync
  | WMkdir fd p => path_fsop s now fd (fun q => PMkdir q 448) p
  | WRmdir fd p => path_fsop s now fd PRmdir p
  | WUnlink fd p => path_fsop s now fd PUnlink p
  | WRename fd p fd2 p2 =>
      match at_path s fd p, at_path s fd2 p2 with
      | inl e, _ => (s, (e, []))
      | _, inl e => (s, (e, []))
      | inr a, inr b => let '(t', er) := fs_fsop (s_kind s) (s_tree s) now (PRename a b) in (with_tree s t', (er, []))
      end
  | WLink fd p fd2 p2 =>
      match at_path s fd p, at_path s fd2 p2 with
      | inl e, _ => (s, (e, []))
      | _, inl e => (s, (e, []))
      | inr a, inr b => let '(t', er) := fs_fsop (s_kind s) (s_tree s) now (PLink a b) in (with_tree s t', (er, []))
      end
  | WSymlink target fd p => path_fsop s now fd (PSymlink target) p
  | WPathSetTimes fd lf p atim mtim ff =>
      if times_invalid ff then (s, (EINVAL, [])) else
      match at_path s fd p with
      | inl e => (s, (e, []))
      | inr q =>
          if has lf GenC17Wasip1.LOOKUP_SYMLINK_FOLLOW
          then let '(t', er) := fs_fsop (s_kind s) (s_tree s) now (PUtimens q atim mtim) in (with_tree s t', (er, []))
          else
            (* emulated no-follow: preopen.OpenFile(path, O_WRONLY) then File.Utimens *)
            let '(t', (er, oh)) := fs_open (s_kind s) (s_tree s) now q O_WRONLY in
            match oh with
            | None => (with_tree s t', (er, []))
            | Some h => let '(t2, er2) := file_op (s_kind s) t' now h (FUtimens atim mtim) in (with_tree s t2, (er2, []))
            end
      end
  | WFdRead fd n =>
      match get_fd s fd with
      | None => (s, (EBADF, []))
      | Some e =>
          if h_isdir (e_h e) then (s, (EISDIR, [])) else
          let bs := read_bytes (s_tree s) (e_h e) (e_off e) n in
          (with_fds s (set_nth (s_fds s) (Z.to_nat (fd - 3))
                         (Some {| e_pre := e_pre e; e_h := e_h e; e_off := e_off e + Z.of_nat (length bs) |})),
           (0, bs))
      end
  | WFdPread fd off n =>
      match get_fd s fd with
      | None => (s, (EBADF, []))
      | Some e =>
          match s_kind s with
          | KAdaptMap =>
              (* fstest.MapFS: directories are no io.ReaderAt (ENOSYS, reported as EBADF); files refuse offsets past the end *)
              if e_pre e then (s, (EISDIR, []))      (* lazyDir is a DirFile *)
              else if h_isdir (e_h e) then (s, (EBADF, []))
              else if file_size (s_tree s) (e_h e) <? swrap 64 off then (s, (EINVAL, []))
              else (s, (0, read_bytes (s_tree s) (e_h e) off n))
          | _ => if h_isdir (e_h e) then (s, (EISDIR, [])) else (s, (0, read_bytes (s_tree s) (e_h e) off n))
          end
      end
  | WPathStat fd p =>
      match at_path s fd p with
      | inl e => (s, (e, []))
      | inr q =>
          match (match s_kind s with KAdaptMap => (match lookup (s_tree s) q with Some n => inr n | None => inl ENOENT end)
                                   | _ => resolve (s_tree s) q end) with
          | inl e => (s, (e, []))
          | inr n => (s, (0, [wasi_filetype n; (match n with NFile d _ _ => Z.of_nat (length d) | _ => -1 end)]))
          end
      end
  end.

Fixpoint wrun (now : Z) (s : st) (ops : list wop) : st * list obs :=
  match ops with
  | [] => (s, [])
  | o :: r => let '(s1, x) := wstep now s o in let '(s2, xs) := wrun now s1 r in (s2, x :: xs)
  end.

Definition wfinal (now : Z) (s : st) (ops : list wop) : st := fold_left (fun a o => fst (wstep now a o)) ops s.

(* ------------------------------------------------------------------------------------------ *)
(* specification vocabulary used by the theorem statements                                      *)

(* what ReadFS.OpenFile answers (0 = delegates to the host) to the flags path_open derives from the WASI
   oflags / fdflags / rights (all tests are bit tests: 1 = O_CREAT, 2 = O_DIRECTORY, 8 = O_TRUNC of oflags;
   1 = FD_APPEND of fdflags; 2 = RIGHT_FD_READ, 64 = RIGHT_FD_WRITE of rights) *)
Definition open_guard_spec (o f r : Z) : Z :=
  let werr := if negb (Z.land o 2 =? 0) then EISDIR else ENOSYS in
  if (Z.land r 66 =? 66) || (Z.land r 64 =? 64) then werr
  else if Z.land r 2 =? 2 then (if negb (Z.land o 8 =? 0) || negb (Z.land o 1 =? 0) then EROFS else 0)
  else if negb (Z.land o 8 =? 0) || negb (Z.land o 1 =? 0) || negb (Z.land f 1 =? 0) then werr else 0.

(* invariant of the descriptor table: every open descriptor is O_RDONLY on the host *)
Definition ro_entry (oe : option entry) : Prop :=
  match oe with Some e => lf_acc (h_lf (e_h e)) = 0 | None => True end.

Definition wf (s : st) : Prop := Forall ro_entry (s_fds s).

(* ------------------------------------------------------------------------------------------ *)
(* correspondence cases                                                                        *)

Fixpoint list_eqb (a b : list Z) : bool :=
  match a, b with
  | [], [] => true
  | x :: a', y :: b' => (x =? y) && list_eqb a' b'
  | _, _ => false
  end.

(* directories report size -1 in the model: the harness canonicalises directory sizes to -1 *)
Definition obs_eqb (a b : obs) : bool := (fst a =? fst b) && list_eqb (snd a) (snd b).

Fixpoint first_diff (i : Z) (xs ys : list obs) : Z :=
  match xs, ys with
  | [], [] => -1
  | x :: xr, y :: yr => if obs_eqb x y then first_diff (i + 1) xr yr else i
  | _, _ => i
  end.

(* a sequence case: mount kind, initial tree, operations, observations *)
Definition case := (fskind * tree * list wop * list obs)%type.

Definition check_case (c : case) : Z :=
  let '(k, t, ops, ob) := c in first_diff 0 (snd (wrun 0 (init k t) ops)) ob.

Fixpoint mismatches (i : Z) (cs : list case) : list (Z * Z) :=
  match cs with
  | [] => []
  | c :: r => let d := check_case c in
              if d =? -1 then mismatches (i + 1) r else (i, d) :: mismatches (i + 1) r
  end.

(* the exhaustive product of path_open flags, in the order the harness enumerates it (chosen so that
   the observed errno table run-length encodes well): rights in {0, READ, WRITE, READ|WRITE} x all 16
   oflags x all 32 fdflags x lookup flags in {0,1} *)
Fixpoint sums (bits : list Z) : list Z :=
  match bits with
  | [] => [0]
  | b :: r => let s := sums r in s ++ map (Z.add b) s
  end.

Definition rights4 : list Z :=
  [0; GenC17Wasip1.RIGHT_FD_READ; GenC17Wasip1.RIGHT_FD_WRITE; Z.lor GenC17Wasip1.RIGHT_FD_READ GenC17Wasip1.RIGHT_FD_WRITE].

Definition product : list (Z * Z * Z * Z) :=
  flat_map (fun r => flat_map (fun o => flat_map (fun f => map (fun d => (d, o, f, r)) [0; 1])
                                                 (sums [1; 16; 8; 4; 2])) (sums [1; 8; 2; 4])) rights4.

(* every value of the 13 low bits of a sys.Oflag: access mode (incl. the invalid 3), the unused bit 4, all O_ flags *)
Definition dproduct : list Z :=
  flat_map (fun m => map (Z.add m) (sums [16; 4096; 32; 2048; 1024; 512; 256; 128; 64; 8; 4])) [0; 1; 2; 3].

(* errno of a single path_open in the initial state (the harness closes the descriptor again) *)
Definition open_errno (k : fskind) (t : tree) (p : path) (x : Z * Z * Z * Z) : Z :=
  let '(d, o, f, r) := x in fst (snd (wstep 0 (init k t) (WPathOpen 3 d o f r p))).

Fixpoint rle_decode (l : list (Z * Z)) : list Z :=
  match l with
  | [] => []
  | (v, n) :: r => repeat v (Z.to_nat n) ++ rle_decode r
  end.

Fixpoint diff_idx (i : Z) (a b : list Z) : list Z :=
  match a, b with
  | [], [] => []
  | x :: a', y :: b' => if x =? y then diff_idx (i + 1) a' b' else i :: diff_idx (i + 1) a' b'
  | _, _ => [i]
  end.

(* indices (into [product]) where the model's errno differs from the run-length encoded observations *)
Definition product_mismatches (k : fskind) (t : tree) (p : path) (rle : list (Z * Z)) : list Z :=
  diff_idx 0 (map (open_errno k t p) product) (rle_decode rle).

Definition dproduct_mismatches (k : fskind) (t : tree) (p : path) (rle : list (Z * Z)) : list Z :=
  diff_idx 0 (map (fun fl => fst (snd (fs_open k t 0 p fl))) dproduct) (rle_decode rle).

(* direct sys.FS level cases: FS.OpenFile(path, flag) followed by one File method, and FS methods *)
Inductive dop :=
| DOpen (p : path) (flag : Z) (o : option fop)
| DFs (o : fsop).

Definition dstep (k : fskind) (t : tree) (o : dop) : tree * (Z * Z) :=
  match o with
  | DOpen p flag None => let '(t', (e, _)) := fs_open k t 0 p flag in (t', (e, 0))
  | DOpen p flag (Some f) =>
      let '(t', (e, oh)) := fs_open k t 0 p flag in
      match oh with
      | None => (t', (e, 0))
      | Some h => let '(t2, e2) := file_op k t' 0 h f in (t2, (e, e2))
      end
  | DFs f => let '(t', e) := fs_fsop k t 0 f in (t', (e, 0))
  end.

Definition dcase := (fskind * tree * dop * (Z * Z))%type.

Fixpoint dmismatches (i : Z) (cs : list dcase) : list (Z * Z) :=
  match cs with
  | [] => []
  | (k, t, o, (e1, e2)) :: r =>
      let '(m1, m2) := snd (dstep k t o) in
      if (m1 =? e1) && (m2 =? e2) then dmismatches (i + 1) r else (i, m1) :: dmismatches (i + 1) r
  end.
