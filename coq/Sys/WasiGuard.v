(* C15: argument skeletons of the 46 functions of imports/wasi_snapshot_preview1.
   For every function: each guest pointer/length/count computation in Go widths (wrap-around explicit),
   each region read or written expressed through the C14 memory predicate (MemInst.has_size =
   Gen.GenWasm.MemoryInstance_hasSize, regenerated from internal/wasm/memory.go), each host-side slice
   index (a failing index is the explicit outcome [Panic]), each host allocation size, and the descriptors
   whose table entry may change.  What the host operating system answers (errno of a host operation, bytes
   transferred by a reader/writer, number of directory bytes) is an INPUT of the model ([host]); what the
   implementation reads from guest memory while it runs (iovec entries, subscriptions) is an INPUT too
   ([view]) so that the theorems hold for all memory contents, including contents the call itself changes.
   Errno values are experimental/sys.Errno numbers (Gen.GenSysErrno); the guest sees Gen.GenWasip1.ToErrno
   of them.  The control structure is transcribed by hand from fs.go, poll.go, args.go, environ.go,
   clock.go, random.go, sock.go, proc.go, sched.go, wasi.go, internal/sys/fs.go (Renumber, SockAccept,
   CloseFile) and internal/descriptor/table.go (InsertAt growth) and tied to the code by harness/c15.
   No proofs in this file. *)
From Verif Require Import Lib.GoInt Gen.GenWasm Rt.MemInst Gen.GenSysErrno Gen.GenWasip1 Gen.GenSysFd.
Open Scope Z_scope.

Inductive outcome := Errno (e : Z) | Trap | Panic | Done.

(* result of one call: outcome, regions of guest memory that may have been written (offset, length),
   host bytes allocated, descriptors whose table entry may have changed (-1: one fresh descriptor),
   buffer lengths handed to the host reader/writer, in order *)
Record res := mkres { r_out : outcome; r_w : list (Z * Z); r_alloc : Z; r_fds : list Z; r_calls : list Z }.

Definition ret (o : outcome) : res := mkres o [] 0 [] [].
Definition addw (off n : Z) (r : res) : res := mkres (r_out r) ((off, n) :: r_w r) (r_alloc r) (r_fds r) (r_calls r).
Definition adda (a : Z) (r : res) : res := mkres (r_out r) (r_w r) (a + r_alloc r) (r_fds r) (r_calls r).
Definition addf (fd : Z) (r : res) : res := mkres (r_out r) (r_w r) (r_alloc r) (fd :: r_fds r) (r_calls r).
Definition addc (l : Z) (r : res) : res := mkres (r_out r) (r_w r) (r_alloc r) (r_fds r) (l :: r_calls r).

(* ---- guards: the api.Memory accessors of C14 used as guards.
   Continuations are thunks so that evaluation (vm_compute is strict) only runs the branch taken. ---- *)
Definition K := unit -> res.
(* mem.Read(off, n): a view; failure returns errno e *)
Definition g_read (m : mem) (off n e : Z) (k : K) : res :=
  match read_region m off n with
  | MemInst.Ok _ => k tt
  | MemInst.Fail => ret (Errno e)
  | MemInst.Panic => ret Panic
  end.
(* mem.ReadUint32Le etc. *)
Definition g_rfix (m : mem) (off : Z) (n : nat) (e : Z) (k : K) : res :=
  match read_fixed m off n with
  | MemInst.Ok _ => k tt
  | MemInst.Fail => ret (Errno e)
  | MemInst.Panic => ret Panic
  end.
(* mem.WriteUint16Le/32Le/64Le: the region is written when accepted; kf is what happens when refused *)
Definition g_wfix (m : mem) (off : Z) (n : nat) (kf k : K) : res :=
  match snd (write_fixed m off n 0) with
  | MemInst.Ok _ => addw off (Z.of_nat n) (k tt)
  | MemInst.Fail => kf tt
  | MemInst.Panic => ret Panic
  end.
(* mem.Write(off, b) / mem.WriteString with len(b) = n *)
Definition g_write (m : mem) (off n : Z) (kf k : K) : res :=
  if has_size m off n then (if off <=? m_len m then addw off n (k tt) else ret Panic) else kf tt.

(* ---- host state visible to the guards ---- *)
Record fdent := { f_pre : bool; f_dir : bool; f_namelen : Z; f_sock : Z (* 0 none, 1 listener, 2 connection *); f_nonblock : bool }.
Record env := { e_args : list Z;             (* byte lengths of the arguments *)
                e_envs : list Z;             (* byte lengths of the key=value strings *)
                e_tbl : list (Z * fdent);    (* descriptor table *)
                e_tcap : Z;                  (* len(masks) of internal/descriptor.Table *)
                e_ndir : Z }.                (* entries of the largest open directory *)

Fixpoint find_fd (t : list (Z * fdent)) (fd : Z) : option fdent :=
  match t with
  | [] => None
  | (k, x) :: r => if k =? fd then Some x else find_fd r fd
  end.
(* Table.Lookup: negative keys are never found *)
Definition lookup (e : env) (fd : Z) : option fdent := if fd <? 0 then None else find_fd (e_tbl e) fd.
Definition i32 (a : Z) : Z := swrap 32 a.                   (* int32(params[i]) *)
(* stdio entries and sockets are created without a file system (FileEntry.FS == nil) *)
Definition nofs (x : fdent) : bool := negb (f_sock x =? 0) || (f_pre x && negb (f_dir x)).

Fixpoint nt_size (lens : list Z) : Z := match lens with [] => 0 | l :: r => l + 1 + nt_size r end.

(* what the host answers *)
Record host := { h_e1 : Z; h_e2 : Z; h_e3 : Z;     (* errno of the 1st/2nd/3rd host operation (0 = success) *)
                 h_n : Z;                            (* a host-produced size: directory bytes, link length, stdin readiness *)
                 h_rw : Z -> Z * Z }.                (* k-th reader/writer call: (n, errno) *)
(* what the implementation reads from guest memory while running *)
Record view := { v_iov : Z -> Z * Z;                (* i-th iovec: (offset, length) *)
                 v_sub : Z -> Z * Z * Z }.          (* i-th subscription: (event type byte, fd word, clock flags half-word) *)

Definition hostop (er : Z) (k : K) : res := if er =? 0 then k tt else ret (Errno er).
Definition with_fd (e : env) (fd : Z) (k : fdent -> res) : res :=
  match lookup e fd with None => ret (Errno EBADF) | Some x => k x end.
Definition efault : K := fun _ => ret (Errno EFAULT).
Definition done : K := fun _ => ret Done.

(* ---- wasi.go writeOffsetsAndNullTerminatedValues ---- *)
Fixpoint wo_loop (lens : list Z) (olen blen oI bI : Z) : bool :=
  match lens with
  | [] => true
  | l :: r =>
      (oI <? olen) && (wrap 32 (oI + 1) <? olen) && (wrap 32 (oI + 2) <? olen) && (wrap 32 (oI + 3) <? olen)
      && (bI <=? blen)                                      (* bytesBuf[bI:] *)
      && (wrap 32 (bI + wrap 32 l) <? blen)                 (* bytesBuf[bI] = 0 after bI += uint32(len(value)) *)
      && wo_loop r olen blen (wrap 32 (oI + 4)) (wrap 32 (wrap 32 (bI + wrap 32 l) + 1))
  end.
Definition write_offsets (m : mem) (lens : list Z) (offsets bytes : Z) : res :=
  let olen := wrap 32 (Z.of_nat (length lens) * 4) in
  let blen := nt_size lens in
  g_read m offsets olen EFAULT (fun _ => g_read m bytes blen EFAULT (fun _ =>
    if wo_loop lens olen blen 0 0 then addw offsets olen (addw bytes blen (ret Done)) else ret Panic)).
Definition sizes_get (m : mem) (p0 p1 : Z) : res :=
  g_wfix m p0 4 efault (fun _ => g_wfix m p1 4 efault done).

(* ---- clock.go ---- *)
Definition clock_get (m : mem) (id res_ : Z) : res :=
  if (id =? ClockIDRealtime) || (id =? ClockIDMonotonic) then g_wfix m res_ 8 efault done
  else ret (Errno EINVAL).

(* ---- fs.go readv / writev ---- *)
Definition iov_stop (cnt : Z) : Z := shl 32 cnt 3.           (* iovsCount << 3 in uint32 *)
(* le.Uint32(iovsBuf[pos:]), le.Uint32(iovsBuf[pos+4:]) *)
Definition iov_idx_ok (stop pos : Z) : bool :=
  (pos <=? stop) && (4 <=? stop - pos) && (wrap 32 (pos + 4) <=? stop) && (4 <=? stop - wrap 32 (pos + 4)).

Fixpoint readv_loop (m : mem) (v : view) (h : host) (stop : Z) (fuel : nat) (pos nread k : Z) (kont : Z -> res) : res :=
  match fuel with
  | O => ret Panic                                           (* not reached: fuel = stop/8 + 1 *)
  | S f =>
      if negb (pos <? stop) then kont nread else
      if negb (iov_idx_ok stop pos) then ret Panic else
      let off := fst (v_iov v (pos / 8)) in
      let l := snd (v_iov v (pos / 8)) in
      if l =? 0 then readv_loop m v h stop f (wrap 32 (pos + 8)) nread k kont else
      g_read m off l EFAULT (fun _ => addw off l (addc l
        (let n := fst (h_rw h k) in
         let er := snd (h_rw h k) in
         let nread' := wrap 32 (nread + wrap 32 n) in
         if er =? ENOSYS then ret (Errno EBADF)
         else if negb (er =? 0) then ret (Errno er)
         else if n <? l then kont nread'
         else readv_loop m v h stop f (wrap 32 (pos + 8)) nread' (k + 1) kont)))
  end.
Definition readv (m : mem) (v : view) (h : host) (iovs cnt : Z) (kont : Z -> res) : res :=
  g_read m iovs (iov_stop cnt) EFAULT (fun _ =>
    readv_loop m v h (iov_stop cnt) (S (Z.to_nat (iov_stop cnt / 8))) 0 0 0 kont).

(* skip0: fd_pwrite's pwriter.Write answers zero-length buffers itself, without a host call *)
Fixpoint writev_loop (m : mem) (v : view) (h : host) (skip0 : bool) (stop : Z) (fuel : nat) (pos nw k : Z) (kont : Z -> res) : res :=
  match fuel with
  | O => ret Panic
  | S f =>
      if negb (pos <? stop) then kont nw else
      if negb (iov_idx_ok stop pos) then ret Panic else
      let off := fst (v_iov v (pos / 8)) in
      let l := snd (v_iov v (pos / 8)) in
      g_read m off l EFAULT (fun _ =>
        if skip0 && (l =? 0) then writev_loop m v h skip0 stop f (wrap 32 (pos + 8)) nw k kont else
        addc l
        (let n := fst (h_rw h k) in
         let er := snd (h_rw h k) in
         let nw' := wrap 32 (nw + wrap 32 n) in
         if er =? ENOSYS then ret (Errno EBADF)
         else if negb (er =? 0) then ret (Errno er)
         else writev_loop m v h skip0 stop f (wrap 32 (pos + 8)) nw' (k + 1) kont))
  end.
Definition writev (m : mem) (v : view) (h : host) (skip0 : bool) (iovs cnt : Z) (kont : Z -> res) : res :=
  g_read m iovs (iov_stop cnt) EFAULT (fun _ =>
    writev_loop m v h skip0 (iov_stop cnt) (S (Z.to_nat (iov_stop cnt / 8))) 0 0 0 kont).

(* ---- fs.go atPath: Read(p, len), string(b), path.Clean, name + "/" + path; then host-dependent checks ---- *)
Definition atpath (m : mem) (p len er : Z) (k : K) : res :=
  g_read m p len EFAULT (fun _ => adda (3 * len + 4200) (hostop er k)).

(* toTimes: set and now together are invalid, for either time *)
Definition times_invalid (fl : Z) : bool :=
  (negb (Z.land fl FstflagsAtim =? 0) && negb (Z.land fl FstflagsAtimNow =? 0))
  || (negb (Z.land fl FstflagsMtim =? 0) && negb (Z.land fl FstflagsMtimNow =? 0)).

(* ---- poll.go ---- *)
Inductive ploop := PErr (o : outcome) | PEnd (nev blk : Z).
(* writeEvent(outBuf[off:], evt): outBuf[off:], copy, outBuf[8], outBuf[9], PutUint32(outBuf[10:]) *)
Definition wev_ok (outlen off : Z) : bool := (off <=? outlen) && (14 <=? outlen - off).
(* inBuf[inOffset+8]; inBuf[inOffset+8+8:]; inBuf[inOffset : inOffset+8] *)
Definition sub_idx_ok (inlen ino : Z) : bool :=
  (wrap 32 (ino + 8) <? inlen) && (wrap 32 (wrap 32 (ino + 8) + 8) <=? inlen) && (ino <=? wrap 32 (ino + 8)) && (wrap 32 (ino + 8) <=? inlen).

Fixpoint poll_loop (e : env) (v : view) (nsub inlen outlen : Z) (fuel : nat) (i nev blk : Z) : ploop :=
  match fuel with
  | O => PErr Panic                                          (* not reached: fuel = nsub + 1 *)
  | S f =>
      if negb (i <? nsub) then PEnd nev blk else
      let ino := wrap 32 (i * 48) in
      let outo := wrap 32 (nev * 32) in
      if negb (sub_idx_ok inlen ino) then PErr Panic else
      let arglen := inlen - wrap 32 (wrap 32 (ino + 8) + 8) in
      let et := fst (fst (v_sub v i)) in
      let fdw := snd (fst (v_sub v i)) in
      let cfl := snd (v_sub v i) in
      if et =? EventTypeClock then
        if negb (32 <=? arglen) then PErr Panic                (* inBuf[0:8] .. inBuf[24:32] of the argument *)
        else if cfl =? 0 then
          (if wev_ok outlen outo then poll_loop e v nsub inlen outlen f (i + 1) (wrap 32 (nev + 1)) blk else PErr Panic)
        else if cfl =? 1 then PErr (Errno ENOTSUP) else PErr (Errno EINVAL)
      else if et =? EventTypeFdRead then
        if negb (4 <=? arglen) then PErr Panic
        else if i32 fdw <? 0 then PErr (Errno EBADF)
        else if match lookup e (i32 fdw) with
                | None => true
                | Some x => negb (i32 fdw =? FdStdin) && f_nonblock x
                end
             then (if wev_ok outlen outo then poll_loop e v nsub inlen outlen f (i + 1) (wrap 32 (nev + 1)) blk else PErr Panic)
             else poll_loop e v nsub inlen outlen f (i + 1) nev (blk + 1)
      else if et =? EventTypeFdWrite then
        if negb (4 <=? arglen) then PErr Panic
        else if i32 fdw <? 0 then PErr (Errno EBADF)
        else (if wev_ok outlen outo then poll_loop e v nsub inlen outlen f (i + 1) (wrap 32 (nev + 1)) blk else PErr Panic)
      else PErr (Errno EINVAL)
  end.

(* events of the subscriptions that waited for stdin: writeEvent(outBuf[nevents*32:], evt); nevents++ *)
Fixpoint blk_loop (outlen : Z) (blk : nat) (nev : Z) : option Z :=
  match blk with
  | O => Some nev
  | S b => if wev_ok outlen (wrap 32 (nev * 32)) then blk_loop outlen b (wrap 32 (nev + 1)) else None
  end.

Definition poll_tail (e : env) (m : mem) (h : host) (nsub outlen res_ : Z) (p : ploop) : res :=
  match p with
  | PErr o => ret o
  | PEnd nev blk =>
      if nev =? nsub then ret Done
      else match lookup e FdStdin with
           | None => ret (Errno EBADF)
           | Some _ =>
               hostop (h_e1 h) (fun _ =>                       (* stdin.File.Poll *)
                 if h_n h =? 0 then g_wfix m res_ 4 efault done
                 else match blk_loop outlen (Z.to_nat blk) nev with
                      | None => ret Panic
                      | Some nev' => if negb (nev' =? nsub) then g_wfix m res_ 4 efault done else ret Done
                      end)
           end
  end.

Definition poll_oneoff (e : env) (m : mem) (v : view) (h : host) (inp outp nsub res_ : Z) : res :=
  if nsub =? 0 then ret (Errno EINVAL)
  else if 4294967295 <? wrap 64 (nsub * 48) then ret (Errno EFAULT)          (* uint64(nsubscriptions)*48 > math.MaxUint32 *)
  else
    g_read m inp (wrap 32 (nsub * 48)) EFAULT (fun _ =>
      g_read m outp (wrap 32 (nsub * 32)) EFAULT (fun _ =>       (* clear(nil) when refused *)
        addw outp (wrap 32 (nsub * 32))                          (* clear(outBuf) happens before the next guard *)
          (g_wfix m res_ 4 efault (fun _ =>
             adda (64 * nsub + 64)
               (poll_tail e m h nsub (wrap 32 (nsub * 32)) res_
                  (poll_loop e v nsub (wrap 32 (nsub * 48)) (wrap 32 (nsub * 32)) (S (Z.to_nat nsub)) 0 0 0)))))).

(* ---- internal/descriptor/table.go InsertAt via internal/sys/fs.go Renumber ---- *)
(* grow(diff): diff mask words (8 bytes) and 64*diff item slots (8 bytes each) *)
Definition insert_at_alloc (tcap key : Z) : Z :=
  let diff := key / 64 - tcap + 1 in if 0 <? diff then 520 * diff else 0.

Definition renumber (e : env) (from to : Z) : res :=
  match lookup e from with
  | None => ret (Errno EBADF)
  | Some x =>
      if to <? 0 then ret (Errno EBADF)
      else if f_pre x then ret (Errno ENOTSUP)
      else if from =? to then ret Done
      else if match lookup e to with Some y => f_pre y | None => false end then ret (Errno ENOTSUP)
      else addf from (addf to (adda (insert_at_alloc (e_tcap e) to) (ret Done)))
  end.

(* ---- the 46 functions ---- *)
Inductive call :=
| ArgsGet (argv buf : Z) | ArgsSizesGet (p0 p1 : Z) | EnvironGet (p0 p1 : Z) | EnvironSizesGet (p0 p1 : Z)
| ClockResGet (id res_ : Z) | ClockTimeGet (id prec res_ : Z)
| FdAdvise (fd off len adv : Z) | FdAllocate (fd off len : Z) | FdClose (fd : Z) | FdDatasync (fd : Z)
| FdFdstatGet (fd res_ : Z) | FdFdstatSetFlags (fd fl : Z) | FdFdstatSetRights (fd a b : Z)
| FdFilestatGet (fd res_ : Z) | FdFilestatSetSize (fd sz : Z) | FdFilestatSetTimes (fd at_ mt fl : Z)
| FdPread (fd iovs cnt off res_ : Z) | FdPrestatGet (fd res_ : Z) | FdPrestatDirName (fd p len : Z)
| FdPwrite (fd iovs cnt off res_ : Z) | FdRead (fd iovs cnt res_ : Z) | FdReaddir (fd buf len cookie res_ : Z)
| FdRenumber (fd to : Z) | FdSeek (fd off wh res_ : Z) | FdSync (fd : Z) | FdTell (fd res_ : Z) | FdWrite (fd iovs cnt res_ : Z)
| PathCreateDirectory (fd p len : Z) | PathFilestatGet (fd fl p len res_ : Z) | PathFilestatSetTimes (fd fl p len at_ mt ff : Z)
| PathLink (ofd ofl op ol nfd np nl : Z) | PathOpen (fd dfl p len ofl rb ri ffl res_ : Z) | PathReadlink (fd p len buf bl res_ : Z)
| PathRemoveDirectory (fd p len : Z) | PathRename (fd op ol nfd np nl : Z) | PathSymlink (op ol fd np nl : Z) | PathUnlinkFile (fd p len : Z)
| PollOneoff (inp outp nsub res_ : Z) | ProcExit (code : Z) | ProcRaise (sig : Z) | SchedYield
| RandomGet (buf len : Z) | SockAccept (fd fl res_ : Z) | SockRecv (fd iovs cnt fl res1 res2 : Z) | SockSend (fd iovs cnt fl res_ : Z)
| SockShutdown (fd how : Z).

(* fdFilestatSetTimesFn falls back to f.FS.Utimens(f.Name, ..) when File.Utimens answers EPERM/ENOSYS.
   false = the current tree: the fallback does not check that the entry has a file system (nil for stdio and sockets);
   set to true once the code keeps the errno when f.FS == nil (then [C15_no_host_panic] has no exception left). *)
Definition set_times_checks_fs : bool := true.

Definition fd_seek (e : env) (m : mem) (h : host) (fd res_ : Z) : res :=
  with_fd e (i32 fd) (fun x =>
    if f_dir x then ret (Errno EISDIR) else hostop (h_e1 h) (fun _ => g_wfix m res_ 8 efault done)).
Definition fd_hostop (e : env) (h : host) (fd : Z) : res :=
  with_fd e (i32 fd) (fun _ => hostop (h_e1 h) done).
Definition path_op (m : mem) (h : host) (p len : Z) : res :=
  atpath m p len (h_e1 h) (fun _ => hostop (h_e2 h) done).
Definition path_op2 (m : mem) (h : host) (op ol np nl : Z) : res :=
  atpath m op ol (h_e1 h) (fun _ => atpath m np nl (h_e2 h) (fun _ => hostop (h_e3 h) done)).
(* the result writes of sock_recv: mem.WriteUint32Le / WriteUint16Le whose results are ignored *)
Definition recv_fin (m : mem) (r1 r2 : Z) : res :=
  g_wfix m r1 4 (fun _ => g_wfix m r2 2 done done) (fun _ => g_wfix m r2 2 done done).

Definition wasi (e : env) (m : mem) (v : view) (h : host) (c : call) : res :=
  match c with
  | ArgsGet argv buf => write_offsets m (e_args e) argv buf
  | ArgsSizesGet p0 p1 => sizes_get m p0 p1
  | EnvironGet p0 p1 => write_offsets m (e_envs e) p0 p1
  | EnvironSizesGet p0 p1 => sizes_get m p0 p1
  | ClockResGet id r => clock_get m id r
  | ClockTimeGet id _ r => clock_get m id r
  | FdAdvise fd _ _ adv =>
      with_fd e (i32 fd) (fun _ => if wrap 8 adv <=? FdAdviceNoReuse then ret Done else ret (Errno EINVAL))
  | FdAllocate fd off len =>
      with_fd e (i32 fd) (fun _ => if swrap 64 (wrap 64 (off + len)) <? 0 then ret (Errno EINVAL) else hostop (h_e1 h) done)
  | FdClose fd => with_fd e (i32 fd) (fun _ => hostop (h_e1 h) (fun _ => addf (i32 fd) (ret Done)))
  | FdDatasync fd => fd_hostop e h fd
  | FdSync fd => fd_hostop e h fd
  | FdFdstatGet fd r =>
      g_read m r 24 EFAULT (fun _ => with_fd e (i32 fd) (fun _ => hostop (h_e1 h) (fun _ => addw r 24 (ret Done))))
  | FdFdstatSetFlags fd fl =>
      if negb (Z.land (wrap 16 fl) (Z.lor FD_DSYNC (Z.lor FD_RSYNC FD_SYNC)) =? 0) then ret (Errno EINVAL)
      else fd_hostop e h fd
  | FdFdstatSetRights _ _ _ => ret (Errno ENOSYS)
  | FdFilestatGet fd r =>
      g_read m r 64 EFAULT (fun _ => with_fd e (i32 fd) (fun _ => hostop (h_e1 h) (fun _ => addw r 64 (ret Done))))
  | FdFilestatSetSize fd _ => fd_hostop e h fd
  | FdFilestatSetTimes fd _ _ fl =>
      with_fd e (i32 fd) (fun x =>
        if times_invalid (wrap 16 fl) then ret (Errno EINVAL)
        else if (h_e1 h =? EPERM) || (h_e1 h =? ENOSYS)
             then (if nofs x
                   then (if set_times_checks_fs then ret (Errno (h_e1 h)) else ret Panic)   (* f.FS.Utimens on a nil FS *)
                   else hostop (h_e2 h) done)
             else hostop (h_e1 h) done)
  | FdPread fd iovs cnt _ r =>
      with_fd e (i32 fd) (fun _ => readv m v h iovs cnt (fun _ => g_wfix m r 4 efault done))
  | FdRead fd iovs cnt r =>
      with_fd e (i32 fd) (fun _ => readv m v h iovs cnt (fun _ => g_wfix m r 4 efault done))
  | FdPrestatGet fd r =>
      with_fd e (i32 fd) (fun x =>
        if negb (f_pre x) then ret (Errno EBADF) else hostop (h_e1 h) (fun _ => g_wfix m r 8 efault done))
  | FdPrestatDirName fd p len =>
      with_fd e (i32 fd) (fun x =>
        if negb (f_pre x) then ret (Errno EBADF) else
        hostop (h_e1 h) (fun _ =>
          let namelen := if f_dir x then f_namelen x else 0 in
          if wrap 32 namelen <? len then ret (Errno ENAMETOOLONG)
          else if negb (len <=? namelen) then ret Panic       (* []byte(name)[:pathLen] *)
          else adda namelen (g_write m p len efault done)))
  | FdPwrite fd iovs cnt _ r =>
      with_fd e (i32 fd) (fun _ => writev m v h true iovs cnt (fun _ => g_wfix m r 4 efault done))
  | FdWrite fd iovs cnt r =>
      with_fd e (i32 fd) (fun _ => writev m v h false iovs cnt (fun _ => g_wfix m r 4 efault done))
  | FdReaddir fd buf len _ r =>
      if len <? DirentSize then ret (Errno EINVAL) else
      with_fd e (i32 fd) (fun _ =>
        hostop (h_e1 h) (fun _ =>                              (* direntCache: ENOTDIR -> EBADF *)
          adda (64 * Z.min (wrap 32 (wrap 32 (len / DirentSize + 1) + 1)) (e_ndir e))
            (hostop (h_e2 h) (fun _ =>                         (* DirentCache.Read: ENOENT for a stale cookie *)
               if 0 <? h_n h then g_read m buf (h_n h) EFAULT (fun _ => addw buf (h_n h) (g_wfix m r 4 efault done))
               else g_wfix m r 4 efault done))))
  | FdRenumber fd to => renumber e (i32 fd) (i32 to)
  | FdSeek fd _ _ r => fd_seek e m h fd r
  | FdTell fd r => fd_seek e m h fd r
  | PathCreateDirectory fd p len => path_op m h p len
  | PathRemoveDirectory fd p len => path_op m h p len
  | PathUnlinkFile fd p len => path_op m h p len
  | PathFilestatGet fd _ p len r =>
      atpath m p len (h_e1 h) (fun _ => hostop (h_e2 h) (fun _ => g_read m r 64 EFAULT (fun _ => addw r 64 (ret Done))))
  | PathFilestatSetTimes fd _ p len _ _ ff =>
      if times_invalid (wrap 16 ff) then ret (Errno EINVAL) else path_op m h p len
  | PathLink _ _ op ol _ np nl => path_op2 m h op ol np nl
  | PathRename _ op ol _ np nl => path_op2 m h op ol np nl
  | PathOpen fd _ p len _ _ _ _ r =>
      atpath m p len (h_e1 h) (fun _ =>
        if len =? 0 then ret (Errno EINVAL)
        else hostop (h_e2 h) (fun _ => adda 1024 (g_wfix m r 4 efault (fun _ => addf (-1) (ret Done)))))
  | PathReadlink fd p len buf bl r =>
      if (len =? 0) || (bl =? 0) then ret (Errno EINVAL) else
      atpath m p len (h_e1 h) (fun _ =>
        hostop (h_e2 h) (fun _ =>
          if bl <? h_n h then ret (Errno ERANGE)
          else adda (h_n h) (g_write m buf (h_n h) efault (fun _ => g_wfix m r 4 efault done))))
  | PathSymlink op ol fd np nl =>
      with_fd e (i32 fd) (fun x =>
        if negb (f_dir x) then ret (Errno ENOTDIR)
        else if (ol =? 0) || (nl =? 0) then ret (Errno EINVAL)
        else g_read m op ol EFAULT (fun _ =>
               atpath m np nl (h_e1 h) (fun _ =>
                 if negb (0 <? ol) then ret Panic              (* &oldPathBuf[0] *)
                 else hostop (h_e2 h) done)))
  | PollOneoff inp outp nsub r => poll_oneoff e m v h inp outp nsub r
  | ProcExit _ => ret Trap                                   (* panic(sys.NewExitError): the documented exit *)
  | ProcRaise _ => ret (Errno ENOSYS)
  | SchedYield => ret Done
  | RandomGet buf len => g_read m buf len EFAULT (fun _ => hostop (h_e1 h) (fun _ => addw buf len (ret Done)))
  | SockAccept fd _ r =>
      with_fd e (i32 fd) (fun x =>
        if negb (f_pre x) || negb (f_sock x =? 1) then ret (Errno EBADF)
        else hostop (h_e1 h) (fun _ =>                         (* the result of WriteUint32Le is ignored *)
               g_wfix m r 4 (fun _ => addf (-1) (adda 1024 (ret Done))) (fun _ => addf (-1) (adda 1024 (ret Done)))))
  | SockRecv fd iovs cnt fl r1 r2 =>
      with_fd e (i32 fd) (fun x =>
        if negb (f_sock x =? 2) then ret (Errno EBADF)
        else if negb (Z.land (wrap 8 fl) (255 - Z.lor RI_RECV_PEEK RI_RECV_WAITALL) =? 0) then ret (Errno ENOTSUP)
        else if negb (Z.land (wrap 8 fl) RI_RECV_PEEK =? 0) then
          g_rfix m iovs 4 EINVAL (fun _ =>
            g_rfix m (wrap 32 (iovs + 4)) 4 EINVAL (fun _ =>
              g_read m (fst (v_iov v 0)) (snd (v_iov v 0)) EINVAL (fun _ =>
                hostop (h_e1 h) (fun _ => addw (fst (v_iov v 0)) (snd (v_iov v 0)) (recv_fin m r1 r2)))))
        else readv m v h iovs cnt (fun _ => recv_fin m r1 r2))
  | SockSend fd iovs cnt fl r =>
      if negb (fl =? 0) then ret (Errno ENOTSUP) else
      with_fd e (i32 fd) (fun x =>
        if negb (f_sock x =? 2) then ret (Errno EBADF)
        else writev m v h false iovs cnt (fun _ => g_wfix m r 4 done done))
  | SockShutdown fd how =>
      with_fd e (i32 fd) (fun x =>
        if negb (f_sock x =? 2) then ret (Errno EBADF)
        else if (wrap 8 how =? SD_RD) || (wrap 8 how =? SD_WR) || (wrap 8 how =? Z.lor SD_RD SD_WR) then hostop (h_e1 h) done
        else ret (Errno EINVAL))
  end.

(* ---- output regions designated by the signature (true, unwrapped extents) ---- *)
Definition desig_list (e : env) (c : call) : list (Z * Z) :=
  match c with
  | ArgsGet a b => [(a, 4 * Z.of_nat (length (e_args e))); (b, nt_size (e_args e))]
  | EnvironGet a b => [(a, 4 * Z.of_nat (length (e_envs e))); (b, nt_size (e_envs e))]
  | ArgsSizesGet a b | EnvironSizesGet a b => [(a, 4); (b, 4)]
  | ClockResGet _ r | ClockTimeGet _ _ r | FdPrestatGet _ r | FdSeek _ _ _ r | FdTell _ r => [(r, 8)]
  | FdFdstatGet _ r => [(r, 24)]
  | FdFilestatGet _ r | PathFilestatGet _ _ _ _ r => [(r, 64)]
  | FdPread _ _ _ _ r | FdRead _ _ _ r | FdPwrite _ _ _ _ r | FdWrite _ _ _ r | SockSend _ _ _ _ r
  | PathOpen _ _ _ _ _ _ _ _ r | SockAccept _ _ r => [(r, 4)]
  | FdPrestatDirName _ p len => [(p, len)]
  | FdReaddir _ buf len _ r | PathReadlink _ _ _ buf len r => [(buf, len); (r, 4)]
  | PollOneoff _ outp nsub r => [(outp, 32 * nsub); (r, 4)]
  | RandomGet buf len => [(buf, len)]
  | SockRecv _ _ _ _ r1 r2 => [(r1, 4); (r2, 2)]
  | _ => []
  end.
(* number of iovec entries whose buffers are output regions *)
Definition desig_iovs (c : call) : Z :=
  match c with
  | FdPread _ _ cnt _ _ | FdRead _ _ cnt _ | SockRecv _ _ cnt _ _ _ => cnt
  | _ => 0
  end.
(* descriptors whose table entry the call may change: the ones it names (-1: one fresh descriptor) *)
Definition desig_fds (c : call) : list Z :=
  match c with
  | FdClose fd => [i32 fd]
  | FdRenumber fd to => [i32 fd; i32 to]
  | PathOpen _ _ _ _ _ _ _ _ _ | SockAccept _ _ _ => [-1]
  | _ => []
  end.
Definition sub_region (w d : Z * Z) : Prop := fst d <= fst w /\ fst w + snd w <= fst d + snd d.
Definition desig (e : env) (v : view) (c : call) (d : Z * Z) : Prop :=
  In d (desig_list e c) \/ (exists i, 0 <= i < desig_iovs c /\ d = v_iov v i)
  \/ (exists a b c5 r1 r2 cnt, c = SockRecv a b cnt c5 r1 r2 /\ d = v_iov v 0).   (* MSG_PEEK uses the first iovec whatever the count *)

(* ---- evaluation of correspondence cases ---- *)
Fixpoint rdb (d : list (Z * Z)) (a : Z) : Z :=                  (* memory is pattern-filled with 165 outside the placed data *)
  match d with [] => 165 | (k, x) :: r => if k =? a then x else rdb r a end.
Fixpoint rdb_le (d : list (Z * Z)) (a : Z) (n : nat) : Z :=
  match n with O => 0 | S k => rdb d a + 256 * rdb_le d (a + 1) k end.
Definition view_of (d : list (Z * Z)) (iovs inp : Z) : view :=
  {| v_iov := fun i => (rdb_le d (iovs + 8 * i) 4, rdb_le d (iovs + 8 * i + 4) 4);
     v_sub := fun i => (rdb d (inp + 48 * i + 8), rdb_le d (inp + 48 * i + 16) 4, rdb_le d (inp + 48 * i + 40) 2) |}.
Definition mem_of (len : Z) : mem :=
  {| m_len := len; m_min := 0; m_cap := 65536; m_max := 65536; m_alloc := false; m_data := [] |}.
Definition host_of (e1 e2 e3 n : Z) (rw : list (Z * Z)) : host :=
  {| h_e1 := e1; h_e2 := e2; h_e3 := e3; h_n := n; h_rw := fun k => nth (Z.to_nat k) rw (0, 0) |}.

(* observation: 0 = errno (wasi number in the second component), 1 = exit, 2 = Go runtime error / host panic *)
Definition obs_eqb (r : res) (kind er : Z) : bool :=
  match r_out r with
  | Done => (kind =? 0) && (er =? 0)
  | Errno x => (kind =? 0) && (er =? ToErrno x) && negb (x =? 0)
  | Trap => kind =? 1
  | Panic => kind =? 2
  end.
Fixpoint zlist_eqb (a b : list Z) : bool :=
  match a, b with [] , [] => true | x :: r, y :: s => (x =? y) && zlist_eqb r s | _, _ => false end.
(* every changed byte range of the observation lies inside the union of the written regions of the model *)
Fixpoint cover1 (fuel : nat) (ws : list (Z * Z)) (o e : Z) : bool :=
  if e <=? o then true else
  match fuel with
  | O => false
  | S f => match find (fun d => (fst d <=? o) && (o <? fst d + snd d)) ws with
           | Some d => cover1 f ws (fst d + snd d) e
           | None => false
           end
  end.
Fixpoint covered (diff ws : list (Z * Z)) : bool :=
  match diff with [] => true | w :: r => cover1 (S (length ws)) ws (fst w) (fst w + snd w) && covered r ws end.

(* a case: environment, memory length, placed bytes, iovec base, subscription base, call, candidate host answers,
   observed (kind, errno), observed memory diff, observed reader/writer buffer lengths (or [-1] when not observable),
   descriptors whose table entry changed (-1 for a descriptor that did not exist before) *)
Definition case := (env * Z * list (Z * Z) * Z * Z * call * list (Z * Z * Z * Z * list (Z * Z)) * (Z * Z) * list (Z * Z) * list Z * list Z)%type.

Definition accepts (e : env) (m : mem) (v : view) (c : call) (ob : Z * Z) (diff : list (Z * Z)) (calls chg : list Z)
                   (hc : Z * Z * Z * Z * list (Z * Z)) : bool :=
  let '(e1, e2, e3, n, rw) := hc in
  let r := wasi e m v (host_of e1 e2 e3 n rw) c in
  obs_eqb r (fst ob) (snd ob) && covered diff (r_w r)
  && (match calls with [-1] => true | _ => zlist_eqb (r_calls r) calls end)
  && forallb (fun f => existsb (Z.eqb f) (r_fds r)) chg.

(* 0: some candidate host answer explains the observation; 1: none does *)
Definition check_case (cs : case) : Z :=
  let '(e, len, d, iovs, inp, c, hcs, ob, diff, calls, chg) := cs in
  if existsb (accepts e (mem_of len) (view_of d iovs inp) c ob diff calls chg) hcs then 0 else 1.

Fixpoint mismatches (i : Z) (cs : list case) : list (Z * Z) :=
  match cs with
  | [] => []
  | c :: r => let d := check_case c in if d =? 0 then mismatches (i + 1) r else (i, d) :: mismatches (i + 1) r
  end.

(* the model's answer for one host candidate, for reports *)
Definition out_code (r : res) : Z :=
  match r_out r with Done => 0 | Errno x => ToErrno x | Trap => -1 | Panic => -2 end.
