(* C16 (part C): POSIX-style reference model of the WASI file-system calls as wazero implements them on
   a mounted host directory (imports/wasi_snapshot_preview1/fs.go over internal/sys/fs.go over
   internal/sysfs over the host kernel). Executable definitions only.
     * a tree: association list from paths (lists of name ids, relative to the mount) to Dir | File inode;
     * file contents per inode (a file stays readable through open descriptors after unlink/rename);
     * descriptors: association list fd -> entry (what it refers to, offset, append/read/write flags),
       allocated lowest-free (the abstract map of Sys/DescTable.v, refined there to the real bitmap table).
   Errno numbers come from coq/Gen (regenerated from internal/wasip1). Places where wazero's errno
   differs from POSIX are marked "wazero:" and modelled as implemented. *)
From Verif Require Import Lib.GoInt Gen.GenC16Wasip1 Sys.DescTable.
Open Scope Z_scope.

Definition path := list Z.
Fixpoint path_eqb (a b : path) : bool :=
  match a, b with
  | [], [] => true
  | x :: r, y :: s => (x =? y) && path_eqb r s
  | _, _ => false
  end.
(* [a] is a prefix of [b] (possibly equal) *)
Fixpoint is_prefix (a b : path) : bool :=
  match a, b with
  | [], _ => true
  | x :: r, y :: s => (x =? y) && is_prefix r s
  | _ :: _, [] => false
  end.
Definition strict_prefix (a b : path) : bool := is_prefix a b && negb (path_eqb a b).

Inductive node := NDir | NFile (ino : Z).
Inductive fkind :=
| KFile (ino : Z)
| KDir (name : path)       (* FileEntry.Name: the path it was opened with; does not follow renames *)
| KPre                     (* the pre-opened mount point *)
| KStdio.
Record fdent := { fe_kind : fkind; fe_off : Z; fe_app : bool; fe_r : bool; fe_w : bool }.

Record st := {
  s_tree : list (path * node);
  s_files : list (Z * list Z);      (* inode -> bytes *)
  s_next : Z;                       (* next fresh inode *)
  s_fds : list (Z * fdent)
}.

Definition stdio_ent : fdent := {| fe_kind := KStdio; fe_off := 0; fe_app := false; fe_r := true; fe_w := true |}.
Definition pre_ent : fdent := {| fe_kind := KPre; fe_off := 0; fe_app := false; fe_r := true; fe_w := false |}.
Definition st_init : st :=
  {| s_tree := []; s_files := []; s_next := 1;
     s_fds := [(0, stdio_ent); (1, stdio_ent); (2, stdio_ent); (3, pre_ent)] |}.

(* ---- association lists ---- *)
Fixpoint tlookup (t : list (path * node)) (p : path) : option node :=
  match t with [] => None | (q, n) :: r => if path_eqb q p then Some n else tlookup r p end.
Definition tremove (t : list (path * node)) (p : path) : list (path * node) :=
  filter (fun qn => negb (path_eqb (fst qn) p)) t.
Fixpoint flookup {A} (l : list (Z * A)) (k : Z) : option A :=
  match l with [] => None | (k', v) :: r => if k' =? k then Some v else flookup r k end.
Definition fremove {A} (l : list (Z * A)) (k : Z) : list (Z * A) := filter (fun kv => negb (fst kv =? k)) l.
Definition fset {A} (l : list (Z * A)) (k : Z) (v : A) : list (Z * A) := (k, v) :: fremove l k.

Definition node_at (t : list (path * node)) (p : path) : option node :=
  match p with [] => Some NDir | _ => tlookup t p end.
Definition content (s : st) (ino : Z) : list Z := match flookup (s_files s) ino with Some b => b | None => [] end.
Definition has_child (t : list (path * node)) (p : path) : bool := existsb (fun qn => strict_prefix p (fst qn)) t.

(* ---- path resolution: every proper prefix must be a directory ---- *)
Inductive rres := RNoent | RNotdir | RNode (n : node) | RFree.   (* RFree: parent is a directory, name unused *)
Fixpoint walk (t : list (path * node)) (done todo : path) : rres :=
  match todo with
  | [] => RNode NDir
  | [x] => match tlookup t (done ++ [x]) with Some n => RNode n | None => RFree end
  | x :: rest => match tlookup t (done ++ [x]) with
                 | None => RNoent
                 | Some (NFile _) => RNotdir
                 | Some NDir => walk t (done ++ [x]) rest
                 end
  end.
Definition resolve (t : list (path * node)) (p : path) : rres := walk t [] p.

(* ---- byte strings ---- *)
Definition sub (b : list Z) (off n : Z) : list Z := firstn (Z.to_nat n) (skipn (Z.to_nat off) b).
(* write [d] at [off], zero-filling a gap beyond the end *)
Definition write_at (b : list Z) (off : Z) (d : list Z) : list Z :=
  let pad := repeat 0 (Z.to_nat (off - len b)) in
  firstn (Z.to_nat off) (b ++ pad) ++ d ++ skipn (Z.to_nat (off + len d)) b.
Definition resize (b : list Z) (n : Z) : list Z := firstn (Z.to_nat n) (b ++ repeat 0 (Z.to_nat (n - len b))).
Definition sum (l : list Z) : Z := fold_right Z.add 0 l.

(* ---- observations ---- *)
Inductive obs :=
| OErr (errno : Z)
| OOk
| OFd (fd : Z)
| OData (bytes : list Z)      (* fd_read / fd_pread: nread = length *)
| ONum (n : Z)                (* nwritten / new offset *)
| OStat (filetype size : Z)
| OUnmodelled.                (* stdio streams are outside this model *)

Inductive op :=
| PathOpen (dirfd : Z) (p : path) (oflags fdflags rights : Z)
| FdClose (fd : Z)
| FdRenumber (from to : Z)
| FdRead (fd : Z) (lens : list Z)
| FdWrite (fd : Z) (chunks : list (list Z))
| FdPread (fd : Z) (lens : list Z) (off : Z)
| FdPwrite (fd : Z) (chunks : list (list Z)) (off : Z)
| FdSeek (fd : Z) (off whence : Z)
| FdTell (fd : Z)
| FdSetSize (fd : Z) (size : Z)
| FdStat (fd : Z)
| Mkdir (dirfd : Z) (p : path)
| Rmdir (dirfd : Z) (p : path)
| Unlink (dirfd : Z) (p : path)
| Rename (dirfd : Z) (p : path) (dirfd2 : Z) (q : path)
| Stat (dirfd : Z) (p : path).

Definition getfd (s : st) (fd : Z) : option fdent := if fd <? 0 then None else flookup (s_fds s) fd.
Definition with_fds (s : st) (f : list (Z * fdent)) : st :=
  {| s_tree := s_tree s; s_files := s_files s; s_next := s_next s; s_fds := f |}.
Definition with_tree (s : st) (t : list (path * node)) : st :=
  {| s_tree := t; s_files := s_files s; s_next := s_next s; s_fds := s_fds s |}.
Definition with_file (s : st) (ino : Z) (b : list Z) : st :=
  {| s_tree := s_tree s; s_files := fset (s_files s) ino b; s_next := s_next s; s_fds := s_fds s |}.
Definition with_off (e : fdent) (o : Z) : fdent :=
  {| fe_kind := fe_kind e; fe_off := o; fe_app := fe_app e; fe_r := fe_r e; fe_w := fe_w e |}.

(* lowest free descriptor: the least key not in the table (Sys/DescTable.v) *)
Definition lowest_free (f : list (Z * fdent)) : Z := least_free (map (fun kv => (fst kv, 0)) f).

(* atPath: the directory a descriptor stands for *)
Definition base (s : st) (dirfd : Z) : Z + path :=
  match getfd s dirfd with
  | None => inl ErrnoBadf
  | Some e => match fe_kind e with
              | KPre => inr []
              | KDir name => inr name
              | KFile _ | KStdio => inl ErrnoNotdir
              end
  end.

Definition bit (flags b : Z) : bool := negb (Z.land flags b =? 0).
Definition RIGHT_FD_READ : Z := 2.
Definition RIGHT_FD_WRITE : Z := 64.

Definition path_open (s : st) (dirfd : Z) (p : path) (oflags fdflags rights : Z) : st * obs :=
  match base s dirfd with
  | inl e => (s, OErr e)
  | inr b =>
    let full := b ++ p in
    let o_creat := bit oflags O_CREAT in let o_dir := bit oflags O_DIRECTORY in
    let o_excl := bit oflags O_EXCL && negb o_dir in let o_trunc := bit oflags O_TRUNC in
    let app := bit fdflags FD_APPEND in
    if o_dir && o_creat then (s, OErr ErrnoInval) else
    let r := bit rights RIGHT_FD_READ in let w := bit rights RIGHT_FD_WRITE in
    let def_rw := o_trunc || o_creat || app in
    (* access mode: (readable, writable) *)
    let '(rd, wr) := if r && w then (true, true) else if w then (false, true) else if r then (true, false)
                     else (true, def_rw) in
    let fd := lowest_free (s_fds s) in
    let mk k := {| fe_kind := k; fe_off := 0; fe_app := app; fe_r := rd; fe_w := wr |} in
    match resolve (s_tree s) full with
    | RNoent => (s, OErr ErrnoNoent)
    | RNotdir => (s, OErr ErrnoNotdir)
    | RFree =>
        if o_creat then
          let ino := s_next s in
          ({| s_tree := (full, NFile ino) :: s_tree s; s_files := fset (s_files s) ino [];
              s_next := ino + 1; s_fds := fset (s_fds s) fd (mk (KFile ino)) |}, OFd fd)
        else (s, OErr ErrnoNoent)
    | RNode NDir =>
        if o_creat && o_excl then (s, OErr ErrnoExist)
        else if o_creat || wr || o_trunc then (s, OErr ErrnoIsdir)
        else (with_fds s (fset (s_fds s) fd (mk (KDir full))), OFd fd)
    | RNode (NFile ino) =>
        if o_creat && o_excl then (s, OErr ErrnoExist)
        else if o_dir then (s, OErr ErrnoNotdir)
        else let s1 := if o_trunc then with_file s ino [] else s in
             (with_fds s1 (fset (s_fds s1) fd (mk (KFile ino))), OFd fd)
    end
  end.

Definition fd_close (s : st) (fd : Z) : st * obs :=
  match getfd s fd with
  | None => (s, OErr ErrnoBadf)
  | Some _ => (with_fds s (fremove (s_fds s) fd), OOk)
  end.

Definition is_preopen (e : fdent) : bool := match fe_kind e with KPre | KStdio => true | _ => false end.

(* FSContext.Renumber *)
Definition fd_renumber (s : st) (from to : Z) : st * obs :=
  match getfd s from with
  | None => (s, OErr ErrnoBadf)
  | Some e =>
      if to <? 0 then (s, OErr ErrnoBadf)
      else if is_preopen e then (s, OErr ErrnoNotsup)
      else if from =? to then (s, OOk)
      else match getfd s to with
           | Some e2 => if is_preopen e2 then (s, OErr ErrnoNotsup)
                        else (with_fds s (fset (fremove (s_fds s) from) to e), OOk)
           | None => (with_fds s (fset (fremove (s_fds s) from) to e), OOk)
           end
  end.

Definition fd_read (s : st) (fd : Z) (lens : list Z) : st * obs :=
  match getfd s fd with
  | None => (s, OErr ErrnoBadf)
  | Some e =>
      if sum lens =? 0 then (s, OData []) else
      match fe_kind e with
      | KStdio => (s, OUnmodelled)
      | KDir _ | KPre => (s, OErr ErrnoIsdir)
      | KFile ino =>
          if negb (fe_r e) then (s, OErr ErrnoBadf) else
          let d := sub (content s ino) (fe_off e) (sum lens) in
          (with_fds s (fset (s_fds s) fd (with_off e (fe_off e + len d))), OData d)
      end
  end.

Definition fd_write (s : st) (fd : Z) (chunks : list (list Z)) : st * obs :=
  let d := concat chunks in
  match getfd s fd with
  | None => (s, OErr ErrnoBadf)
  | Some e =>
      (* the pre-open is a sys.DirFile whose Write fails even for an empty buffer; an os-backed
         descriptor short-circuits empty writes *)
      if (match fe_kind e with KPre => true | _ => false end) && negb (len chunks =? 0) then (s, OErr ErrnoIsdir) else
      if len d =? 0 then (s, ONum 0) else
      match fe_kind e with
      | KStdio => (s, OUnmodelled)
      | KDir _ | KPre => (s, OErr ErrnoIsdir)
      | KFile ino =>
          if negb (fe_w e) then (s, OErr ErrnoBadf) else
          let pos := if fe_app e then len (content s ino) else fe_off e in
          let s1 := with_file s ino (write_at (content s ino) pos d) in
          (with_fds s1 (fset (s_fds s1) fd (with_off e (pos + len d))), ONum (len d))
      end
  end.

Definition fd_pread (s : st) (fd : Z) (lens : list Z) (off : Z) : st * obs :=
  match getfd s fd with
  | None => (s, OErr ErrnoBadf)
  | Some e =>
      if sum lens =? 0 then (s, OData []) else
      match fe_kind e with
      | KStdio => (s, OUnmodelled)
      | KDir _ | KPre => (s, OErr ErrnoIsdir)
      | KFile ino =>
          if off <? 0 then (s, OErr ErrnoIo)          (* wazero: Go's ReadAt "negative offset" surfaces as EIO *)
          else if negb (fe_r e) then (s, OErr ErrnoBadf)
          else (s, OData (sub (content s ino) off (sum lens)))
      end
  end.

Definition fd_pwrite (s : st) (fd : Z) (chunks : list (list Z)) (off : Z) : st * obs :=
  let d := concat chunks in
  match getfd s fd with
  | None => (s, OErr ErrnoBadf)
  | Some e =>
      if len d =? 0 then (s, ONum 0) else
      match fe_kind e with
      | KStdio => (s, OUnmodelled)
      | KDir _ | KPre => (s, OErr ErrnoIsdir)
      | KFile ino =>
          if fe_app e then (s, OErr ErrnoIo)          (* wazero: Go refuses WriteAt on an O_APPEND file *)
          else if off <? 0 then (s, OErr ErrnoIo)
          else if negb (fe_w e) then (s, OErr ErrnoBadf)
          else (with_file s ino (write_at (content s ino) off d), ONum (len d))
      end
  end.

Definition fd_seek (s : st) (fd : Z) (off whence : Z) : st * obs :=
  match getfd s fd with
  | None => (s, OErr ErrnoBadf)
  | Some e =>
      match fe_kind e with
      | KStdio => (s, OUnmodelled)
      | KDir _ | KPre => (s, OErr ErrnoIsdir)
      | KFile ino =>
          if 2 <? whence then (s, OErr ErrnoInval) else
          let new := if whence =? 0 then off else if whence =? 1 then fe_off e + off else len (content s ino) + off in
          if new <? 0 then (s, OErr ErrnoInval)
          else (with_fds s (fset (s_fds s) fd (with_off e new)), ONum new)
      end
  end.

Definition fd_setsize (s : st) (fd : Z) (size : Z) : st * obs :=
  match getfd s fd with
  | None => (s, OErr ErrnoBadf)
  | Some e =>
      match fe_kind e with
      | KStdio => (s, OUnmodelled)
      | KPre => (s, OErr ErrnoIsdir)
      | KDir _ => if size <? 0 then (s, OErr ErrnoInval) else (s, OErr ErrnoIsdir)
      | KFile ino =>
          if size <? 0 then (s, OErr ErrnoInval)
          else if negb (fe_w e) then (s, OErr ErrnoInval)     (* ftruncate on a descriptor not open for writing *)
          else (with_file s ino (resize (content s ino) size), OOk)
      end
  end.

Definition fd_stat (s : st) (fd : Z) : st * obs :=
  match getfd s fd with
  | None => (s, OErr ErrnoBadf)
  | Some e =>
      match fe_kind e with
      | KStdio => (s, OUnmodelled)
      | KDir _ | KPre => (s, OStat FILETYPE_DIRECTORY 0)
      | KFile ino => (s, OStat FILETYPE_REGULAR_FILE (len (content s ino)))
      end
  end.

Definition with_base (s : st) (dirfd : Z) (p : path) (k : path -> st * obs) : st * obs :=
  match base s dirfd with inl e => (s, OErr e) | inr b => k (b ++ p) end.

(* creating, removing or renaming the mount point itself is outside the model (WASI paths are never empty) *)
Definition with_base_ne (s : st) (dirfd : Z) (p : path) (k : path -> st * obs) : st * obs :=
  match base s dirfd with
  | inl e => (s, OErr e)
  | inr b => match b ++ p with [] => (s, OUnmodelled) | full => k full end
  end.

Definition mkdir (s : st) (dirfd : Z) (p : path) : st * obs :=
  with_base_ne s dirfd p (fun full =>
    match resolve (s_tree s) full with
    | RNoent => (s, OErr ErrnoNoent)
    | RNotdir => (s, OErr ErrnoNoent)              (* wazero: dirFS.Mkdir maps ENOTDIR to ENOENT *)
    | RNode _ => (s, OErr ErrnoExist)
    | RFree => (with_tree s ((full, NDir) :: s_tree s), OOk)
    end).

Definition rmdir (s : st) (dirfd : Z) (p : path) : st * obs :=
  with_base_ne s dirfd p (fun full =>
    match resolve (s_tree s) full with
    | RNoent | RFree => (s, OErr ErrnoNoent)
    | RNotdir => (s, OErr ErrnoNotdir)
    | RNode (NFile _) => (s, OErr ErrnoNotdir)
    | RNode NDir => if has_child (s_tree s) full then (s, OErr ErrnoNotempty)
                    else (with_tree s (tremove (s_tree s) full), OOk)
    end).

Definition unlink (s : st) (dirfd : Z) (p : path) : st * obs :=
  with_base_ne s dirfd p (fun full =>
    match resolve (s_tree s) full with
    | RNoent | RFree => (s, OErr ErrnoNoent)
    | RNotdir => (s, OErr ErrnoNotdir)
    | RNode NDir => (s, OErr ErrnoIsdir)
    | RNode (NFile _) => (with_tree s (tremove (s_tree s) full), OOk)
    end).

Definition stat (s : st) (dirfd : Z) (p : path) : st * obs :=
  with_base s dirfd p (fun full =>
    match resolve (s_tree s) full with
    | RNoent | RFree => (s, OErr ErrnoNoent)
    | RNotdir => (s, OErr ErrnoNotdir)
    | RNode NDir => (s, OStat FILETYPE_DIRECTORY 0)
    | RNode (NFile ino) => (s, OStat FILETYPE_REGULAR_FILE (len (content s ino)))
    end).

(* move the subtree at [a] to [b]; whatever was at [b] (a file or an empty directory) is replaced *)
Definition retarget (a b : path) (q : path) : path := b ++ skipn (length a) q.
Definition tree_rename (t : list (path * node)) (a b : path) : list (path * node) :=
  map (fun qn => if is_prefix a (fst qn) then (retarget a b (fst qn), snd qn) else qn) (tremove t b).

Definition rename (s : st) (dirfd : Z) (p : path) (dirfd2 : Z) (q : path) : st * obs :=
  match base s dirfd with
  | inl e => (s, OErr e)
  | inr b1 =>
    match base s dirfd2 with
    | inl e => (s, OErr e)
    | inr b2 =>
      let a := b1 ++ p in let b := b2 ++ q in
      if path_eqb a [] || path_eqb b [] then (s, OUnmodelled) else
      if path_eqb a b then (s, OOk)                  (* wazero: same path short-cut, even when it does not exist *)
      else
      match resolve (s_tree s) a, resolve (s_tree s) b with
      | RNoent, _ => (s, OErr ErrnoNoent)
      | RNotdir, _ => (s, OErr ErrnoNotdir)
      | _, RNoent => (s, OErr ErrnoNoent)
      | _, RNotdir => (s, OErr ErrnoNotdir)
      | RFree, _ => (s, OErr ErrnoNoent)
      | RNode na, rb =>
          if strict_prefix a b then        (* moving a directory into itself; a file cannot have anything below it *)
            (s, OErr (match na with NDir => ErrnoInval | NFile _ => ErrnoNotdir end))
          else if strict_prefix b a then (s, OErr ErrnoNotempty)      (* the target is an ancestor of the source *)
          else match na, rb with
               | NFile _, RNode NDir => (s, OErr ErrnoIsdir)
               | NDir, RNode (NFile _) => (s, OErr ErrnoNotdir)
               | NDir, RNode NDir => if has_child (s_tree s) b then (s, OErr ErrnoNotempty)
                                     else (with_tree s (tree_rename (s_tree s) a b), OOk)
               | _, _ => (with_tree s (tree_rename (s_tree s) a b), OOk)
               end
      end
    end
  end.

Definition step (s : st) (o : op) : st * obs :=
  match o with
  | PathOpen d p ofl fdf r => path_open s d p ofl fdf r
  | FdClose fd => fd_close s fd
  | FdRenumber a b => fd_renumber s a b
  | FdRead fd lens => fd_read s fd lens
  | FdWrite fd ch => fd_write s fd ch
  | FdPread fd lens off => fd_pread s fd lens off
  | FdPwrite fd ch off => fd_pwrite s fd ch off
  | FdSeek fd off wh => fd_seek s fd off wh
  | FdTell fd => fd_seek s fd 0 1
  | FdSetSize fd sz => fd_setsize s fd sz
  | FdStat fd => fd_stat s fd
  | Mkdir d p => mkdir s d p
  | Rmdir d p => rmdir s d p
  | Unlink d p => unlink s d p
  | Rename d p d2 q => rename s d p d2 q
  | Stat d p => stat s d p
  end.

Fixpoint run (s : st) (ops : list op) : st * list obs :=
  match ops with
  | [] => (s, [])
  | o :: r => let '(s1, x) := step s o in let '(s2, xs) := run s1 r in (s2, x :: xs)
  end.
Definition final (s : st) (ops : list op) : st := fold_left (fun s o => fst (step s o)) ops s.

(* ---- correspondence ---- *)
Fixpoint zlist_eqb (a b : list Z) : bool :=
  match a, b with [], [] => true | x :: r, y :: s => (x =? y) && zlist_eqb r s | _, _ => false end.
Definition obs_eqb (a b : obs) : bool :=
  match a, b with
  | OErr x, OErr y => x =? y
  | OOk, OOk => true
  | OFd x, OFd y => x =? y
  | OData x, OData y => zlist_eqb x y
  | ONum x, ONum y => x =? y
  | OStat t s, OStat t' s' => (t =? t') && (s =? s')
  | _, _ => false
  end.
Fixpoint first_diff (i : Z) (xs ys : list obs) : Z :=
  match xs, ys with
  | [], [] => -1
  | x :: xr, y :: yr => if obs_eqb x y then first_diff (i + 1) xr yr else i
  | _, _ => i
  end.

(* final host tree: (path, None) for a directory, (path, Some bytes) for a file, in any order *)
Definition hnode := (path * option (list Z))%type.
Definition hnode_eqb (a b : hnode) : bool :=
  path_eqb (fst a) (fst b) &&
  match snd a, snd b with None, None => true | Some x, Some y => zlist_eqb x y | _, _ => false end.
Definition model_tree (s : st) : list hnode :=
  map (fun qn => (fst qn, match snd qn with NDir => None | NFile i => Some (content s i) end)) (s_tree s).
Definition tree_sub (a b : list hnode) : bool := forallb (fun x => existsb (hnode_eqb x) b) a.

Definition case := (list op * list obs * list hnode)%type.
(* -1 agree; j >= 0 first differing observation; -2 final trees differ *)
Definition check_case (c : case) : Z :=
  let '(ops, observed, htree) := c in
  let '(s, outs) := run st_init ops in
  let d := first_diff 0 outs observed in
  if negb (d =? -1) then d
  else if tree_sub (model_tree s) htree && tree_sub htree (model_tree s) && (len htree =? len (s_tree s)) then -1 else -2.
Fixpoint mismatches (i : Z) (cs : list case) : list (Z * Z) :=
  match cs with
  | [] => []
  | c :: r => let d := check_case c in
              if d =? -1 then mismatches (i + 1) r else (i, d) :: mismatches (i + 1) r
  end.
