(* C16 (part C, second extension): path arguments that are not clean — ".", "..", empty components
   ("a//b"), a leading '/'. Kept separate from FsSlash.v, which it wraps.

   atPath (imports/wasi_snapshot_preview1/fs.go) normalises every path argument LEXICALLY before anything
   else happens: path.Clean, then fs.ValidPath; a result that is rooted or starts with ".." is refused with
   EPERM — before the descriptor is even looked up. [norm] is that function on component lists; [step_n]
   applies it in front of FsSlash.step_sl (the trailing-slash flag is taken from the raw string, as atPath
   does). Executable definitions only; theorems in Proofs/FsNormP.v.

   wazero vs POSIX: the normalisation never consults the file system, so "x/../a" is "a" whether or not x
   exists or is a directory, and "file/." is "file". POSIX resolves one component at a time and fails with
   ENOENT / ENOTDIR there. [pwalk] is the POSIX walk; FsNormP.pwalk_clean shows that the two agree whenever
   the POSIX walk succeeds, the Examples show the cases where only the lexical one does. The fs stream counts
   those cases (evidence: wazero_vs_posix) and follows the implementation. *)
From Verif Require Import Lib.GoInt Gen.GenC16Wasip1 Sys.DescTable Sys.FsModel Sys.FsSlash.
Open Scope Z_scope.

Inductive comp := CName (n : Z) | CDot | CDotDot | CEmpty.
Definition rpath := list comp.          (* the string split at every '/' *)

(* path.Clean on an unrooted path; [stack] is the cleaned prefix, last component first.
   None: the cleaned path starts with ".." (it would leave the directory), which fs.ValidPath refuses. *)
Fixpoint clean (stack : list Z) (cs : rpath) : option path :=
  match cs with
  | [] => Some (rev stack)
  | CName n :: r => clean (n :: stack) r
  | CDot :: r | CEmpty :: r => clean stack r
  | CDotDot :: r => match stack with [] => None | _ :: st' => clean st' r end
  end.
(* a rooted path stays rooted under path.Clean and is never valid *)
Definition norm (rooted : bool) (cs : rpath) : option path := if rooted then None else clean [] cs.

(* POSIX resolution of the same components below directory [b]: every component, "." and ".." included, is
   looked up in a directory that must exist *)
Definition is_dir (t : list (path * node)) (p : path) : bool :=
  match node_at t p with Some NDir => true | _ => false end.
Fixpoint pwalk (t : list (path * node)) (b : path) (stack : list Z) (cs : rpath) : option (list Z) :=
  match cs with
  | [] => Some stack
  | c :: r =>
      if is_dir t (b ++ rev stack) then
        match c with
        | CName n => pwalk t b (n :: stack) r
        | CDot | CEmpty => pwalk t b stack r
        | CDotDot => match stack with [] => None | _ :: st' => pwalk t b st' r end
        end
      else None
  end.

(* the one-path operations *)
Inductive pop1 := POpen (oflags fdflags rights : Z) | PMkdir | PRmdir | PUnlink | PStat.
Definition mk1 (k : pop1) (d : Z) (p : path) : op :=
  match k with
  | POpen ofl fdf r => PathOpen d p ofl fdf r
  | PMkdir => Mkdir d p
  | PRmdir => Rmdir d p
  | PUnlink => Unlink d p
  | PStat => Stat d p
  end.

(* A raw path that normalises to the directory of the descriptor itself ("a/..", "./") reaches the kernel as "."
   — "name/." through a descriptor opened as [name] — and "." must be a directory like a name followed by '/':
   if [name] has meanwhile become a regular file, (fd, "a/..") fails with ENOTDIR. *)
Definition tflag (t : bool) (p : path) : bool := t || match p with [] => true | _ => false end.

Inductive nop :=
| NOp (o : op) (t1 t2 : bool)                                              (* clean paths: FsSlash.step_sl *)
| NRaw (k : pop1) (dirfd : Z) (rooted : bool) (cs : rpath) (t : bool)        (* one raw path *)
| NRename (d1 : Z) (rooted1 : bool) (cs1 : rpath) (t1 : bool) (d2 : Z) (rooted2 : bool) (cs2 : rpath) (t2 : bool).


Definition step_n (s : st) (x : nop) : st * obs :=
  match x with
  | NOp o t1 t2 => step_sl s o t1 t2
  | NRaw k d rooted cs t =>
      match norm rooted cs with
      | None => (s, OErr ErrnoPerm)                     (* before the descriptor is looked at *)
      | Some p => step_sl s (mk1 k d p) (tflag t p) false
      end
  | NRename d1 r1 cs1 t1 d2 r2 cs2 t2 =>
      (* pathRenameFn: atPath for the old name (EPERM, then the descriptor), then atPath for the new one *)
      match norm r1 cs1 with
      | None => (s, OErr ErrnoPerm)
      | Some p =>
          match norm r2 cs2 with
          | Some q => step_sl s (Rename d1 p d2 q) t1 t2
          | None => match base s d1 with inl e => (s, OErr e) | inr _ => (s, OErr ErrnoPerm) end
          end
      end
  end.

Fixpoint run_n (s : st) (l : list nop) : st * list obs :=
  match l with
  | [] => (s, [])
  | x :: r => let '(s1, y) := step_n s x in let '(s2, ys) := run_n s1 r in (s2, y :: ys)
  end.
Definition final_n (s : st) (l : list nop) : st := fold_left (fun s x => fst (step_n s x)) l s.

(* the FsModel operation a call amounts to, if it gets past normalisation and the trailing-slash guard *)
Definition effective (s : st) (x : nop) : option op :=
  match x with
  | NOp o t1 t2 => match slash_guard s o t1 t2 with Some _ => None | None => Some o end
  | NRaw k d rooted cs t =>
      match norm rooted cs with
      | None => None
      | Some p => match slash_guard s (mk1 k d p) (tflag t p) false with Some _ => None | None => Some (mk1 k d p) end
      end
  | NRename d1 r1 cs1 t1 d2 r2 cs2 t2 =>
      match norm r1 cs1, norm r2 cs2 with
      | Some p, Some q => match slash_guard s (Rename d1 p d2 q) t1 t2 with Some _ => None | None => Some (Rename d1 p d2 q) end
      | _, _ => None
      end
  end.
Fixpoint effective_ops (s : st) (l : list nop) : list op :=
  match l with
  | [] => []
  | x :: r => match effective s x with
              | Some o => o :: effective_ops (fst (step s o)) r
              | None => effective_ops s r
              end
  end.

(* ---- correspondence (same shape as FsModel.check_case / mismatches) ---- *)
Definition case_n := (list nop * list obs * list hnode)%type.
Definition check_case_n (c : case_n) : Z :=
  let '(ops, observed, htree) := c in
  let '(s, outs) := run_n st_init ops in
  let d := first_diff 0 outs observed in
  if negb (d =? -1) then d
  else if tree_sub (model_tree s) htree && tree_sub htree (model_tree s) && (len htree =? len (s_tree s)) then -1 else -2.
Fixpoint mismatches_n (i : Z) (cs : list case_n) : list (Z * Z) :=
  match cs with
  | [] => []
  | c :: r => let d := check_case_n c in
              if d =? -1 then mismatches_n (i + 1) r else (i, d) :: mismatches_n (i + 1) r
  end.
