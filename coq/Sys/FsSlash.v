(* C16 (part C, extension): path arguments that end in '/'.
   FsModel.v's paths are lists of clean component names. A WASI path string may also end in a slash
   ("a name with a trailing slash resolves only to a directory"). wazero keeps that slash all the way
   down: atPath (imports/wasi_snapshot_preview1/fs.go) cleans the path, RE-ADDS the trailing slash,
   prefixes the name of a non-pre-open directory descriptor by concatenation, and dirFS.join passes the
   string to the kernel. The kernel then refuses every non-directory reached through such a name.

   The slash is modelled as a GUARD in front of FsModel.step: [step_sl s o t1 t2] where t1 / t2 say
   whether the first / second path argument of [o] ends in '/'. The guard either rejects the call with
   an errno and leaves the state unchanged, or lets [step s o] run unchanged. It never adds behaviour.
   Executable definitions only; the theorems are in Proofs/FsSlashP.v.

   What the guard says (as observed on wazero over Linux, tied by the fs stream):
     path_open  "file/"            ENOTDIR   (also with O_TRUNC: nothing is truncated)
     path_open  "x/" with O_CREAT  EISDIR whenever the parent resolves, whatever x is (file, directory,
                                   missing; also with O_EXCL) — nothing is ever created through "x/"
     path_filestat_get / path_unlink_file "file/"   ENOTDIR
     path_create_directory / path_remove_directory  no effect of the slash at all ("new/" is created)
     path_rename: once both parents resolve and the source exists, a source that is not a directory is
                  refused with ENOTDIR when EITHER name ends in '/'; a directory source behaves as without
                  the slash (a missing target "new/" is fine, a file target fails with ENOTDIR already).
   "dir/" behaves like "dir" and "missing/" like "missing" (ENOENT) in every call.
   wazero: sysfs.rename short-cuts textually identical names to success before any lookup, so
   rename "x/" "x/" succeeds (as a no-op) like rename "x" "x" does in FsModel.v, even when x is a file or
   missing; rename "x/" "x" and rename "x" "x/" are different strings and get the kernel's answer. *)
From Verif Require Import Lib.GoInt Gen.GenC16Wasip1 Sys.DescTable Sys.FsModel.
Open Scope Z_scope.

Definition guard_open (s : st) (dirfd : Z) (p : path) (oflags : Z) : option Z :=
  match base s dirfd with
  | inl _ => None
  | inr b =>
      let o_creat := bit oflags O_CREAT in
      if bit oflags O_DIRECTORY && o_creat then None else
      match resolve (s_tree s) (b ++ p) with
      | RNoent | RNotdir => None
      | RFree => if o_creat then Some ErrnoIsdir else None
      | RNode NDir => if o_creat then Some ErrnoIsdir else None
      | RNode (NFile _) => Some (if o_creat then ErrnoIsdir else ErrnoNotdir)
      end
  end.

(* path_filestat_get and path_unlink_file: a regular file reached through "name/" *)
Definition guard_file (s : st) (dirfd : Z) (p : path) : option Z :=
  match base s dirfd with
  | inl _ => None
  | inr b => match resolve (s_tree s) (b ++ p) with
             | RNode (NFile _) => Some ErrnoNotdir
             | _ => None
             end
  end.

Definition guard_rename (s : st) (dirfd : Z) (p : path) (dirfd2 : Z) (q : path) (t1 t2 : bool) : option Z :=
  match base s dirfd, base s dirfd2 with
  | inr b1, inr b2 =>
      let a := b1 ++ p in let b := b2 ++ q in
      if path_eqb a [] || path_eqb b [] then None
      else if t1 && t2 && path_eqb a b then None         (* wazero: identical strings, short-cut to success *)
      else match resolve (s_tree s) a, resolve (s_tree s) b with
           | RNoent, _ => Some ErrnoNoent
           | RNotdir, _ => Some ErrnoNotdir
           | _, RNoent => Some ErrnoNoent
           | _, RNotdir => Some ErrnoNotdir
           | RFree, _ => Some ErrnoNoent
           | RNode (NFile _), _ => Some ErrnoNotdir
           | RNode NDir, _ => None
           end
  | _, _ => None
  end.

(* Some e: the call fails with e because of a trailing slash; None: the slash makes no difference *)
Definition slash_guard (s : st) (o : op) (t1 t2 : bool) : option Z :=
  match o with
  | PathOpen d p ofl _ _ => if t1 then guard_open s d p ofl else None
  | Unlink d p => if t1 then guard_file s d p else None
  | Stat d p => if t1 then guard_file s d p else None
  | Rename d p d2 q => if t1 || t2 then guard_rename s d p d2 q t1 t2 else None
  | _ => None                                             (* mkdir, rmdir, descriptor operations *)
  end.

Definition step_sl (s : st) (o : op) (t1 t2 : bool) : st * obs :=
  match slash_guard s o t1 t2 with
  | Some e => (s, OErr e)
  | None => step s o
  end.

(* an operation with the trailing-slash flags of its (up to two) path arguments *)
Definition sop := (op * bool * bool)%type.
Definition step_sop (s : st) (x : sop) : st * obs := let '(o, t1, t2) := x in step_sl s o t1 t2.

Fixpoint run_sl (s : st) (l : list sop) : st * list obs :=
  match l with
  | [] => (s, [])
  | x :: r => let '(s1, y) := step_sop s x in let '(s2, ys) := run_sl s1 r in (s2, y :: ys)
  end.
Definition final_sl (s : st) (l : list sop) : st := fold_left (fun s x => fst (step_sop s x)) l s.

(* the calls of [l] that the guard lets through, in order (the guard is evaluated in the state the call
   is made in, so the filter follows the run) *)
Fixpoint accepted (s : st) (l : list sop) : list op :=
  match l with
  | [] => []
  | (o, t1, t2) :: r =>
      match slash_guard s o t1 t2 with
      | Some _ => accepted s r
      | None => o :: accepted (fst (step s o)) r
      end
  end.
(* ... and what they observed: the observations of [run_sl] at the accepted positions *)
Fixpoint accepted_obs (s : st) (l : list sop) (ys : list obs) : list obs :=
  match l, ys with
  | (o, t1, t2) :: r, y :: yr =>
      match slash_guard s o t1 t2 with
      | Some _ => accepted_obs s r yr
      | None => y :: accepted_obs (fst (step s o)) r yr
      end
  | _, _ => []
  end.

(* ---- descriptor-relative resolution: the same call spelled through another descriptor ----
   [via s d0 d p]: if [d] is a directory descriptor opened as [name], the pair (d0, name ++ p), else
   (d, p) unchanged; [via_op s d0 o] rewrites every path argument of [o] that way. *)
Definition via (s : st) (d0 dirfd : Z) (p : path) : Z * path :=
  match getfd s dirfd with
  | Some e => match fe_kind e with KDir name => (d0, name ++ p) | _ => (dirfd, p) end
  | None => (dirfd, p)
  end.
Definition via_op (s : st) (d0 : Z) (o : op) : op :=
  match o with
  | PathOpen d p ofl fdf r => let '(d', p') := via s d0 d p in PathOpen d' p' ofl fdf r
  | Mkdir d p => let '(d', p') := via s d0 d p in Mkdir d' p'
  | Rmdir d p => let '(d', p') := via s d0 d p in Rmdir d' p'
  | Unlink d p => let '(d', p') := via s d0 d p in Unlink d' p'
  | Stat d p => let '(d', p') := via s d0 d p in Stat d' p'
  | Rename d p d2 q => let '(d', p') := via s d0 d p in let '(d2', q') := via s d0 d2 q in Rename d' p' d2' q'
  | _ => o
  end.

(* ---- correspondence (same shape as FsModel.check_case / mismatches) ---- *)
Definition case_sl := (list sop * list obs * list hnode)%type.
(* -1 agree; j >= 0 first differing observation; -2 final trees differ *)
Definition check_case_sl (c : case_sl) : Z :=
  let '(ops, observed, htree) := c in
  let '(s, outs) := run_sl st_init ops in
  let d := first_diff 0 outs observed in
  if negb (d =? -1) then d
  else if tree_sub (model_tree s) htree && tree_sub htree (model_tree s) && (len htree =? len (s_tree s)) then -1 else -2.
Fixpoint mismatches_sl (i : Z) (cs : list case_sl) : list (Z * Z) :=
  match cs with
  | [] => []
  | c :: r => let d := check_case_sl c in
              if d =? -1 then mismatches_sl (i + 1) r else (i, d) :: mismatches_sl (i + 1) r
  end.
