(* C17 — read-only mounts (WithReadOnlyDirMount) and Go fs.FS mounts (WithFSMount) cannot be modified by the guest.
   Only statements, `exact <lemma>` and Print Assumptions live here.
   [openFlags] (imports/wasi_snapshot_preview1/fs.go) and [toOsOpenFlag] (internal/sysfs/oflag.go, open_file_linux.go)
   are coq/Gen definitions regenerated from the working tree on every run; [rfs_guard], [rfs_open], [fs_fsop],
   [readfile_op], [wstep] are the transcriptions of internal/sysfs/readfs.go, adapter.go, file.go and of the WASI
   host functions in coq/Sys/ReadOnly.v; [host_open] etc. are the Linux side (creates on O_CREAT, empties on O_TRUNC
   whatever the access mode; futimens works on read-only descriptors).
   [k] ranges over the three mounts: ReadFS{DirFS}, AdaptFS{os.DirFS}, AdaptFS{fstest.MapFS}.
   All integer arguments range over ALL of Z: the model truncates them like the Go conversions (wrap 16 / wrap 32). *)
From Coq Require Import String.
From Verif Require Import Lib.GoInt Gen.GenC17Wasi Gen.GenC17Sysfs Gen.GenC17Sys Sys.ReadOnly Proofs.ReadOnlyP.
From Verif Require Gen.GenC17Wasip1.
Open Scope Z_scope.

(* FS.OpenFile through either wrapper leaves the tree unchanged for EVERY flag value (defined bits or not) ... *)
Theorem C17_open_any_flag : forall k t now p flag, fst (fs_open k t now p flag) = t.
Proof. exact fs_open_nomut. Qed.
Print Assumptions C17_open_any_flag.

(* ... because a flag that passes the ReadFS guard reaches the host's open(2), through the translated
   toOsOpenFlag, without O_CREAT, without O_TRUNC and with access mode O_RDONLY *)
Theorem C17_guard_sound : forall flag, rfs_guard flag = 0 ->
  Z.land (toOsOpenFlag flag) LF_CREAT = 0 /\ Z.land (toOsOpenFlag flag) LF_TRUNC = 0 /\ lf_acc (toOsOpenFlag flag) = 0.
Proof. exact rfs_guard_host. Qed.
Print Assumptions C17_guard_sound.

(* path_open = openFlags o ReadFS.OpenFile (resp. AdaptFS.OpenFile): any dirflags, oflags, fdflags, rights,
   directory descriptor, path, tree and descriptor table *)
Theorem C17_open_never_mutates : forall now s dirfd dirflags oflags fdflags rights p, wf s ->
  s_tree (fst (wstep now s (WPathOpen dirfd dirflags oflags fdflags rights p))) = s_tree s.
Proof. exact open_never_mutates. Qed.
Print Assumptions C17_open_never_mutates.

(* what the guard answers on the translated openFlags, exactly, for all inputs (finite split over the bits the
   translated function tests, proved sound) ... *)
Theorem C17_open_errno_exact : forall d o f r,
  rfs_guard (openFlags (wrap 16 d) (wrap 16 o) (wrap 16 f) (wrap 32 r)) = open_guard_spec (wrap 16 o) (wrap 16 f) (wrap 32 r).
Proof. exact open_guard_exact. Qed.
Print Assumptions C17_open_errno_exact.

(* ... in particular FD_WRITE rights, O_CREAT and O_TRUNC never get past a read-only mount *)
Theorem C17_write_intent_refused : forall t now p d o f r,
  Z.land (wrap 32 r) 64 = 64 \/ Z.land (wrap 16 o) 1 <> 0 \/ Z.land (wrap 16 o) 8 <> 0 ->
  exists e, e <> 0 /\ rfs_open t now p (openFlags (wrap 16 d) (wrap 16 o) (wrap 16 f) (wrap 32 r)) = (t, (e, None)).
Proof. exact write_intent_refused. Qed.
Print Assumptions C17_write_intent_refused.

(* every mutating sys.FS method is refused without delegating: EROFS (ReadFS) / ENOSYS (AdaptFS) *)
Theorem C17_fs_methods_refuse : forall k t now o,
  fs_fsop k t now o = (t, match k with KRead => EROFS | _ => ENOSYS end).
Proof. exact fs_fsop_refused. Qed.
Print Assumptions C17_fs_methods_refuse.

(* every mutating sys.File method of readFile is refused without delegating, on any descriptor *)
Theorem C17_readfile_methods_refuse : forall t now h o,
  readfile_op t now h o =
  (t, match o with
      | FWrite _ _ | FPwrite _ _ | FTruncate _ => if h_isdir h then EISDIR else EBADF
      | _ => EBADF
      end).
Proof. exact readfile_op_refused. Qed.
Print Assumptions C17_readfile_methods_refuse.

(* every WASI call (path_open, fd_write, fd_pwrite, fd_allocate, fd_filestat_set_size, fd_filestat_set_times,
   fd_fdstat_set_flags, fd_sync, fd_datasync, path_create_directory, path_remove_directory, path_unlink_file,
   path_rename, path_link, path_symlink, path_filestat_set_times, reads, fd_close) with any arguments leaves the
   tree unchanged, and keeps every descriptor of the table O_RDONLY on the host *)
Theorem C17_ops_never_mutate : forall now s o, wf s ->
  s_tree (fst (wstep now s o)) = s_tree s /\ wf (fst (wstep now s o)).
Proof. exact ops_never_mutate. Qed.
Print Assumptions C17_ops_never_mutate.

(* by induction: after ANY sequence of calls the tree is the initial tree *)
Theorem C17_sequences : forall k t now ops,
  s_tree (wfinal now (init k t) ops) = t /\ s_tree (fst (wrun now (init k t) ops)) = t.
Proof. exact sequences_init. Qed.
Print Assumptions C17_sequences.

Theorem C17_sequences_any_state : forall now s ops, wf s ->
  s_tree (wfinal now s ops) = s_tree s /\ wf (wfinal now s ops).
Proof. exact sequences. Qed.
Print Assumptions C17_sequences_any_state.

(* reading keeps working: after any sequence of calls, a file of the initial tree can be opened for reading with any
   lookup flags below any open directory descriptor, and reading returns its content *)
Theorem C17_reads_work : forall k t now ops dirfd d p q data m pm n,
  let s := wfinal now (init k t) ops in
  at_path s dirfd p = inr q -> resolve t q = inr (NFile data m pm) ->
  Z.of_nat (length (s_fds s)) < 2 ^ 31 - 3 ->
  exists fd s',
    wstep now s (WPathOpen dirfd d 0 0 GenC17Wasip1.RIGHT_FD_READ p) = (s', (0, [fd])) /\
    s_tree s' = t /\
    snd (wstep now s' (WFdPread fd 0 n)) = (0, firstn (Z.to_nat n) data).
Proof. exact reads_work. Qed.
Print Assumptions C17_reads_work.
