(* C16 — WASI file operations behave like a POSIX-style reference model.
   Only statements, `exact <lemma>` and Print Assumptions live here. *)
From Verif Require Import Lib.GoInt Sys.DescTable Proofs.DescTableP.
Open Scope Z_scope.

(* ---- A. descriptor table (internal/descriptor/table.go) ----
   For EVERY sequence of Insert / InsertAt / Lookup / Delete / Reset with int32 keys, the bitmap
   implementation (masks []uint64 + items, trailing-zeros scan, grow policy) returns exactly what a
   finite map returns whose Insert picks the least free key; it never diverges; unless a panic
   occurred the final table is well formed (mask bit set <=> item present) and denotes the same map.
   Both sides panic in exactly one situation: Insert when all 2^31 keys are in use
   (abs_panic_full below), which the Go code turns into an index-out-of-range panic. *)
Theorem C16_table_refines_map : forall ops, Forall op_wf ops ->
  let '(t, outs) := run_impl ops empty_tbl in
  let '(a, outs') := run_abs ops [] in
  outs = outs' /\ ~ In OOutOfFuel outs /\
  (~ In OPanic outs -> wf t /\ forall k, view t k = alookup a k).
Proof. exact table_refines_map. Qed.
Print Assumptions C16_table_refines_map.

(* the abstract Insert is "lowest free": the key was unbound, every smaller key was bound *)
Theorem C16_table_insert_lowest_free : forall a v a' k ok, step_abs a (Insert v) = (a', OKey k ok) ->
  ok = true /\ 0 <= k < 2 ^ 31 /\ alookup a k = None /\ (forall j, 0 <= j < k -> alookup a j <> None) /\
  alookup a' k = Some v /\ (forall j, j <> k -> alookup a' j = alookup a j).
Proof. exact abs_insert_least. Qed.
Print Assumptions C16_table_insert_lowest_free.

Theorem C16_table_panic_only_when_full : forall a v a', step_abs a (Insert v) = (a', OPanic) ->
  forall j, 0 <= j < 2 ^ 31 -> alookup a j <> None.
Proof. exact abs_panic_full. Qed.
Print Assumptions C16_table_panic_only_when_full.
