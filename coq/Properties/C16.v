(* C16 — WASI file operations behave like a POSIX-style reference model.
   Only statements, `exact <lemma>` and Print Assumptions live here. *)
From Verif Require Import Lib.GoInt Gen.GenC16Wasip1 Sys.DescTable Proofs.DescTableP Sys.Dirent Proofs.DirentP
  Sys.FsModel Proofs.FsModelP Sys.FsSlash Proofs.FsSlashP Sys.FsNorm Proofs.FsNormP.
Open Scope Z_scope.

(* ---- A. descriptor table (internal/descriptor/table.go) ----
   For EVERY sequence of Insert / InsertAt / Lookup / Delete / Reset with int32 keys, the bitmap
   implementation (masks []uint64 + items, trailing-zeros scan, grow policy) returns exactly what a
   finite map returns whose Insert picks the least free key; it never diverges; unless a panic
   occurred the final table is well formed (mask bit set <=> item present) and denotes the same map.
   Both sides panic in exactly one situation: Insert when all 2^31 keys are in use
   (abs_panic_full below), which the Go code turns into an index-out-of-range panic. *)
Theorem C16_table_refines_map : forall ops, Forall op_wf ops ->
  let '(t, outs) := run_impl ops empty_tbl in
  let '(a, outs') := run_abs ops [] in
  outs = outs' /\ ~ In OOutOfFuel outs /\
  (~ In OPanic outs -> wf t /\ forall k, view t k = alookup a k).
Proof. exact table_refines_map. Qed.
Print Assumptions C16_table_refines_map.

(* the abstract Insert is "lowest free": the key was unbound, every smaller key was bound *)
Theorem C16_table_insert_lowest_free : forall a v a' k ok, step_abs a (Insert v) = (a', OKey k ok) ->
  ok = true /\ 0 <= k < 2 ^ 31 /\ alookup a k = None /\ (forall j, 0 <= j < k -> alookup a j <> None) /\
  alookup a' k = Some v /\ (forall j, j <> k -> alookup a' j = alookup a j).
Proof. exact abs_insert_least. Qed.
Print Assumptions C16_table_insert_lowest_free.

Theorem C16_table_panic_only_when_full : forall a v a', step_abs a (Insert v) = (a', OPanic) ->
  forall j, 0 <= j < 2 ^ 31 -> alookup a j <> None.
Proof. exact abs_panic_full. Qed.
Print Assumptions C16_table_panic_only_when_full.

(* ---- B. fd_readdir (fdReaddirFn / maxDirents / writeDirents over DirentCache.Read) ----
   Hypotheses: the directory does not change while it is read, has fewer than 2^62 entries and no
   name longer than largestDirent - 24 bytes (beyond which the Go code panics on purpose).
   [listing] is ".", "..", entries, each paired with d_next = index + 1. *)

(* Safety. For every directory and EVERY sequence of calls in which the guest either continues from
   the d_next of the last complete entry (Cont) or rewinds with cookie 0 (Rewind), with any buffer
   lengths >= 24: no call fails; the complete entries received since the last rewind are a prefix of
   the listing — nothing skipped, nothing duplicated, every d_next = index + 1 (the cookie the guest
   holds equals the number of entries it has); if the last call held back an entry that did not fit
   it said so with bufused = buf_len; and bufused < buf_len only ever means the whole listing was seen. *)
Theorem C16_readdir_prefix : forall dotIno dir cmds,
  Dirent.len dir < 2 ^ 62 -> Forall name_ok dir -> Forall cmd_ok cmds ->
  let s := client_run dotIno dir cmds in
  k_failed s = false /\
  k_acc s = firstn (length (k_acc s)) (listing dotIno dir) /\ k_cookie s = Dirent.len (k_acc s) /\
  (k_last_unfit s = true -> k_last_used s = k_last_len s) /\
  (k_last_used s < k_last_len s -> k_acc s = listing dotIno dir).
Proof. exact readdir_prefix. Qed.
Print Assumptions C16_readdir_prefix.

(* Liveness. When every buffer can hold the longest name, the wasi-libc style loop (call, collect the
   complete entries, stop when bufused < buf_len) ends within [entries + 3] calls with the whole listing. *)
Theorem C16_readdir_terminates : forall dotIno dir bufs,
  Dirent.len dir < 2 ^ 62 -> Forall name_ok dir ->
  (forall i, DirentSize + max_name dir <= bufs i < 2 ^ 32) ->
  client_loop dotIno dir (length dir + 3) bufs 0 client_init = Done (listing dotIno dir).
Proof. exact readdir_terminates. Qed.
Print Assumptions C16_readdir_terminates.

(* With buffers too small for some name the loop may make no progress (Example ex_headers_only),
   but it never fails and never holds anything but a prefix. *)
Theorem C16_readdir_loop_safe : forall dotIno dir bufs fuel,
  Dirent.len dir < 2 ^ 62 -> Forall name_ok dir -> (forall i, 24 <= bufs i < 2 ^ 32) ->
  match client_loop dotIno dir fuel bufs 0 client_init with
  | Failed => False
  | More acc => acc = firstn (length acc) (listing dotIno dir)
  | Done acc => acc = listing dotIno dir
  end.
Proof. exact readdir_loop_safe. Qed.
Print Assumptions C16_readdir_loop_safe.

(* ---- C. descriptors, file contents and directory changes (Sys/FsModel.v) ----
   FsModel is the reference model the real host functions are compared with on every run (stream
   "fs"); the theorems below are properties OF that model, for every state / operation sequence. *)

(* Descriptor lifecycle.
   (1) path_open hands out the lowest free descriptor (>= 0, unused, everything below in use),
       at offset 0, and touches no other descriptor;
   (2) a descriptor stays open on the same file with the same flags through ANY sequence of
       operations none of which closes it, renumbers it away, or renumbers another one onto it;
   (3) fd_renumber moves the entry (the target then is what the source was, the source is free,
       nothing else changes) and onto itself it is a no-op;
   (4) fd_close frees exactly that descriptor. *)
Theorem C16_fd_lifecycle :
  (forall s o s' fd, step s o = (s', OFd fd) ->
     0 <= fd /\ getfd s fd = None /\ (forall j, 0 <= j < fd -> getfd s j <> None) /\
     (exists e, getfd s' fd = Some e /\ fe_off e = 0) /\ (forall j, j <> fd -> getfd s' j = getfd s j)) /\
  (forall ops s fd e, getfd s fd = Some e -> Forall (not_releasing fd) ops ->
     exists e', getfd (final s ops) fd = Some e' /\ same_desc e e') /\
  (forall s a b s', fd_renumber s a b = (s', OOk) ->
     (a = b -> s' = s) /\
     (a <> b -> getfd s' b = getfd s a /\ getfd s' a = None /\
                (forall j, j <> a -> j <> b -> getfd s' j = getfd s j) /\
                s_tree s' = s_tree s /\ s_files s' = s_files s)) /\
  (forall s fd s', fd_close s fd = (s', OOk) ->
     getfd s' fd = None /\ (forall j, j <> fd -> getfd s' j = getfd s j) /\
     s_tree s' = s_tree s /\ s_files s' = s_files s).
Proof. exact (conj open_lowest_free (conj desc_valid_until_closed (conj renumber_moves close_releases))). Qed.
Print Assumptions C16_fd_lifecycle.

(* One consistent file content. For every operation sequence and every file (inode):
   (1) its bytes at the end are exactly the mutations performed through descriptors of that file
       (fd_write at the offset or, in append mode, at the end; fd_pwrite; fd_filestat_set_size; an open
       with O_TRUNC or creation), applied in order to one byte string — no other operation, on any
       other file, descriptor or directory, changes them ([file_effect] is None);
   (2)/(3) whatever fd_read / fd_pread return through ANY descriptor is a slice of that one byte
       string, at the descriptor's own offset resp. the given offset, and fd_read advances the offset
       by the bytes read while fd_pread changes nothing. *)
Theorem C16_file_content_consistent :
  (forall ops s ino, content (final s ops) ino = fold_left apply_mut (effects s ops ino) (content s ino)) /\
  (forall s fd lens d, snd (step s (FdRead fd lens)) = OData d ->
     (sum lens = 0 /\ d = []) \/
     exists ino e, fd_of s fd ino = Some e /\ fe_r e = true /\ d = sub (content s ino) (fe_off e) (sum lens) /\
                   exists e', getfd (fst (step s (FdRead fd lens))) fd = Some e' /\ fe_off e' = fe_off e + len d) /\
  (forall s fd lens off d, snd (step s (FdPread fd lens off)) = OData d ->
     fst (step s (FdPread fd lens off)) = s /\
     ((sum lens = 0 /\ d = []) \/
      exists ino e, fd_of s fd ino = Some e /\ fe_r e = true /\ 0 <= off /\ d = sub (content s ino) off (sum lens))).
Proof. exact (conj file_history (conj read_sees_content pread_sees_content)). Qed.
Print Assumptions C16_file_content_consistent.

(* the byte-string operations mean what POSIX says, byte by byte (bytes beyond the end read as 0) *)
Theorem C16_file_bytes_pointwise :
  (forall b off n, 0 <= off -> 0 <= n ->
     len (sub b off n) = Z.max 0 (Z.min n (len b - off)) /\
     forall i, 0 <= i < len (sub b off n) -> bget (sub b off n) i = bget b (off + i)) /\
  (forall b off d, 0 <= off ->
     len (write_at b off d) = Z.max (len b) (off + len d) /\
     forall i, 0 <= i -> bget (write_at b off d) i = if (off <=? i) && (i <? off + len d) then bget d (i - off) else bget b i) /\
  (forall b n, 0 <= n ->
     len (resize b n) = n /\ forall i, 0 <= i -> bget (resize b n) i = if i <? n then bget b i else 0).
Proof. exact (conj sub_spec (conj write_at_spec resize_spec)). Qed.
Print Assumptions C16_file_bytes_pointwise.

(* a write through one descriptor is what any readable descriptor of the same file reads back *)
Theorem C16_file_write_then_read : forall s fd1 fd2 ino e1 e2 d,
  fd_of s fd1 ino = Some e1 -> fe_w e1 = true -> fd_of s fd2 ino = Some e2 -> fe_r e2 = true ->
  len d <> 0 -> 0 <= fe_off e1 ->
  let pos := if fe_app e1 then len (content s ino) else fe_off e1 in
  let s1 := fst (step s (FdWrite fd1 [d])) in
  snd (step s1 (FdPread fd2 [len d] pos)) = OData d.
Proof. exact write_then_pread. Qed.
Print Assumptions C16_file_write_then_read.

(* Directory changes are visible to later lookups: after a successful mkdir / creating open the path
   stats as a directory / empty file; after unlink / rmdir it stats ENOENT; after a rename the target
   stats as what the source was, the source stats ENOENT, the whole subtree moved and every unrelated
   path is untouched; none of them changes descriptors or file contents (so an unlinked or renamed
   file stays readable through its open descriptors); and every tree reachable from the initial state
   is well formed (ancestors of an entry are directories), which the rename statement assumes. *)
Theorem C16_dir_visibility :
  (forall s d p s', mkdir s d p = (s', OOk) ->
     stat s' d p = (s', OStat FILETYPE_DIRECTORY 0) /\
     (exists b, base s d = inr b /\ s_tree s' = (b ++ p, NDir) :: s_tree s /\ tlookup (s_tree s) (b ++ p) = None) /\
     s_fds s' = s_fds s /\ s_files s' = s_files s) /\
  (forall s d p ofl fdf r s' fd, path_open s d p ofl fdf r = (s', OFd fd) ->
     (exists b, base s d = inr b /\ resolve (s_tree s) (b ++ p) = RFree) ->
     stat s' d p = (s', OStat FILETYPE_REGULAR_FILE 0)) /\
  (forall s d p s', unlink s d p = (s', OOk) ->
     stat s' d p = (s', OErr ErrnoNoent) /\
     (exists b, base s d = inr b /\ s_tree s' = tremove (s_tree s) (b ++ p)) /\
     s_fds s' = s_fds s /\ s_files s' = s_files s) /\
  (forall s d p s', rmdir s d p = (s', OOk) ->
     stat s' d p = (s', OErr ErrnoNoent) /\
     (exists b, base s d = inr b /\ s_tree s' = tremove (s_tree s) (b ++ p) /\ has_child (s_tree s) (b ++ p) = false) /\
     s_fds s' = s_fds s /\ s_files s' = s_files s) /\
  (forall s d p d2 q s', rename s d p d2 q = (s', OOk) -> wf_tree (s_tree s) ->
     exists b1 b2, base s d = inr b1 /\ base s d2 = inr b2 /\
       let a := b1 ++ p in let b := b2 ++ q in
       (a = b -> s' = s) /\
       (a <> b ->
          (forall x, tlookup (s_tree s') x =
                     if is_prefix b x then tlookup (s_tree s) (a ++ skipn (length b) x)
                     else if is_prefix a x then None else tlookup (s_tree s) x) /\
          (exists na, tlookup (s_tree s) a = Some na /\ stat s' d2 q = (s', stat_of s na)) /\
          stat s' d p = (s', OErr ErrnoNoent)) /\
       s_fds s' = s_fds s /\ s_files s' = s_files s) /\
  (forall ops, wf_tree (s_tree (final st_init ops))).
Proof.
  exact (conj mkdir_visible (conj create_visible (conj unlink_visible (conj rmdir_visible
        (conj rename_visible (fun ops => reachable_wf ops st_init wf_init)))))).
Qed.
Print Assumptions C16_dir_visibility.

(* ---- C'. path arguments ending in '/', and paths relative to a directory descriptor (Sys/FsSlash.v) ----
   [step_sl s o t1 t2] is the call [o] whose first / second path argument ends in '/' iff t1 / t2.
   It is what the fs stream compares the real host functions with. *)

(* A trailing slash never adds behaviour: the call either behaves exactly like the call without the slash,
   or it fails and changes nothing. (Without flags step_sl is step.) *)
Theorem C16_trailing_slash_refines : forall s o t1 t2,
  step_sl s o t1 t2 = step s o \/ exists e, step_sl s o t1 t2 = (s, OErr e).
Proof. exact slash_refines. Qed.
Print Assumptions C16_trailing_slash_refines.

(* A name with a trailing slash only ever reaches a directory:
   path_open succeeds only on an existing directory — the new descriptor is a directory descriptor and
   nothing was created or truncated; path_filestat_get only answers "directory"; path_unlink_file never
   succeeds; path_create_directory creates a directory where nothing was; path_remove_directory removes a
   directory; path_rename succeeds only when the source is a directory — or, wazero, as the no-op on two
   identical names. *)
Theorem C16_trailing_slash_only_dirs :
  (forall s d p ofl fdf r t2 s' fd, step_sl s (PathOpen d p ofl fdf r) true t2 = (s', OFd fd) ->
     exists b, base s d = inr b /\ node_at (s_tree s) (b ++ p) = Some NDir /\
       s_tree s' = s_tree s /\ s_files s' = s_files s /\ s_next s' = s_next s /\
       exists e, getfd s' fd = Some e /\ fe_kind e = KDir (b ++ p)) /\
  (forall s d p t2 s' ft sz, step_sl s (Stat d p) true t2 = (s', OStat ft sz) ->
     s' = s /\ ft = FILETYPE_DIRECTORY /\ exists b, base s d = inr b /\ node_at (s_tree s) (b ++ p) = Some NDir) /\
  (forall s d p t2, snd (step_sl s (Unlink d p) true t2) <> OOk) /\
  (forall s d p t1 t2 s', step_sl s (Mkdir d p) t1 t2 = (s', OOk) ->
     exists b, base s d = inr b /\ tlookup (s_tree s) (b ++ p) = None /\ tlookup (s_tree s') (b ++ p) = Some NDir) /\
  (forall s d p t1 t2 s', step_sl s (Rmdir d p) t1 t2 = (s', OOk) ->
     exists b, base s d = inr b /\ tlookup (s_tree s) (b ++ p) = Some NDir) /\
  (forall s d p d2 q t1 t2 s', t1 || t2 = true -> step_sl s (Rename d p d2 q) t1 t2 = (s', OOk) ->
     exists b1 b2, base s d = inr b1 /\ base s d2 = inr b2 /\
       ((t1 = true /\ t2 = true /\ b1 ++ p = b2 ++ q /\ s' = s) \/ tlookup (s_tree s) (b1 ++ p) = Some NDir)).
Proof.
  exact (conj sl_open_only_dir (conj sl_stat_only_dir (conj sl_unlink_never (conj sl_mkdir_dir
        (conj sl_rmdir_dir sl_rename_only_dir))))).
Qed.
Print Assumptions C16_trailing_slash_only_dirs.

(* ... and on a directory (or a missing name) the slash is invisible: "dir/" is "dir". *)
Theorem C16_trailing_slash_dir_transparent :
  (forall s d p ofl fdf r t2 b, base s d = inr b ->
     (forall ino, resolve (s_tree s) (b ++ p) <> RNode (NFile ino)) -> bit ofl O_CREAT = false ->
     step_sl s (PathOpen d p ofl fdf r) true t2 = step s (PathOpen d p ofl fdf r)) /\
  (forall s d p t2 b, base s d = inr b -> (forall ino, resolve (s_tree s) (b ++ p) <> RNode (NFile ino)) ->
     step_sl s (Stat d p) true t2 = step s (Stat d p) /\ step_sl s (Unlink d p) true t2 = step s (Unlink d p)) /\
  (forall s d p t1 t2, step_sl s (Mkdir d p) t1 t2 = step s (Mkdir d p) /\ step_sl s (Rmdir d p) t1 t2 = step s (Rmdir d p)) /\
  (forall s d p d2 q t1 t2 b1 b2, base s d = inr b1 -> base s d2 = inr b2 ->
     resolve (s_tree s) (b1 ++ p) = RNode NDir -> resolve (s_tree s) (b2 ++ q) <> RNoent -> resolve (s_tree s) (b2 ++ q) <> RNotdir ->
     step_sl s (Rename d p d2 q) t1 t2 = step s (Rename d p d2 q)).
Proof. exact slash_dir_transparent. Qed.
Print Assumptions C16_trailing_slash_dir_transparent.

(* Descriptor-relative resolution is prefixing, nothing else. In every state, a path operation through a
   directory descriptor whose entry is [KDir name] gives the same result and the same next state as the
   same operation through the pre-open with [name ++ p], with the same trailing-slash flags.
   [via_op s d0 o] rewrites every path argument of [o] that way (both arguments of a rename, independently). *)
Theorem C16_dirfd_relative :
  (forall s d0 e0 o t1 t2, getfd s d0 = Some e0 -> fe_kind e0 = KPre ->
     step_sl s (via_op s d0 o) t1 t2 = step_sl s o t1 t2) /\
  (forall s d0 e0 d e name, getfd s d0 = Some e0 -> fe_kind e0 = KPre -> getfd s d = Some e -> fe_kind e = KDir name ->
     forall p t1 t2,
       (forall ofl fdf r, step_sl s (PathOpen d p ofl fdf r) t1 t2 = step_sl s (PathOpen d0 (name ++ p) ofl fdf r) t1 t2) /\
       step_sl s (Mkdir d p) t1 t2 = step_sl s (Mkdir d0 (name ++ p)) t1 t2 /\
       step_sl s (Rmdir d p) t1 t2 = step_sl s (Rmdir d0 (name ++ p)) t1 t2 /\
       step_sl s (Unlink d p) t1 t2 = step_sl s (Unlink d0 (name ++ p)) t1 t2 /\
       step_sl s (Stat d p) t1 t2 = step_sl s (Stat d0 (name ++ p)) t1 t2 /\
       (forall q, step_sl s (Rename d p d q) t1 t2 = step_sl s (Rename d0 (name ++ p) d0 (name ++ q)) t1 t2)).
Proof. exact (conj dirfd_relative dirfd_relative_explicit). Qed.
Print Assumptions C16_dirfd_relative.

(* Reachable states. Every state reached by [run_sl] is reached by [run] on the sub-sequence of calls that the
   guard did not reject ([accepted], an explicit filter that follows the run), with the same observations at
   those positions; so every invariant of the states reachable by [run] (C16_fd_lifecycle,
   C16_file_content_consistent, C16_dir_visibility) carries over — e.g. the tree stays well formed.
   Without flags [run_sl] is [run]. *)
Theorem C16_trailing_slash_reachable :
  (forall l s, final_sl s l = final s (accepted s l)) /\
  (forall l s, fst (run_sl s l) = fst (run s (accepted s l)) /\
               accepted_obs s l (snd (run_sl s l)) = snd (run s (accepted s l))) /\
  (forall l s, (length (accepted s l) <= length l)%nat) /\
  (forall ops s, run_sl s (map (fun o => (o, false, false)) ops) = run s ops) /\
  (forall l, wf_tree (s_tree (final_sl st_init l))).
Proof.
  exact (conj reachable_sl (conj run_sl_accepted (conj accepted_sub (conj run_sl_noflags reachable_sl_wf)))).
Qed.
Print Assumptions C16_trailing_slash_reachable.

(* ---- C''. path arguments that are not clean: ".", "..", empty components, a leading '/' (Sys/FsNorm.v) ----
   [norm rooted cs] is atPath's path.Clean + fs.ValidPath on the components of the raw string; [step_n] applies
   it in front of step_sl and is what the fs stream compares the real host functions with.
   (1) a clean path is left alone, and a call with a clean raw path is the call of part C' (a path that normalises
       to the directory of the descriptor itself is handed on as "." and must be a directory: FsNorm.tflag);
   (2) "." and empty components are invisible and "name/.." cancels, wherever they stand;
   (3) the path is refused exactly when it is rooted or some prefix has more ".." than names — it can never
       name anything outside the directory of its descriptor — and then the call fails with EPERM and changes
       nothing, whatever the descriptor is;
   (4) the normalisation is lexical (wazero; it never consults the file system), POSIX resolves one component
       at a time: whenever the POSIX walk [pwalk] below a directory succeeds, [norm] names the same node; the
       converse fails (Examples ex_posix_vs_lexical in Proofs/FsNormP.v: "missing/../a", "file/.");
   (5) every call either is one FsModel operation or fails and changes nothing; the states [run_n] reaches are
       reached by [run] on those operations ([effective_ops]), so the invariants of part C carry over. *)
Theorem C16_path_normalisation :
  (forall p, norm false (map CName p) = Some p) /\
  (forall s k d p t, p <> [] -> step_n s (NRaw k d false (map CName p) t) = step_sl s (mk1 k d p) t false) /\
  (forall s d1 p t1 d2 q t2,
     step_n s (NRename d1 false (map CName p) t1 d2 false (map CName q) t2) = step_sl s (Rename d1 p d2 q) t1 t2) /\
  (forall stack a b, clean stack (a ++ CDot :: b) = clean stack (a ++ b) /\ clean stack (a ++ CEmpty :: b) = clean stack (a ++ b)) /\
  (forall stack a n b, clean stack (a ++ CName n :: CDotDot :: b) = clean stack (a ++ b)) /\
  (forall rooted cs, norm rooted cs = None <->
     rooted = true \/ exists k, (k <= length cs)%nat /\ (nnames (firstn k cs) < ndotdot (firstn k cs))%nat) /\
  (forall s k d rooted cs t, norm rooted cs = None -> step_n s (NRaw k d rooted cs t) = (s, OErr ErrnoPerm)) /\
  (forall t b cs st', pwalk t b [] cs = Some st' -> norm false cs = Some (rev st')) /\
  (forall s x, (exists o, effective s x = Some o /\ step_n s x = step s o) \/
               (effective s x = None /\ exists e, step_n s x = (s, OErr e))) /\
  (forall l s, final_n s l = final s (effective_ops s l)) /\
  (forall l, wf_tree (s_tree (final_n st_init l))).
Proof.
  exact (conj norm_clean (conj step_n_clean (conj step_n_rename_clean (conj clean_dot (conj clean_dotdot
        (conj norm_none (conj step_n_escape (conj pwalk_clean (conj step_n_refines (conj reachable_n reachable_n_wf)))))))))).
Qed.
Print Assumptions C16_path_normalisation.
