(* C16 — WASI file operations behave like a POSIX-style reference model.
   Only statements, `exact <lemma>` and Print Assumptions live here. *)
From Verif Require Import Lib.GoInt Gen.GenC16Wasip1 Sys.DescTable Proofs.DescTableP Sys.Dirent Proofs.DirentP.
Open Scope Z_scope.

(* ---- A. descriptor table (internal/descriptor/table.go) ----
   For EVERY sequence of Insert / InsertAt / Lookup / Delete / Reset with int32 keys, the bitmap
   implementation (masks []uint64 + items, trailing-zeros scan, grow policy) returns exactly what a
   finite map returns whose Insert picks the least free key; it never diverges; unless a panic
   occurred the final table is well formed (mask bit set <=> item present) and denotes the same map.
   Both sides panic in exactly one situation: Insert when all 2^31 keys are in use
   (abs_panic_full below), which the Go code turns into an index-out-of-range panic. *)
Theorem C16_table_refines_map : forall ops, Forall op_wf ops ->
  let '(t, outs) := run_impl ops empty_tbl in
  let '(a, outs') := run_abs ops [] in
  outs = outs' /\ ~ In OOutOfFuel outs /\
  (~ In OPanic outs -> wf t /\ forall k, view t k = alookup a k).
Proof. exact table_refines_map. Qed.
Print Assumptions C16_table_refines_map.

(* the abstract Insert is "lowest free": the key was unbound, every smaller key was bound *)
Theorem C16_table_insert_lowest_free : forall a v a' k ok, step_abs a (Insert v) = (a', OKey k ok) ->
  ok = true /\ 0 <= k < 2 ^ 31 /\ alookup a k = None /\ (forall j, 0 <= j < k -> alookup a j <> None) /\
  alookup a' k = Some v /\ (forall j, j <> k -> alookup a' j = alookup a j).
Proof. exact abs_insert_least. Qed.
Print Assumptions C16_table_insert_lowest_free.

Theorem C16_table_panic_only_when_full : forall a v a', step_abs a (Insert v) = (a', OPanic) ->
  forall j, 0 <= j < 2 ^ 31 -> alookup a j <> None.
Proof. exact abs_panic_full. Qed.
Print Assumptions C16_table_panic_only_when_full.

(* ---- B. fd_readdir (fdReaddirFn / maxDirents / writeDirents over DirentCache.Read) ----
   Hypotheses: the directory does not change while it is read, has fewer than 2^62 entries and no
   name longer than largestDirent - 24 bytes (beyond which the Go code panics on purpose).
   [listing] is ".", "..", entries, each paired with d_next = index + 1. *)

(* Safety. For every directory and EVERY sequence of calls in which the guest either continues from
   the d_next of the last complete entry (Cont) or rewinds with cookie 0 (Rewind), with any buffer
   lengths >= 24: no call fails; the complete entries received since the last rewind are a prefix of
   the listing — nothing skipped, nothing duplicated, every d_next = index + 1 (the cookie the guest
   holds equals the number of entries it has); if the last call held back an entry that did not fit
   it said so with bufused = buf_len; and bufused < buf_len only ever means the whole listing was seen. *)
Theorem C16_readdir_prefix : forall dotIno dir cmds,
  Dirent.len dir < 2 ^ 62 -> Forall name_ok dir -> Forall cmd_ok cmds ->
  let s := client_run dotIno dir cmds in
  k_failed s = false /\
  k_acc s = firstn (length (k_acc s)) (listing dotIno dir) /\ k_cookie s = Dirent.len (k_acc s) /\
  (k_last_unfit s = true -> k_last_used s = k_last_len s) /\
  (k_last_used s < k_last_len s -> k_acc s = listing dotIno dir).
Proof. exact readdir_prefix. Qed.
Print Assumptions C16_readdir_prefix.

(* Liveness. When every buffer can hold the longest name, the wasi-libc style loop (call, collect the
   complete entries, stop when bufused < buf_len) ends within [entries + 3] calls with the whole listing. *)
Theorem C16_readdir_terminates : forall dotIno dir bufs,
  Dirent.len dir < 2 ^ 62 -> Forall name_ok dir ->
  (forall i, DirentSize + max_name dir <= bufs i < 2 ^ 32) ->
  client_loop dotIno dir (length dir + 3) bufs 0 client_init = Done (listing dotIno dir).
Proof. exact readdir_terminates. Qed.
Print Assumptions C16_readdir_terminates.

(* With buffers too small for some name the loop may make no progress (Example ex_headers_only),
   but it never fails and never holds anything but a prefix. *)
Theorem C16_readdir_loop_safe : forall dotIno dir bufs fuel,
  Dirent.len dir < 2 ^ 62 -> Forall name_ok dir -> (forall i, 24 <= bufs i < 2 ^ 32) ->
  match client_loop dotIno dir fuel bufs 0 client_init with
  | Failed => False
  | More acc => acc = firstn (length acc) (listing dotIno dir)
  | Done acc => acc = listing dotIno dir
  end.
Proof. exact readdir_loop_safe. Qed.
Print Assumptions C16_readdir_loop_safe.
