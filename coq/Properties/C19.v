(* C19 — configuration values are immutable.
   Only statements, `exact <lemma>` and Print Assumptions live here.
   Model: Rt/Config.v, a hand transcription of config.go, fsconfig.go, internal/sock/sock.go and of the use
   InstantiateModule (runtime.go) makes of its ModuleConfig, over a Go heap (slices = (array, len, cap) with
   in-place append; maps and pointers by reference).  [grow] is the capacity append picks when it must
   reallocate: an arbitrary function; Go's policy is not modelled.
   ext h h' := exists t, h' = h ++ t      (the old heap is a prefix of the new one)
   view h n := the struct of node n bit for bit plus the contents of everything reachable from it. *)
From Coq Require Import List ZArith Bool Arith.
From Verif Require Import Rt.Config Proofs.ConfigP.
Import ListNotations.

(* every operation (each With... method of the four configuration types, the constructors, InstantiateModule,
   NewRuntimeWithConfig), with any arguments, on ANY heap and for ANY growth function (no hypothesis):
   the old heap is a prefix of the new one and the nodes made so far are kept *)
Theorem C19_frame : forall (grow : nat -> nat -> nat) (st : state) (o : op),
  ext (st_heap st) (st_heap (step grow st o)) /\ exists l, st_nodes (step grow st o) = st_nodes st ++ l.
Proof. exact step_frame. Qed.
Print Assumptions C19_frame.

(* the same, cell by cell: a derivation writes only cells it allocated during the call *)
Theorem C19_frame_cells : forall (grow : nat -> nat -> nat) (st : state) (o : op) (a : nat) (c : cell),
  nth_error (st_heap st) a = Some c -> nth_error (st_heap (step grow st o)) a = Some c.
Proof. exact frame_cells. Qed.
Print Assumptions C19_frame_cells.

(* every growth policy, every sequence of operations each applied to ANY earlier node (ops1), every later
   sequence (ops2): each node that existed after ops1 is still the same node and has the same deep view *)
Theorem C19_derivation_tree : forall (grow : nat -> nat -> nat), (forall l n, n <= grow l n) ->
  forall (ops1 ops2 : list op) (i : nat) (n : node),
    nth_error (st_nodes (run grow init ops1)) i = Some n ->
    nth_error (st_nodes (run grow init (ops1 ++ ops2))) i = Some n /\
    view (st_heap (run grow init (ops1 ++ ops2))) n = view (st_heap (run grow init ops1)) n.
Proof. exact derivation_tree. Qed.
Print Assumptions C19_derivation_tree.

(* ... and those views are views of something: never the `None` of a dangling or ill-typed reference *)
Theorem C19_views_defined : forall (grow : nat -> nat -> nat), (forall l n, n <= grow l n) ->
  forall (ops : list op) (n : node), In n (st_nodes (run grow init ops)) ->
    match view (st_heap (run grow init ops)) n with VR None | VM None | VF None | VS None => False | _ => True end.
Proof. exact reachable_views_defined. Qed.
Print Assumptions C19_views_defined.

(* InstantiateModule with any node of any tree, with or without a sock config in the context: no node is
   added or changed, the call does not panic, the old heap is a prefix of the new one *)
Theorem C19_instantiate_pure : forall (grow : nat -> nat -> nat), (forall l n, n <= grow l n) ->
  forall (ops : list op) (i : nat) (sock : option nat),
    let st := run grow init ops in
    let st' := step grow st (OInstantiate i sock) in
    st_nodes st' = st_nodes st /\ panics grow st (OInstantiate i sock) = false /\
    ext (st_heap st) (st_heap st') /\
    forall n, In n (st_nodes st) -> view (st_heap st') n = view (st_heap st) n.
Proof. exact instantiate_pure. Qed.
Print Assumptions C19_instantiate_pure.

(* no operation on a node of a derivation tree panics (nil dereference, index out of range), except the two
   calls that panic whatever the receiver: WithMemoryLimitPages above 65536 (documented) and
   With[ReadOnly]DirMount with an empty host directory (sysfs.DirFS indexes dir[len(dir)-1]) *)
Theorem C19_no_panic : forall (grow : nat -> nat -> nat), (forall l n, n <= grow l n) ->
  forall (ops : list op) (o : op),
    panics grow (run grow init ops) o = true -> known_panic o = true.
Proof. exact no_panic. Qed.
Print Assumptions C19_no_panic.

(* the growth hypothesis is satisfiable (three policies used by the correspondence run) *)
Theorem C19_growth_policies_ok :
  (forall l n, n <= grow_tight l n) /\ (forall l n, n <= grow_double l n) /\ (forall l n, n <= grow_roomy l n).
Proof. exact (conj grow_tight_ok (conj grow_double_ok grow_roomy_ok)). Qed.
Print Assumptions C19_growth_policies_ok.

(* non-vacuity: on the code as it was BEFORE "fix: moduleConfig.clone must copy environ" the same kind of tree
   aliases under Go-like doubling: deriving a second child rewrites the first one's environment *)
Theorem C19_withenv_alias_before_fix :
  let '(h4, n4) := tree_env_before 4 in
  let '(h5, n5) := tree_env_before 5 in
  environ_of h4 (NM (nth 4 n4 0)) = [11; 21; 12; 22; 13; 23; 14; 100]%Z /\
  environ_of h5 (NM (nth 4 n5 0)) = [11; 21; 12; 22; 13; 23; 14; 200]%Z.
Proof. exact tree_env_before_aliases. Qed.
Print Assumptions C19_withenv_alias_before_fix.

(* ... and BEFORE "fix: InstantiateModule must not write the sock config into the caller's ModuleConfig" the
   caller's struct was written *)
Theorem C19_instantiate_wrote_caller_before_fix :
  let st := run grow_double init tree_sock in
  match nth_node st 3, nth_node st 2 with
  | NM p, NS q =>
      sock_of (st_heap st) (NM p) = None /\
      option_map (fun h => sock_of h (NM p)) (instantiate_before (st_heap st) p (Some q)) = Some (Some q)
  | _, _ => False
  end.
Proof. exact instantiate_before_writes_caller. Qed.
Print Assumptions C19_instantiate_wrote_caller_before_fix.

(* the copy InstantiateModule works on (when the context carries a sock config) shows the guest exactly what
   the caller's configuration shows: same arguments, environment and pre-opened file systems *)
Theorem C19_instantiate_same_guest_view : forall (grow : nat -> nat -> nat), (forall l n, n <= grow l n) ->
  forall (ops : list op) (i p : nat) (c : mcfg) (sock : option nat) (h' : heap) g,
    let st := run grow init ops in
    nth_error (st_nodes st) i = Some (NM p) -> get_mc (st_heap st) p = Some c ->
    instantiate grow (st_heap st) p sock = Some (h', g) -> g = guest_view (st_heap st) c.
Proof. exact instantiate_same_guest_view. Qed.
Print Assumptions C19_instantiate_same_guest_view.
