(* C02 — guest memory accesses never leave the linear memory.
   PARTIAL: instruction selection/encoding after address-mode lowering, the register allocator and the native
   code are exercised by the C02 run (all widths, bases and static offsets over the whole 32-bit range incl.
   >= 2^31, memories from 1 page to just under 4 GiB, accesses placed around earlier checks, calls, memory.grow,
   block joins and loops, both engines versus W), not modelled; the known-safe-bound cache is modelled for one
   base value within straight-line code (the dataflow over block joins is exercised only). Proved here: *)
From Coq Require Import ZArith List Bool.
From Verif Require Import Lib.GoInt Gen.GenWasm Engine.Bounds Engine.Amode Wasm.Numerics Wasm.Sem Proofs.BoundsP Proofs.AmodeP Proofs.SemP.
Import ListNotations.
Open Scope Z_scope.

(* the check the compiler emits passes exactly when the access lies inside the memory: all 32-bit bases and
   static offsets, all access sizes, all memory lengths up to 4 GiB; no 64-bit overflow *)
Theorem C02_compiler_check_exact : forall memLen base off size,
  0 <= memLen <= 2 ^ 32 -> 0 <= base < 2 ^ 32 -> 0 <= off < 2 ^ 32 -> 0 < size <= 16 ->
  compiler_pass memLen base off size = true <-> base + off + size <= memLen.
Proof. exact compiler_check_exact. Qed.
Print Assumptions C02_compiler_check_exact.

(* the interpreter's test (popMemoryOffset + the go2coq translation of hasSize) is the same predicate *)
Theorem C02_interp_check_exact : forall memLen base off size,
  0 <= memLen <= 2 ^ 32 -> 0 <= base < 2 ^ 32 -> 0 <= off < 2 ^ 32 -> 0 < size <= 16 ->
  interp_pass memLen base off size = true <-> base + off + size <= memLen.
Proof. exact interp_check_exact. Qed.
Print Assumptions C02_interp_check_exact.

(* an access emitted without a check (bound already known for that base) is in bounds, also after growth *)
Theorem C02_elision_sound : forall memLen memLen' base off0 size0 off size,
  0 <= memLen <= 2 ^ 32 -> memLen <= memLen' -> 0 <= base < 2 ^ 32 ->
  0 <= off0 < 2 ^ 32 -> 0 < size0 <= 16 -> 0 <= off < 2 ^ 32 -> 0 < size <= 16 ->
  compiler_pass memLen base off0 size0 = true ->
  elided_pass (ceil64 off0 size0) off size = true ->
  base + off + size <= memLen'.
Proof. exact elided_access_in_bounds. Qed.
Print Assumptions C02_elision_sound.

(* amd64 address-mode folding (lowerToAddressMode with the F01 repair): for every pointer expression of the shape
   the frontend emits, every register valuation with zero-extended 32-bit values and every static offset below
   2^31, the x86 effective address equals the SSA value plus the offset modulo 2^64 *)
Theorem C02_amode_correct : forall rg e off,
  frontend_shape e = true -> zext_ok rg e -> wf_e e -> 0 <= off < 2147483648 ->
  eval_amode (lower_to_amode true rg e off) = w64 (ev rg e + off).
Proof. exact amode_correct_small_off. Qed.
Print Assumptions C02_amode_correct.

(* W: an in-bounds store changes exactly the addressed bytes; an out-of-bounds store traps *)
Theorem C02_store_exact : forall D ii s f n off v a stk ma m,
  stack f = v :: a :: stk -> the_mem D s ii = Some (ma, m) ->
  let ea := to_u32 D a + off in
  (ea + Z.of_nat n <= mlen m ->
     exists m', step_simple D ii s f (Store n off) = SOk (set_mems D s (upd (s_mems s) ma m')) (setstack D f stk) /\
                mlen m' = mlen m /\ mmax m' = mmax m /\
                forall x, rd (mdata m') x =
                  if (ea <=? x) && (x <? ea + Z.of_nat n) then (to_bits D v / 256 ^ (x - ea)) mod 256 else rd (mdata m) x) /\
  (mlen m < ea + Z.of_nat n -> step_simple D ii s f (Store n off) = STrap TOob).
Proof. exact store_exact. Qed.
Print Assumptions C02_store_exact.

(* W: a load reads exactly the addressed bytes or traps *)
Theorem C02_load_exact : forall D ii s f w n sx off a stk ma m,
  stack f = a :: stk -> the_mem D s ii = Some (ma, m) ->
  let ea := to_u32 D a + off in
  (ea + Z.of_nat n <= mlen m ->
     step_simple D ii s f (Load w n sx off) =
       SOk s (setstack D f (of_bits D w (if sx then sext n w (rd_le (mdata m) ea n) else rd_le (mdata m) ea n) :: stk))) /\
  (mlen m < ea + Z.of_nat n -> step_simple D ii s f (Load w n sx off) = STrap TOob).
Proof. exact load_exact. Qed.
Print Assumptions C02_load_exact.

(* W: a trapping access leaves memory (the whole store) unchanged *)
Theorem C02_trap_leaves_memory_unchanged : forall D host listened maxdepth fuel depth ii s f i rest t,
  step_simple D ii s f i = STrap t ->
  exec D host listened maxdepth (S fuel) depth ii s f (i :: rest) = Trap t s.
Proof. exact trap_keeps_store. Qed.
Print Assumptions C02_trap_leaves_memory_unchanged.
