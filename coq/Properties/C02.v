(* C02 — guest memory accesses never leave the linear memory.
   PARTIAL: instruction selection (which opcode / prefix / REX.W an instruction hands to the operand encoder), the
   register allocator and the native code are exercised by the C02 run (all widths, bases and static offsets over
   the whole 32-bit range incl. >= 2^31, memories from 1 page to just under 4 GiB, accesses placed around earlier
   checks, calls, memory.grow, block joins and loops, both engines versus W), not modelled. The four pieces of the
   compiler on which the property rests are modelled and tied DIRECTLY to the code (overlay wrappers,
   checks/c02_amode.py, checks/c02_elide.py, checks/c02_enc.py): the emitted bounds check (Engine/Bounds.v),
   lowerToAddressMode (Engine/Amode.v, compared with the real function on enumerated and random SSA trees), the
   known-safe-bounds cache as a dataflow analysis over control-flow graphs (Engine/Elide.v, compared with the real
   cache while the real frontend lowers generated functions) and the ENCODING of the memory operand (Engine/X86Enc.v:
   encodeEncMem / encodeEncEnc / the rip-relative label fix-up, against a decoder of the x86-64 instruction format
   written from the Intel SDM; theorems at the end of this file; compared byte for byte with the real encoder). A fourth stream (checks/c02_guard.py, harness/c02/guard*.go) runs ACCESS programs of every
   instruction family (plain, SIMD, atomic, bulk; loads feeding every kind of consumer directly) at the end of
   memories that are followed by an inaccessible page, in child processes, and compares every call with the
   byte-level model Engine/Access.v (theorems at the end of this file). Proved here: *)
From Coq Require Import ZArith List Bool.
From Verif Require Import Lib.GoInt Gen.GenWasm Engine.Bounds Engine.Amode Engine.Elide Engine.Access Engine.X86Enc Wasm.Numerics Wasm.Sem Proofs.BoundsP Proofs.AmodeP Proofs.ElideP Proofs.SemP Proofs.AccessP Proofs.X86EncP.
Import ListNotations.
Open Scope Z_scope.

(* the check the compiler emits passes exactly when the access lies inside the memory: all 32-bit bases and
   static offsets, all access sizes, all memory lengths up to 4 GiB; no 64-bit overflow *)
Theorem C02_compiler_check_exact : forall memLen base off size,
  0 <= memLen <= 2 ^ 32 -> 0 <= base < 2 ^ 32 -> 0 <= off < 2 ^ 32 -> 0 < size <= 16 ->
  compiler_pass memLen base off size = true <-> base + off + size <= memLen.
Proof. exact compiler_check_exact. Qed.
Print Assumptions C02_compiler_check_exact.

(* the interpreter's test (popMemoryOffset + the go2coq translation of hasSize) is the same predicate *)
Theorem C02_interp_check_exact : forall memLen base off size,
  0 <= memLen <= 2 ^ 32 -> 0 <= base < 2 ^ 32 -> 0 <= off < 2 ^ 32 -> 0 < size <= 16 ->
  interp_pass memLen base off size = true <-> base + off + size <= memLen.
Proof. exact interp_check_exact. Qed.
Print Assumptions C02_interp_check_exact.

(* an access emitted without a check (bound already known for that base) is in bounds, also after growth *)
Theorem C02_elision_sound : forall memLen memLen' base off0 size0 off size,
  0 <= memLen <= 2 ^ 32 -> memLen <= memLen' -> 0 <= base < 2 ^ 32 ->
  0 <= off0 < 2 ^ 32 -> 0 < size0 <= 16 -> 0 <= off < 2 ^ 32 -> 0 < size <= 16 ->
  compiler_pass memLen base off0 size0 = true ->
  elided_pass (ceil64 off0 size0) off size = true ->
  base + off + size <= memLen'.
Proof. exact elided_access_in_bounds. Qed.
Print Assumptions C02_elision_sound.

(* amd64 address-mode folding (lowerToAddressMode with the F01 repair): for every pointer expression, every
   register valuation and EVERY 32-bit static offset (those with the top bit set go through a constant
   materialised in a register) the x86 effective address equals the SSA value plus the offset modulo 2^64, provided
   the nodes the code pattern-matches (the pointer; under a single-use Iadd and an offset below 2^31 its two
   operands) are none of: sign extension of a register, 8/16-bit extension, sign extension of a 64-bit value, shift
   by a constant above 3 or by a variable amount (`lowerable`), and a matched zero extension reads a register
   whose upper half is clear (`zext_ok`). Everything below those nodes is unconstrained. *)
Theorem C02_amode_correct : forall rg e off,
  lowerable off e = true -> zext_ok rg off e -> 0 <= off < W32 ->
  eval_amode (lower_to_amode true rg e off) = w64 (ev rg e + off).
Proof. exact amode_correct. Qed.
Print Assumptions C02_amode_correct.

(* the frontend's image (memBase + zero-extended 32-bit address, table base + (index << k<=3), constants of any
   size, single- or multi-use nodes) lies inside that class, and the real function does not panic on it *)
Theorem C02_amode_correct_frontend : forall rg e off,
  frontend_shape e = true -> zext_all rg e -> 0 <= off < W32 ->
  eval_amode (lower_to_amode true rg e off) = w64 (ev rg e + off) /\ lower_panics e off = false.
Proof. exact amode_correct_frontend. Qed.
Print Assumptions C02_amode_correct_frontend.

(* The known-safe-bounds cache as a dataflow analysis. For EVERY control-flow graph g satisfying the decidable
   structural conditions wf_cfg (blocks in lowering order; the predecessors looked at when a block becomes current
   were lowered before it; predecessors added later — the back edges of Wasm loops — come from a region of blocks
   lowered after the header and entered only through it, and such a header is not sealed; a base value used in a
   block is not defined in a block lowered later (SSA values are created when they are lowered); every access names
   its own address value), EVERY execution path from the entry — through joins and around loops, with arbitrary
   new values for the values a block defines each time it is entered, the memory growing at any moment and moving at
   calls and memory.grow — and EVERY program point: each fact (v, bound, addr) the analysis holds there is backed by
   a bounds check of v with a ceiling >= bound that passed earlier on that path while v had its present value;
   hence v + bound <= current memory length; and a cached absolute address equals current memory base + v.
   wf_cfg is evaluated inside Coq on every graph the real frontend produced in the correspondence run. *)
Theorem C02_elision_sound_cfg : forall g p b k q f,
  Elide.wf_cfg g = true -> Elide.reach g (b :: p) k q -> In f (Elide.state_at g b k) ->
  (exists c, In c (Elide.s_log q) /\ Elide.p_v c = Elide.fv f /\ Elide.fb f <= Elide.p_ceil c /\ Elide.p_val c = Elide.s_env q (Elide.fv f) /\
             Elide.p_val c + Elide.p_ceil c <= Elide.p_mem c /\ Elide.p_mem c <= Elide.s_mem q) /\
  Elide.s_env q (Elide.fv f) + Elide.fb f <= Elide.s_mem q /\
  (forall A, Elide.fa f = Some A -> Elide.s_aenv q A = Elide.s_base q + Elide.s_env q (Elide.fv f)).
Proof. exact elision_sound_cfg. Qed.
Print Assumptions C02_elision_sound_cfg.

(* consequently every access of the emitted code — bounds check emitted or elided, absolute address re-used or
   recomputed — lies inside the current memory and goes through current base + value (the emitted check itself is
   C02_compiler_check_exact with ceil = offset + size) *)
Theorem C02_access_in_bounds_cfg : forall g p b k q v c a q',
  Elide.wf_cfg g = true -> Elide.reach g (b :: p) k q -> nth_error (Elide.b_events (Elide.blk g b)) k = Some (Elide.Access v c a) ->
  Elide.estep (Elide.state_at g b k) q (Elide.Access v c a) q' ->
  Elide.s_env q' v + c <= Elide.s_mem q' /\
  Elide.s_aenv q' (snd (fst (Elide.memop (Elide.state_at g b k) v c a))) = Elide.s_base q' + Elide.s_env q' v.
Proof. exact access_in_bounds_cfg. Qed.
Print Assumptions C02_access_in_bounds_cfg.

(* W: an in-bounds store changes exactly the addressed bytes; an out-of-bounds store traps *)
Theorem C02_store_exact : forall D ii s f n off v a stk ma m,
  stack f = v :: a :: stk -> the_mem D s ii = Some (ma, m) ->
  let ea := to_u32 D a + off in
  (ea + Z.of_nat n <= mlen m ->
     exists m', step_simple D ii s f (Store n off) = SOk (set_mems D s (upd (s_mems s) ma m')) (setstack D f stk) /\
                mlen m' = mlen m /\ mmax m' = mmax m /\
                forall x, rd (mdata m') x =
                  if (ea <=? x) && (x <? ea + Z.of_nat n) then (to_bits D v / 256 ^ (x - ea)) mod 256 else rd (mdata m) x) /\
  (mlen m < ea + Z.of_nat n -> step_simple D ii s f (Store n off) = STrap TOob).
Proof. exact store_exact. Qed.
Print Assumptions C02_store_exact.

(* W: a load reads exactly the addressed bytes or traps *)
Theorem C02_load_exact : forall D ii s f w n sx off a stk ma m,
  stack f = a :: stk -> the_mem D s ii = Some (ma, m) ->
  let ea := to_u32 D a + off in
  (ea + Z.of_nat n <= mlen m ->
     step_simple D ii s f (Load w n sx off) =
       SOk s (setstack D f (of_bits D w (if sx then sext n w (rd_le (mdata m) ea n) else rd_le (mdata m) ea n) :: stk))) /\
  (mlen m < ea + Z.of_nat n -> step_simple D ii s f (Load w n sx off) = STrap TOob).
Proof. exact load_exact. Qed.
Print Assumptions C02_load_exact.

(* W: a trapping access leaves memory (the whole store) unchanged *)
Theorem C02_trap_leaves_memory_unchanged : forall D host listened maxdepth fuel depth ii s f i rest t,
  step_simple D ii s f i = STrap t ->
  exec D host listened maxdepth (S fuel) depth ii s f (i :: rest) = Trap t s.
Proof. exact trap_keeps_store. Qed.
Print Assumptions C02_trap_leaves_memory_unchanged.

(* ================= the byte-level model of every kind of access (Engine/Access.v) =================
   `whole m` is a linear memory whose bytes are the list m (size = its length); `run` executes one access:
   OTrap, or ODone with the new memory and the bytes read. nthZ l i = nth (Z.to_nat i) l 0. *)

(* the model's bounds predicate on the 33-bit effective address is exactly the test each engine emits *)
Theorem C02_access_ok_is_the_engines_check : forall memLen base off size,
  0 <= memLen <= 2 ^ 32 -> 0 <= base < 2 ^ 32 -> 0 <= off < 2 ^ 32 -> 0 < size <= 16 ->
  compiler_pass memLen base off size = access_ok memLen (eff_addr base off) size /\
  interp_pass memLen base off size = access_ok memLen (eff_addr base off) size.
Proof. exact access_ok_is_the_engines_check. Qed.
Print Assumptions C02_access_ok_is_the_engines_check.

(* every load (plain, extending, v128, splat, zero, lane): in bounds -> exactly the n addressed bytes, memory as it
   was; out of bounds -> trap, memory unchanged *)
Theorem C02_load_bytes_exact : forall m ea n,
  (0 <= ea -> 0 <= n -> ea + n <= zlen m ->
     exists bs, run (whole m) (ALoad ea n) = ODone (whole m) bs /\ length bs = Z.to_nat n /\
                forall k, 0 <= k < n -> nth (Z.to_nat k) bs 0 = nth (Z.to_nat (ea + k)) m 0) /\
  (0 <= ea -> 0 <= n -> zlen m < ea + n ->
     run (whole m) (ALoad ea n) = OTrap AOob /\ mem_after (whole m) (ALoad ea n) = whole m).
Proof. exact load_bytes_exact. Qed.
Print Assumptions C02_load_bytes_exact.

(* (a) every store (plain, v128, lane) of any number of bytes: in bounds -> exactly [ea, ea+n) changes, the length
   stays; out of bounds -> trap, memory unchanged *)
Theorem C02_store_bytes_exact : forall m ea bs,
  (0 <= ea -> ea + zlen bs <= zlen m ->
     exists m', run (whole m) (AStore ea bs) = ODone (whole m') [] /\ length m' = length m /\
                forall x, 0 <= x -> nth (Z.to_nat x) m' 0 =
                  if (ea <=? x) && (x <? ea + zlen bs) then nth (Z.to_nat (x - ea)) bs 0 else nth (Z.to_nat x) m 0) /\
  (0 <= ea -> zlen m < ea + zlen bs ->
     run (whole m) (AStore ea bs) = OTrap AOob /\ mem_after (whole m) (AStore ea bs) = whole m).
Proof. exact store_bytes_exact. Qed.
Print Assumptions C02_store_bytes_exact.

(* (b) memory.fill / memory.copy / memory.init for ALL destinations, sources, lengths and memories: out of bounds
   (destination or source) -> trap and no byte written (no partial write); in bounds -> exactly the destination
   range changes and receives the source bytes as they were before the instruction (overlapping copies in both
   directions) *)
Theorem C02_bulk_trap_leaves_memory :
  (forall m d v n,
    (0 <= d -> 0 <= n -> d + n <= zlen m ->
       exists m', run (whole m) (AFill d v n) = ODone (whole m') [] /\ length m' = length m /\
                  forall x, 0 <= x -> nth (Z.to_nat x) m' 0 = if (d <=? x) && (x <? d + n) then v mod 256 else nth (Z.to_nat x) m 0) /\
    (0 <= d -> 0 <= n -> zlen m < d + n ->
       run (whole m) (AFill d v n) = OTrap AOob /\ mem_after (whole m) (AFill d v n) = whole m)) /\
  (forall m d s n,
    (0 <= d -> 0 <= s -> 0 <= n -> d + n <= zlen m -> s + n <= zlen m ->
       exists m', run (whole m) (ACopy d s n) = ODone (whole m') [] /\ length m' = length m /\
                  forall x, 0 <= x -> nth (Z.to_nat x) m' 0 =
                    if (d <=? x) && (x <? d + n) then nth (Z.to_nat (s + (x - d))) m 0 else nth (Z.to_nat x) m 0) /\
    (0 <= d -> 0 <= s -> 0 <= n -> zlen m < d + n \/ zlen m < s + n ->
       run (whole m) (ACopy d s n) = OTrap AOob /\ mem_after (whole m) (ACopy d s n) = whole m)) /\
  (forall m seg d s n,
    (0 <= d -> 0 <= s -> 0 <= n -> d + n <= zlen m -> s + n <= zlen seg ->
       exists m', run (whole m) (AInit seg d s n) = ODone (whole m') [] /\ length m' = length m /\
                  forall x, 0 <= x -> nth (Z.to_nat x) m' 0 =
                    if (d <=? x) && (x <? d + n) then nth (Z.to_nat (s + (x - d))) seg 0 else nth (Z.to_nat x) m 0) /\
    (0 <= d -> 0 <= s -> 0 <= n -> zlen m < d + n \/ zlen seg < s + n ->
       run (whole m) (AInit seg d s n) = OTrap AOob /\ mem_after (whole m) (AInit seg d s n) = whole m)).
Proof. exact bulk_exact. Qed.
Print Assumptions C02_bulk_trap_leaves_memory.

(* (c) whatever the access (any family), the memory and the window: every byte index the model reads or writes
   lies in [0, size) *)
Theorem C02_access_never_outside : forall m a x, In x (touched m a) -> 0 <= x < v_size m.
Proof. exact access_never_outside. Qed.
Print Assumptions C02_access_never_outside.

(* (d) atomics: a misaligned effective address traps (whatever the bounds), nothing is touched, memory unchanged;
   an aligned atomic load/store is the plain one; an aligned in-bounds read-modify-write returns the old bytes and
   rewrites exactly its n bytes *)
Theorem C02_atomic_misaligned_traps : forall m a ea n,
  atomic_ea_width a = Some (ea, n) -> ea mod n <> 0 ->
  (run m a = OTrap AUnaligned \/ run m a = OTrap AOob) /\ mem_after m a = m /\ touched m a = [].
Proof. exact atomic_misaligned_traps. Qed.
Print Assumptions C02_atomic_misaligned_traps.

(* ... and an atomic access (load, store, read-modify-write, compare-exchange, notify, wait) whose effective address
   plus width exceeds the size traps with the OUT-OF-BOUNDS error whatever its alignment, touching nothing *)
Theorem C02_atomic_out_of_bounds_traps : forall m a ea n,
  atomic_ea_width a = Some (ea, n) -> access_ok (v_size m) ea n = false ->
  run m a = OTrap AOob /\ mem_after m a = m /\ touched m a = [].
Proof. exact atomic_oob_traps. Qed.
Print Assumptions C02_atomic_out_of_bounds_traps.

Theorem C02_atomic_aligned_as_plain : forall m ea n bs,
  (ea mod n = 0 -> run m (AAtomLoad ea n) = run m (ALoad ea n)) /\
  (ea mod zlen bs = 0 -> run m (AAtomStore ea bs) = run m (AStore ea bs)).
Proof. exact atomic_aligned_as_plain. Qed.
Print Assumptions C02_atomic_aligned_as_plain.

Theorem C02_rmw_exact : forall m op ea n v,
  0 <= ea -> 0 < n -> ea mod n = 0 -> ea + n <= zlen m ->
  exists m', run (whole m) (ARmw op ea n v) = ODone (whole m') (sub m ea n) /\ length m' = length m /\
             (forall x, 0 <= x -> ~ (ea <= x < ea + n) -> nth (Z.to_nat x) m' 0 = nth (Z.to_nat x) m 0) /\
             sub m' ea n = le_bytes (Z.to_nat n) (rmw_new op n (le_val (sub m ea n)) v).
Proof. exact rmw_exact. Qed.
Print Assumptions C02_rmw_exact.

(* the correspondence run evaluates the model on a WINDOW of the memory (the bytes around the addressed locations):
   for every access, a window that covers it gives the outcome of the whole memory pre ++ w ++ post, and the new
   memory differs from the old one only inside the window *)
Theorem C02_window_sound : forall pre w post a,
  let m := pre ++ w ++ post in
  let vm := {| v_size := zlen m; v_lo := zlen pre; v_win := w |} in
  match run vm a with
  | OTrap t => run (whole m) a = OTrap t
  | ODone vm' r => run (whole m) a = ODone (whole (pre ++ v_win vm' ++ post)) r /\ length (v_win vm') = length w
  | OWindow => True
  end.
Proof. exact run_window. Qed.
Print Assumptions C02_window_sound.

(* ================= the BYTES of a memory operand (Engine/X86Enc.v) =================
   encode_mem / encode_rr transcribe wazero's encodeEncMem / encodeEncEnc (legacy prefixes, REX, opcode bytes, ModRM,
   SIB, disp8/disp32; None = the Go function panics). decode is a decoder of the x86-64 instruction format written
   from the Intel SDM for instructions of the shape [66/F0/F2/F3]* [REX] opcode(1-3 bytes: xx | 0F xx | 0F 38 xx |
   0F 3A xx) ModRM [SIB] [disp8/disp32]; it finds every field boundary by itself and is not derived from the encoder.
   Registers are x86 register numbers 0..15; xamode_wf a: imm32 < 2^32, registers < 16, shift <= 3;
   index_not_rsp a: the index register of base+index<<shift is not rsp (number 4) — the encoder's own precondition;
   opcode_wf: the opcode bytes are one opcode of that map (first byte not a prefix / REX / VEX byte). The register
   space (2 REX flags x 16 reg x 16 base x 16 index x 4 shifts x 3 mod values) is discharged by vm_compute
   (Proofs/X86EncFinP.v), the displacement and everything around the operand stay universally quantified. *)

(* for EVERY operand the lowering can hand over — all 16 bases, all 15 legal indexes, all shifts, all 32-bit
   displacements, rbp-relative and rip-relative — every reg field, REX setting, legacy prefix and opcode, and whatever
   bytes follow: the decoder reads back exactly the prefixes, REX.W, the opcode, the reg field and the memory operand
   that went in, and consumes exactly the emitted bytes *)
Theorem C02_mem_operand_roundtrip : forall ri p opcodes n r a rest,
  0 <= p <= 5 -> opcode_wf (opcode_bytes opcodes n) = true -> 0 <= r < 16 -> xamode_wf a -> index_not_rsp a ->
  exists bs pb, encode_mem ri p opcodes n r a = Some bs /\ prefix_bytes p = Some pb /\
    decode (bs ++ rest) = Some {| d_prefixes := pb; d_w := Z.testbit ri 0; d_opcode := opcode_bytes opcodes n;
                                  d_reg := r; d_rm := OMem (mem_of a); d_len := length bs |}.
Proof. exact mem_operand_roundtrip. Qed.
Print Assumptions C02_mem_operand_roundtrip.

(* the encoder's precondition, exactly: it panics iff the legacy-prefix value is invalid or rsp is the index *)
Theorem C02_encoder_precondition : forall ri p opcodes n r a,
  encode_mem ri p opcodes n r a = None <-> ~ (0 <= p <= 5) \/ (exists imm bs sh, a = XRegRegShift imm bs 4 sh).
Proof. exact encode_mem_panics_iff. Qed.
Print Assumptions C02_encoder_precondition.

(* consequently the operand the CPU decodes computes the address of the addressing mode (Engine/Amode.v's
   eval_amode over the values regs gives to the mode's registers): base + index * 2^shift + sign-extended disp32
   modulo 2^64 *)
Theorem C02_encoded_operand_address : forall ri p opcodes n r a rest regs rip am,
  0 <= p <= 5 -> opcode_wf (opcode_bytes opcodes n) = true -> 0 <= r < 16 -> xamode_wf a -> index_not_rsp a ->
  amode_vals regs a = Some am ->
  exists bs d m, encode_mem ri p opcodes n r a = Some bs /\ decode (bs ++ rest) = Some d /\
    d_len d = length bs /\ d_reg d = r /\ d_w d = Z.testbit ri 0 /\ d_opcode d = opcode_bytes opcodes n /\
    d_rm d = OMem m /\ ea_of_decoded regs rip m = eval_amode am.
Proof. exact encoded_operand_address. Qed.
Print Assumptions C02_encoded_operand_address.

(* the chain SSA pointer expression -> lowerToAddressMode -> bytes -> effective address, closed (composition with
   C02_amode_correct): whenever the registers named by the encoded mode hold the values of the parts of the mode the
   lowering built (register allocation: not modelled), the emitted bytes decode to an operand whose effective address
   is pointer value + static offset modulo 2^64 *)
Theorem C02_lowered_access_address_bytes : forall rg e off regs a ri p opcodes n r rest rip,
  lowerable off e = true -> zext_ok rg off e -> 0 <= off < W32 ->
  amode_vals regs a = Some (lower_to_amode true rg e off) ->
  0 <= p <= 5 -> opcode_wf (opcode_bytes opcodes n) = true -> 0 <= r < 16 -> xamode_wf a -> index_not_rsp a ->
  exists bs d m, encode_mem ri p opcodes n r a = Some bs /\ decode (bs ++ rest) = Some d /\
    d_len d = length bs /\ d_reg d = r /\ d_rm d = OMem m /\
    ea_of_decoded regs rip m = w64 (ev rg e + off).
Proof. exact lowered_access_address_bytes. Qed.
Print Assumptions C02_lowered_access_address_bytes.

(* the register-register form (encodeEncEnc): mod = 11, both register numbers read back *)
Theorem C02_reg_reg_roundtrip : forall ri p opcodes n r rm rest,
  0 <= p <= 5 -> opcode_wf (opcode_bytes opcodes n) = true -> 0 <= r < 16 -> 0 <= rm < 16 ->
  exists bs pb, encode_rr ri p opcodes n r rm = Some bs /\ prefix_bytes p = Some pb /\
    decode (bs ++ rest) = Some {| d_prefixes := pb; d_w := Z.testbit ri 0; d_opcode := opcode_bytes opcodes n;
                                  d_reg := r; d_rm := OReg rm; d_len := length bs |}.
Proof. exact reg_reg_roundtrip. Qed.
Print Assumptions C02_reg_reg_roundtrip.

(* the classic encoder bugs, each as a statement about the fields the SDM parser finds in the emitted bytes
   (parse: prefixes, REX, opcode, ModRM, SIB, displacement bytes). xa_imm / xa_base: the mode's imm32 and base.
   (a) one displacement byte (mod = 01) exactly when the displacement sign-extends from 8 bits and cannot be
   dropped; none (mod = 00) exactly when it is zero and the base is neither rbp nor r13; four (mod = 10) exactly when
   it does not fit 8 bits; and the displacement bytes, sign-extended, are the displacement *)
Theorem C02_disp8_iff_fits : forall ri p opcodes n r a rest,
  0 <= p <= 5 -> opcode_wf (opcode_bytes opcodes n) = true -> 0 <= r < 16 -> xamode_wf a -> index_not_rsp a ->
  xa_is_rip a = false ->
  exists bs raw, encode_mem ri p opcodes n r a = Some bs /\ parse (bs ++ rest) = Some raw /\
    let imm := xa_imm a in let b := xa_base a in
    let fits := -128 <= sext32 imm <= 127 in let droppable := imm = 0 /\ b <> 5 /\ b <> 13 in
    (modrm_mod (rw_modrm raw) = 1 <-> fits /\ ~ droppable) /\
    (length (rw_disp raw) = 1%nat <-> fits /\ ~ droppable) /\
    (modrm_mod (rw_modrm raw) = 0 <-> droppable) /\ (rw_disp raw = [] <-> droppable) /\
    (modrm_mod (rw_modrm raw) = 2 <-> ~ fits) /\ (length (rw_disp raw) = 4%nat <-> ~ fits) /\
    disp_val (rw_disp raw) = sext32 imm.
Proof. exact disp8_iff_fits. Qed.
Print Assumptions C02_disp8_iff_fits.

(* (b) rbp / r13 as base never use mod = 00 (that pattern means rip-relative, or "no base" under a SIB byte): a
   displacement is always emitted and the decoder reads the base back *)
Theorem C02_rbp_r13_never_mod00 : forall ri p opcodes n r a rest,
  0 <= p <= 5 -> opcode_wf (opcode_bytes opcodes n) = true -> 0 <= r < 16 -> xamode_wf a -> index_not_rsp a ->
  xa_is_rip a = false -> xa_base a = 5 \/ xa_base a = 13 ->
  exists bs raw d, encode_mem ri p opcodes n r a = Some bs /\ parse (bs ++ rest) = Some raw /\
    modrm_mod (rw_modrm raw) <> 0 /\ rw_disp raw <> [] /\
    decode (bs ++ rest) = Some d /\ d_rm d = OMem (mem_of a).
Proof. exact rbp_r13_never_mod00. Qed.
Print Assumptions C02_rbp_r13_never_mod00.

(* (c) rsp / r12 as base always carry the SIB byte 0x24 (scale 0, no index, base 100) and no other base does;
   base + index<<shift always has r/m = 100 and a SIB byte with exactly scale = shift, index and base = the low
   three bits of the register numbers (their fourth bits are REX.X / REX.B, see the round trip) *)
Theorem C02_rsp_r12_always_sib : forall ri p opcodes n r a rest,
  0 <= p <= 5 -> opcode_wf (opcode_bytes opcodes n) = true -> 0 <= r < 16 -> xamode_wf a -> index_not_rsp a ->
  exists bs raw, encode_mem ri p opcodes n r a = Some bs /\ parse (bs ++ rest) = Some raw /\
    match a with
    | XImmReg _ b => (rw_sib raw = Some 36 <-> b = 4 \/ b = 12) /\ (rw_sib raw = None <-> b <> 4 /\ b <> 12) /\
                     modrm_rm (rw_modrm raw) = b mod 8
    | XRegRegShift _ b ix sh =>
        modrm_rm (rw_modrm raw) = 4 /\
        exists s, rw_sib raw = Some s /\ sib_scale s = sh /\ sib_index s = ix mod 8 /\ sib_base s = b mod 8
    | XImmRBP _ | XRipRel _ => rw_sib raw = None /\ modrm_rm (rw_modrm raw) = 5
    end.
Proof. exact rsp_r12_always_sib. Qed.
Print Assumptions C02_rsp_r12_always_sib.

(* rip-relative operands and machine.Encode's label fix-up: the instruction sits at offset |pre| of the buffer;
   its last four bytes are overwritten with uint32(int32(target - end of the instruction)). Afterwards the buffer is
   unchanged around it, it decodes to the same prefixes / opcode / reg with a RIP-relative operand, and that operand
   addresses the label wherever the code is placed: next-instruction address + displacement = label address
   (labels within +-2 GiB) *)
Theorem C02_riprel_fixup : forall ri p opcodes n r l pre post target codebase regs,
  0 <= p <= 5 -> opcode_wf (opcode_bytes opcodes n) = true -> 0 <= r < 16 ->
  exists bs pb, encode_mem ri p opcodes n r (XRipRel l) = Some bs /\ prefix_bytes p = Some pb /\
    let iend := Z.of_nat (length pre + length bs) in
    - 2147483648 <= target - iend < 2147483648 ->
    let buf' := fixup_rip (pre ++ bs ++ post) iend target in
    firstn (length pre) buf' = pre /\ skipn (length pre + length bs) buf' = post /\
    decode (skipn (length pre) buf') =
      Some {| d_prefixes := pb; d_w := Z.testbit ri 0; d_opcode := opcode_bytes opcodes n; d_reg := r;
              d_rm := OMem (MRip (target - iend)); d_len := length bs |} /\
    ea_of_decoded regs (codebase + iend) (MRip (target - iend)) = w64 (codebase + target).
Proof. exact riprel_fixup. Qed.
Print Assumptions C02_riprel_fixup.
