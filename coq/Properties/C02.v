(* C02 — guest memory accesses never leave the linear memory.
   PARTIAL: instruction selection/encoding after address-mode lowering, the register allocator and the native
   code are exercised by the C02 run (all widths, bases and static offsets over the whole 32-bit range incl.
   >= 2^31, memories from 1 page to just under 4 GiB, accesses placed around earlier checks, calls, memory.grow,
   block joins and loops, both engines versus W), not modelled. The three pieces of the compiler on which the
   property rests are modelled and tied DIRECTLY to the code (overlay wrappers, checks/c02_amode.py and
   checks/c02_elide.py): the emitted bounds check (Engine/Bounds.v), lowerToAddressMode (Engine/Amode.v, compared
   with the real function on enumerated and random SSA trees) and the known-safe-bounds cache as a dataflow
   analysis over control-flow graphs (Engine/Elide.v, compared with the real cache while the real frontend lowers
   generated functions). Proved here: *)
From Coq Require Import ZArith List Bool.
From Verif Require Import Lib.GoInt Gen.GenWasm Engine.Bounds Engine.Amode Engine.Elide Wasm.Numerics Wasm.Sem Proofs.BoundsP Proofs.AmodeP Proofs.ElideP Proofs.SemP.
Import ListNotations.
Open Scope Z_scope.

(* the check the compiler emits passes exactly when the access lies inside the memory: all 32-bit bases and
   static offsets, all access sizes, all memory lengths up to 4 GiB; no 64-bit overflow *)
Theorem C02_compiler_check_exact : forall memLen base off size,
  0 <= memLen <= 2 ^ 32 -> 0 <= base < 2 ^ 32 -> 0 <= off < 2 ^ 32 -> 0 < size <= 16 ->
  compiler_pass memLen base off size = true <-> base + off + size <= memLen.
Proof. exact compiler_check_exact. Qed.
Print Assumptions C02_compiler_check_exact.

(* the interpreter's test (popMemoryOffset + the go2coq translation of hasSize) is the same predicate *)
Theorem C02_interp_check_exact : forall memLen base off size,
  0 <= memLen <= 2 ^ 32 -> 0 <= base < 2 ^ 32 -> 0 <= off < 2 ^ 32 -> 0 < size <= 16 ->
  interp_pass memLen base off size = true <-> base + off + size <= memLen.
Proof. exact interp_check_exact. Qed.
Print Assumptions C02_interp_check_exact.

(* an access emitted without a check (bound already known for that base) is in bounds, also after growth *)
Theorem C02_elision_sound : forall memLen memLen' base off0 size0 off size,
  0 <= memLen <= 2 ^ 32 -> memLen <= memLen' -> 0 <= base < 2 ^ 32 ->
  0 <= off0 < 2 ^ 32 -> 0 < size0 <= 16 -> 0 <= off < 2 ^ 32 -> 0 < size <= 16 ->
  compiler_pass memLen base off0 size0 = true ->
  elided_pass (ceil64 off0 size0) off size = true ->
  base + off + size <= memLen'.
Proof. exact elided_access_in_bounds. Qed.
Print Assumptions C02_elision_sound.

(* amd64 address-mode folding (lowerToAddressMode with the F01 repair): for every pointer expression, every
   register valuation and EVERY 32-bit static offset (those with the top bit set go through a constant
   materialised in a register) the x86 effective address equals the SSA value plus the offset modulo 2^64, provided
   the nodes the code pattern-matches (the pointer; under a single-use Iadd and an offset below 2^31 its two
   operands) are none of: sign extension of a register, 8/16-bit extension, sign extension of a 64-bit value, shift
   by a constant above 3 or by a variable amount (`lowerable`), and a matched zero extension reads a register
   whose upper half is clear (`zext_ok`). Everything below those nodes is unconstrained. *)
Theorem C02_amode_correct : forall rg e off,
  lowerable off e = true -> zext_ok rg off e -> 0 <= off < W32 ->
  eval_amode (lower_to_amode true rg e off) = w64 (ev rg e + off).
Proof. exact amode_correct. Qed.
Print Assumptions C02_amode_correct.

(* the frontend's image (memBase + zero-extended 32-bit address, table base + (index << k<=3), constants of any
   size, single- or multi-use nodes) lies inside that class, and the real function does not panic on it *)
Theorem C02_amode_correct_frontend : forall rg e off,
  frontend_shape e = true -> zext_all rg e -> 0 <= off < W32 ->
  eval_amode (lower_to_amode true rg e off) = w64 (ev rg e + off) /\ lower_panics e off = false.
Proof. exact amode_correct_frontend. Qed.
Print Assumptions C02_amode_correct_frontend.

(* The known-safe-bounds cache as a dataflow analysis. For EVERY control-flow graph g satisfying the decidable
   structural conditions wf_cfg (blocks in lowering order; the predecessors looked at when a block becomes current
   were lowered before it; predecessors added later — the back edges of Wasm loops — come from a region of blocks
   lowered after the header and entered only through it, and such a header is not sealed; a base value used in a
   block is not defined in a block lowered later (SSA values are created when they are lowered); every access names
   its own address value), EVERY execution path from the entry — through joins and around loops, with arbitrary
   new values for the values a block defines each time it is entered, the memory growing at any moment and moving at
   calls and memory.grow — and EVERY program point: each fact (v, bound, addr) the analysis holds there is backed by
   a bounds check of v with a ceiling >= bound that passed earlier on that path while v had its present value;
   hence v + bound <= current memory length; and a cached absolute address equals current memory base + v.
   wf_cfg is evaluated inside Coq on every graph the real frontend produced in the correspondence run. *)
Theorem C02_elision_sound_cfg : forall g p b k q f,
  Elide.wf_cfg g = true -> Elide.reach g (b :: p) k q -> In f (Elide.state_at g b k) ->
  (exists c, In c (Elide.s_log q) /\ Elide.p_v c = Elide.fv f /\ Elide.fb f <= Elide.p_ceil c /\ Elide.p_val c = Elide.s_env q (Elide.fv f) /\
             Elide.p_val c + Elide.p_ceil c <= Elide.p_mem c /\ Elide.p_mem c <= Elide.s_mem q) /\
  Elide.s_env q (Elide.fv f) + Elide.fb f <= Elide.s_mem q /\
  (forall A, Elide.fa f = Some A -> Elide.s_aenv q A = Elide.s_base q + Elide.s_env q (Elide.fv f)).
Proof. exact elision_sound_cfg. Qed.
Print Assumptions C02_elision_sound_cfg.

(* consequently every access of the emitted code — bounds check emitted or elided, absolute address re-used or
   recomputed — lies inside the current memory and goes through current base + value (the emitted check itself is
   C02_compiler_check_exact with ceil = offset + size) *)
Theorem C02_access_in_bounds_cfg : forall g p b k q v c a q',
  Elide.wf_cfg g = true -> Elide.reach g (b :: p) k q -> nth_error (Elide.b_events (Elide.blk g b)) k = Some (Elide.Access v c a) ->
  Elide.estep (Elide.state_at g b k) q (Elide.Access v c a) q' ->
  Elide.s_env q' v + c <= Elide.s_mem q' /\
  Elide.s_aenv q' (snd (fst (Elide.memop (Elide.state_at g b k) v c a))) = Elide.s_base q' + Elide.s_env q' v.
Proof. exact access_in_bounds_cfg. Qed.
Print Assumptions C02_access_in_bounds_cfg.

(* W: an in-bounds store changes exactly the addressed bytes; an out-of-bounds store traps *)
Theorem C02_store_exact : forall D ii s f n off v a stk ma m,
  stack f = v :: a :: stk -> the_mem D s ii = Some (ma, m) ->
  let ea := to_u32 D a + off in
  (ea + Z.of_nat n <= mlen m ->
     exists m', step_simple D ii s f (Store n off) = SOk (set_mems D s (upd (s_mems s) ma m')) (setstack D f stk) /\
                mlen m' = mlen m /\ mmax m' = mmax m /\
                forall x, rd (mdata m') x =
                  if (ea <=? x) && (x <? ea + Z.of_nat n) then (to_bits D v / 256 ^ (x - ea)) mod 256 else rd (mdata m) x) /\
  (mlen m < ea + Z.of_nat n -> step_simple D ii s f (Store n off) = STrap TOob).
Proof. exact store_exact. Qed.
Print Assumptions C02_store_exact.

(* W: a load reads exactly the addressed bytes or traps *)
Theorem C02_load_exact : forall D ii s f w n sx off a stk ma m,
  stack f = a :: stk -> the_mem D s ii = Some (ma, m) ->
  let ea := to_u32 D a + off in
  (ea + Z.of_nat n <= mlen m ->
     step_simple D ii s f (Load w n sx off) =
       SOk s (setstack D f (of_bits D w (if sx then sext n w (rd_le (mdata m) ea n) else rd_le (mdata m) ea n) :: stk))) /\
  (mlen m < ea + Z.of_nat n -> step_simple D ii s f (Load w n sx off) = STrap TOob).
Proof. exact load_exact. Qed.
Print Assumptions C02_load_exact.

(* W: a trapping access leaves memory (the whole store) unchanged *)
Theorem C02_trap_leaves_memory_unchanged : forall D host listened maxdepth fuel depth ii s f i rest t,
  step_simple D ii s f i = STrap t ->
  exec D host listened maxdepth (S fuel) depth ii s f (i :: rest) = Trap t s.
Proof. exact trap_keeps_store. Qed.
Print Assumptions C02_trap_leaves_memory_unchanged.
