(* C15 — WASI calls are safe for any argument values.
   Only statements, `exact <lemma>` and Print Assumptions live here. [wasi e m v h c] is the argument skeleton of
   the WASI function [c] (Sys/WasiGuard.v): e = host state visible to the guards (args/environ sizes, descriptor
   table), m = guest memory (MemInst.mem; its guards unfold to Gen.GenWasm.MemoryInstance_hasSize), v = what the
   implementation reads from guest memory while it runs (iovecs, subscriptions: any contents), h = what the host
   operating system answers (any errno, any byte counts). *)
From Verif Require Import Lib.GoInt Gen.GenWasm Rt.MemInst Proofs.MemInstP Gen.GenSysErrno Gen.GenWasip1 Gen.GenSysFd Sys.WasiGuard Proofs.WasiGuardP.
Open Scope Z_scope.

(* no argument tuple in [0,2^32) (i64 parameters in [0,2^64)), memory size <= 2^32, memory contents, descriptor-table
   state or host answer makes any of the 46 functions reach a Go runtime error — except the one case exhibited below *)
Theorem C15_no_host_panic : forall e m v h c,
  wf_env e -> wf_mem m -> wf_view v -> wf_call c -> host_ok h c ->
  nil_fs_case e h c = false -> r_out (wasi e m v h c) <> Panic.
Proof. exact no_host_panic. Qed.
Print Assumptions C15_no_host_panic.

(* NEW finding on the current tree: fd_filestat_set_times on a descriptor whose entry has no file system (stdin/stdout/
   stderr given as io.Reader/io.Writer, accepted sockets) calls f.FS.Utimens on a nil interface when File.Utimens is
   unsupported: nil-pointer dereference in the host. [nil_fs_case] is exactly this case. The model follows the tree
   through the flag [set_times_checks_fs] (false now); once the code checks f.FS the flag is set to true, [nil_fs_case]
   becomes constantly false and this statement vacuous. *)
Theorem C15_set_times_nil_fs_refuted : set_times_checks_fs = false ->
  exists e m v h c, wf_env e /\ wf_mem m /\ wf_view v /\ wf_call c /\ host_ok h c /\ r_out (wasi e m v h c) = Panic.
Proof. exact set_times_nil_fs_refuted. Qed.
Print Assumptions C15_set_times_nil_fs_refuted.

(* every region a call may write lies inside guest memory and inside a region its signature designates for output
   (result pointers, output buffers with their true lengths, the buffers of the iovec entries it was given) *)
Theorem C15_writes_designated : forall e m v h c,
  wf_env e -> wf_mem m -> wf_view v -> wf_call c -> host_ok h c ->
  Forall (fun w => (0 <= fst w /\ 0 <= snd w /\ fst w + snd w <= m_len m) /\
                   exists d, desig e v c d /\ sub_region w d) (r_w (wasi e m v h c)).
Proof. exact writes_designated. Qed.
Print Assumptions C15_writes_designated.

(* the descriptor table: only the descriptors the call names can change (fd_close: fd; fd_renumber: fd and to;
   path_open / sock_accept: one fresh descriptor, written -1); every other function leaves every entry alone *)
Theorem C15_table_effect : forall e m v h c,
  wf_env e -> wf_mem m -> wf_view v -> wf_call c -> host_ok h c ->
  Forall (fun f => In f (desig_fds c)) (r_fds (wasi e m v h c)).
Proof. exact table_effect. Qed.
Print Assumptions C15_table_effect.

(* host allocation is bounded by 8 x memory size + a host-state term, for every function except fd_renumber *)
Theorem C15_alloc_bounded_partial : forall e m v h c,
  wf_env e -> wf_mem m -> wf_view v -> wf_call c -> host_ok h c -> not_renumber c ->
  0 <= r_alloc (wasi e m v h c) <= 8 * m_len m + 1024 * e_ndir e + 16384.
Proof. exact alloc_bounded. Qed.
Print Assumptions C15_alloc_bounded_partial.

(* F15 (open): fd_renumber makes descriptor.Table.InsertAt grow the table to the target descriptor number *)
Theorem C15_renumber_alloc_exact : forall e m v h fd to x, u32 fd -> 0 <= to < 2 ^ 31 ->
  lookup e (i32 fd) = Some x -> f_pre x = false -> i32 fd <> to ->
  (forall y, lookup e to = Some y -> f_pre y = false) ->
  r_out (wasi e m v h (FdRenumber fd to)) = Done /\
  r_alloc (wasi e m v h (FdRenumber fd to)) = (if 0 <? to / 64 - e_tcap e + 1 then 520 * (to / 64 - e_tcap e + 1) else 0).
Proof. exact renumber_alloc_exact. Qed.
Print Assumptions C15_renumber_alloc_exact.

(* witness: one-page guest, descriptor 4 renumbered to 2^22 -> 34 078 720 bytes; to 2^31-1 -> 17 448 304 120 bytes *)
Theorem C15_renumber_alloc_refuted :
  exists e m v h c, wf_env e /\ wf_mem m /\ wf_view v /\ wf_call c /\ host_ok h c /\ m_len m = 65536 /\
    r_out (wasi e m v h c) = Done /\
    r_alloc (wasi e m v h c) = 34078720 /\
    8 * m_len m + 1024 * e_ndir e + 16384 < r_alloc (wasi e m v h c) /\
    r_alloc (wasi e m v h (FdRenumber 4 (2 ^ 31 - 1))) = 17448304120.
Proof. exact renumber_alloc_refuted. Qed.
Print Assumptions C15_renumber_alloc_refuted.

(* "returns an error number": an [Errno] outcome is never 0, and the number the guest receives for it is a valid non-zero
   WASI errno (ToErrno regenerated from internal/wasip1/errno.go); so every call ends in Done (0), an errno, or the
   documented exit of proc_exit ([Trap]) *)
Theorem C15_errno_valid : forall e m v h c x,
  wf_env e -> wf_mem m -> wf_view v -> wf_call c -> host_ok h c ->
  r_out (wasi e m v h c) = Errno x -> x <> 0 /\ 0 < ToErrno x <= 76.
Proof. exact errno_nonzero. Qed.
Print Assumptions C15_errno_valid.
