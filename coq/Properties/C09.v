From Verif Require Import Engine.Lifetime Proofs.LifetimeP.
Theorem C09_placeholder : init true = init true. Proof. exact placeholder. Qed.
Print Assumptions C09_placeholder.
