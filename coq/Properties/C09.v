(* C09 — closing and collecting modules never endangers live ones.
   Only statements, `exact <lemma>` and Print Assumptions live here. Model: coq/Engine/Lifetime.v (heap graph with
   visible Go pointers and raw references; close / drop / gc), proofs: coq/Proofs/LifetimeP.v.

   `dangling s i`: i is a live instance and some raw reference (table slot, funcref global, code address of a
   function record) visibly reachable from it points to a collected object.
   Globals: an exported global object points to its exporter's module engine iff `g_me` (wazero: GlobalInstance.Me,
   wazevo yes / interpreter no); kind KGlobalC = immutable (no operation writes it), KGlobal = mutable.
   `tracked s o`: the operation places its reference through a channel on which wazero keeps the definer alive;
   C09_tracked_channels below states exactly which ones. The step function performs every write the implementation
   performs (also the untracked ones), so the two refutations are runs of the same model. *)
From Coq Require Import List ZArith Bool.
From Verif Require Import Engine.Lifetime Proofs.LifetimeP Engine.LifetimeMem Proofs.LifetimeMemP.
Import ListNotations.

(* For ALL operation sequences (instantiate, compile, set/copy/pass references, calls in flight, close module /
   compiled module / cache / runtime, drop host handles, gc, in any order) in which every hand-over is tracked:
   no live instance reaches a dangling raw reference; every raw reference of an uncollected object points to an
   uncollected record whose code is still mapped. *)
Theorem C09_safe_if_tracked : forall c ops, all_tracked (init c) ops = true ->
  let s := run (init c) ops in
  (forall i, ~ dangling s i) /\
  (forall o r, alive s o = true -> In (Some r) (o_slots (getd s o)) ->
     alive s r = true /\ forall k, In (Some k) (o_slots (getd s r)) -> alive s k = true).
Proof. exact safe_if_tracked. Qed.
Print Assumptions C09_safe_if_tracked.

(* ... where the tracked channels are exactly these. `involved s i h`: holder h is private to its owner, or LISTS instance i
   (`lists s i h`): among its involving instances, as the TABLES i exports or imports do, or as the module engine it
   belongs to, as a GLOBAL that i itself EXPORTS does (wazevo: GlobalInstance.Me). A global that i IMPORTS never lists i.
     instantiation: the constant initialisers (ref.func f / global.get of an imported immutable global) of the EXPORTED
                    globals                        - tracked iff every such global points to its exporter's module engine
                                                     (element segments, element items `global.get g` and initialisers
                                                     of private globals are always tracked);
     ref.func stored by instance i into its holder t (table.set/global.set/table.fill, or table.grow's initial
                                                       value) - tracked iff the holder tracks i;
     a copy between two holders of i                   - tracked iff the destination tracks i (the source may be anything
                                                         i can read: an IMPORTED IMMUTABLE global in particular);
     a parameter/result hand-over from i (ref.func of its function, or a reference it read from one of its holders) to
     j's holder                                        - tracked iff the holder tracks j and (i = j or j imports a
                                                         function defined by i: j's module engine points to i's),
                                                         or the holder is a shared holder that lists the sender i;
     everything else (compile, clear, calls, close*, drop, gc) - always.
   An immutable global cannot be the destination of anything (holder_wr: tables and mutable globals only), so importing one
   is a tracked channel for good (C09_immutable_global_import_keeps_definer); a store by an importer into an imported
   MUTABLE global is not (F35, C09_imported_global_refuted): the global lists its exporter, not the writer. *)
Theorem C09_tracked_channels : forall s o, tracked s o = true <->
  match o with
  | OInstantiate sp => forall g, In g (sp_expg sp) -> g_init g = GNull \/ g_me g = true
  | OSetRef i t k f => holder_wr s i t = true -> rec_ok s i f = true -> involved s i (holder_of s i t)
  | OGrowRef i t f => holder_acc s i t = true -> rec_ok s i f = true -> involved s i (holder_of s i t)
  | OCopy i ts ks td kd => holder_acc s i ts = true -> holder_wr s i td = true -> involved s i (holder_of s i td)
  | OPassParam i f j t k =>
      rec_ok s i f = true -> holder_wr s j t = true ->
      (involved s j (holder_of s j t) /\ (i = j \/ In (me_of s i) (o_vis (getd s (me_of s j)))))
      \/ shared_with s i (holder_of s j t)
  | OPassVal i ts ks j t k =>
      holder_acc s i ts = true -> holder_wr s j t = true ->
      (involved s j (holder_of s j t) /\ (i = j \/ In (me_of s i) (o_vis (getd s (me_of s j)))))
      \/ shared_with s i (holder_of s j t)
  | _ => True
  end.
Proof. exact tracked_spec. Qed.
Print Assumptions C09_tracked_channels.

(* Imported IMMUTABLE funcref globals. For ALL histories - no hand-over has to be tracked: F08 and F35 may have happened
   elsewhere - in which every exported immutable global with a non-null initialiser points to its exporter's module engine
   (`imm_ok`; wazero: buildGlobals sets GlobalInstance.Me when the engine owns the globals): as long as an instance j with
   the immutable global g among its globals (imported or own) is not collected, g is not collected, what g holds is a
   function record r that j structurally reaches - through g's own edge when g is a shared global: j -> g -> exporter's module
   engine -> r - and neither r nor the compiled module its code lives in is collected. By validation of constant
   expressions r is a function of the exporter (ref.func f) or what an immutable global imported by the exporter holds
   (global.get); no operation writes an immutable global (C09_tracked_channels: holder_wr). *)
Theorem C09_immutable_global_import_keeps_definer : forall c ops, forallb imm_ok ops = true ->
  let s := run (init c) ops in
  forall j g r, inst_ok s j = true -> In g (o_vis (getd s j)) -> o_kind (getd s g) = KGlobalC ->
    In (Some r) (o_slots (getd s g)) ->
    alive s g = true /\ (owner s g = None -> sreach s g r) /\ sreach s j r /\ alive s r = true /\ o_kind (getd s r) = KFunc /\
    (forall k, In (Some k) (o_slots (getd s r)) -> sreach s j k /\ alive s k = true).
Proof. exact immutable_global_import_keeps_definer. Qed.
Print Assumptions C09_immutable_global_import_keeps_definer.

(* ... and under the same single condition, for ALL histories, the code address of every function record that is not
   collected points to a compiled module that is not collected: calls through imports and exports never dangle. *)
Theorem C09_function_records_never_dangle : forall c ops, forallb imm_ok ops = true ->
  let s := run (init c) ops in
  forall r k, alive s r = true -> o_kind (getd s r) = KFunc -> In (Some k) (o_slots (getd s r)) -> alive s k = true.
Proof. exact function_records_never_dangle. Qed.
Print Assumptions C09_function_records_never_dangle.

(* "What an immutable global holds" is "what it was initialised with": in every history, an object no operation writes (a
   function record, an immutable global) that exists after a prefix keeps its kind and its raw references through any
   continuation. *)
Theorem C09_immutable_never_changes : forall c ops1 ops2 g,
  let s1 := run (init c) ops1 in
  let s := run (init c) (ops1 ++ ops2) in
  g < length (heap s1) -> writable (o_kind (getd s1 g)) = false ->
  o_kind (getd s g) = o_kind (getd s1 g) /\ o_slots (getd s g) = o_slots (getd s1 g).
Proof. exact immutable_never_changes. Qed.
Print Assumptions C09_immutable_never_changes.

(* Without that edge (immutable globals "need not be owned by the module engine"): A exports an immutable funcref global
   initialised with ref.func A.f; M imports the global and NOTHING else, fills a table slot from it by an element item
   `global.get g` and another by table.set (global.get g); A and its compiled module are closed, the handle dropped, one more
   unrelated module compiled, collect. M is live, open, its handle held; the global and both slots still hold A.f; the record
   and A's executable are collected: M's call_indirect dangles. Everything but the instantiation of A is a tracked step.
   With the edge the same history keeps record and code alive, and collects everything once M is gone too. *)
Theorem C09_immutable_global_without_edge_refuted :
  let s1 := run (init true) (imm_setup false) in
  let s := run s1 imm_close in
  deref_ok s1 (slot s1 12 0) = true /\ deref_ok s1 (slot s1 12 1) = true /\
  o_vis (getd s 10) = [11; 9; 8] /\ holder_of s 9 1 = 7 /\ o_kind (getd s 7) = KGlobalC /\ o_vis (getd s 7) = [] /\
  inst_ok s 9 = true /\ open s 9 = true /\ In 9 (host s) /\ holder_acc s 9 1 = true /\
  slot s 7 0 = Some 6 /\ slot s 12 0 = Some 6 /\ slot s 12 1 = Some 6 /\
  alive s 6 = false /\ alive s 3 = false /\ alive s 7 = true /\
  deref_ok s (slot s 12 0) = false /\ deref_ok s (slot s 12 1) = false /\ deref_ok s (slot s 7 0) = false /\
  dangling s 9 /\
  forallb imm_ok (imm_setup false ++ imm_close) = false /\
  map (tracked_at (init true) (imm_setup false ++ imm_close)) (seq 0 10) = [true; false; true; true; true; true; true; true; true; true] /\
  (let t := run (run (init true) (imm_setup true)) imm_close in
   o_vis (getd t 7) = [5] /\ alive t 6 = true /\ alive t 3 = true /\ alive t 5 = true /\
   deref_ok t (slot t 12 0) = true /\ deref_ok t (slot t 12 1) = true /\ any_dangling t = false /\
   forallb imm_ok (imm_setup true ++ imm_close) = true /\ all_tracked (init true) (imm_setup true ++ imm_close) = true /\
   map (alive (run t [OCloseModule 9; OCloseCompiled 8; ODrop 9; OGc])) [3; 4; 5; 6; 7; 8; 9; 12] = repeat false 8).
Proof. exact immutable_global_without_edge_refuted. Qed.
Print Assumptions C09_immutable_global_without_edge_refuted.

(* F08 (open finding): instantiate B (private table); instantiate P importing a function of B; P.f reaches B's
   private table through a parameter; close P and its compiled module; drop; gc: B is live and open, its slot
   still holds the address of P.f, the record is collected and P's executable unmapped. *)
Theorem C09_private_table_refuted :
  let s1 := run (init true) f08_setup in
  let s := run s1 f08_close in
  deref_ok s1 (slot s1 (holder_of s1 4 0) 0) = true /\
  inst_ok s 4 = true /\ open s 4 = true /\ holder_ok s 4 0 = true /\ In 4 (host s) /\
  slot s (holder_of s 4 0) 0 = Some 12 /\ alive s 12 = false /\ alive s 8 = false /\
  deref_ok s (slot s (holder_of s 4 0) 0) = false /\
  dangling s 4 /\
  all_tracked (init true) (f08_setup ++ f08_close) = false /\ forallb closing f08_close = true.
Proof. exact private_table_refuted. Qed.
Print Assumptions C09_private_table_refuted.

(* F08b = F35 (open finding, same class, different channel): A exports a MUTABLE funcref global (pointing to A's module
   engine); B imports it and stores ref.func B.f (the store is performed; the global lists A, not B); close B and its
   compiled module; drop; gc: A is live and open and its global holds the address of a collected record whose executable
   is unmapped. *)
Theorem C09_imported_global_refuted :
  let s1 := run (init true) f08b_setup in
  let s := run s1 f08b_close in
  holder_acc (run (init true) (firstn 4 f08b_setup)) 9 0 = true /\
  involvedb (run (init true) (firstn 4 f08b_setup)) 9 (holder_of (run (init true) (firstn 4 f08b_setup)) 9 0) = false /\
  holder_of s1 9 0 = holder_of s1 4 0 /\
  deref_ok s1 (slot s1 (holder_of s1 4 0) 0) = true /\
  inst_ok s 4 = true /\ open s 4 = true /\ holder_acc s 4 0 = true /\ In 4 (host s) /\
  slot s (holder_of s 4 0) 0 = Some 11 /\ alive s 11 = false /\ alive s 8 = false /\
  deref_ok s (slot s (holder_of s 4 0) 0) = false /\
  dangling s 4 /\
  all_tracked (init true) (f08b_setup ++ f08b_close) = false /\ forallb closing f08b_close = true.
Proof. exact imported_global_refuted. Qed.
Print Assumptions C09_imported_global_refuted.

(* After any tracked history, with a call on instance i in flight: closing the runtime, the cache, compiled modules
   and instances, dropping handles and collecting — any of them, in any order, any number of times — keeps the
   invariant, and the in-flight call holds a root: its module engine, instance, compiled module and everything it
   structurally reaches stay uncollected with intact references. *)
Theorem C09_close_order_irrelevant : forall c pre i closes,
  all_tracked (init c) pre = true ->
  let s0 := run (init c) pre in
  inst_ok s0 i = true ->
  forallb closing closes = true ->
  let s := run s0 (OEnter i :: closes) in
  (forall j, ~ dangling s j) /\
  (forall x, sreach s0 (me_of s0 i) x ->
     alive s x = true /\ forall r, In (Some r) (o_slots (getd s x)) -> alive s r = true) /\
  alive s i = true.
Proof. exact close_order_irrelevant. Qed.
Print Assumptions C09_close_order_irrelevant.

(* ---- shared memories and globals (model: coq/Engine/LifetimeMem.v, proofs: coq/Proofs/LifetimeMemP.v) ----
   A memory is (current buffer, size); growing it allocates a new buffer and abandons the old one; the collector
   frees every buffer that is not the current buffer of a memory a retained instance is bound to. An instance may
   keep a cached view (buffer, length) of its memory (wazevo: the module that defines it) which is refreshed when
   the memory notifies the registered instances after a grow. `policy` says who is notified. *)

(* For ALL histories of instantiate / close instance / close runtime / drop / collect / call in flight / use of a
   memory or global through own code, through an accessor imported from another (possibly closed) instance, or by
   the host: if the grow notification skips nobody (closed or not) and every caching instance is registered, every
   cached view equals the memory's current (buffer, size) in the reached state. *)
Theorem C09_memory_views_coherent : forall pol mods n ops,
  p_skip_closed pol = false -> p_register pol = true -> p_free_on_close pol = false ->
  let s := fst (mrun pol mods (minit n) ops) in
  coherentb s = true /\
  forall x mu b l, (x < length (ms_insts s))%nat -> i_mem (geti s x) = Some mu -> i_view (geti s x) = VCached b l ->
    b = m_buf (getm s mu) /\ l = m_pages (getm s mu).
Proof. exact views_coherent. Qed.
Print Assumptions C09_memory_views_coherent.

(* If closed instances are skipped by the notification: A defines a memory, B imports it and A's msize/mload; B stores
   111; A is closed and dropped; B grows the memory and stores 333; collect. B is open, its handle held. Through its
   own code B sees 2 pages and 333; through the functions imported from the closed A it reads 111 from the abandoned
   buffer, then (after the collection) a FREED buffer, is told 1 page, and traps on an address it just wrote. *)
Theorem C09_closed_definer_view_stale_refuted :
  let good := snd (mrun notify_all modsAB (minit 2) stale_history) in
  let bad := snd (mrun skip_closed modsAB (minit 2) stale_history) in
  let s := fst (mrun skip_closed modsAB (minit 2) stale_history) in
  i_closed (geti s 0) = true /\ i_closed (geti s 1) = false /\ nth 1 (ms_handle s) None = Some 1%nat /\
  nth 10 bad ONone = OVal 2 /\ nth 12 bad ONone = OVal 333 /\
  nth 8 bad ONone = OVal 111 /\ nth 11 bad ONone = OVal 1 /\ nth 13 bad ONone = OFreed /\ nth 15 bad ONone = OTrap /\
  nth 8 good ONone = OVal 333 /\ nth 11 good ONone = OVal 2 /\ nth 13 good ONone = OVal 333 /\ nth 15 good ONone = OVal 222 /\
  coherentb s = false /\ i_view (geti s 0) = VCached 0 1 /\ m_buf (getm s 0) = 1%nat /\ m_pages (getm s 0) = 2%Z /\
  b_freed (getb s 0) = true /\ b_freed (getb s 1) = false.
Proof. exact closed_definer_view_stale. Qed.
Print Assumptions C09_closed_definer_view_stale_refuted.

(* Close order and collections are irrelevant for what is observed through shared memories and globals: run any
   history next to a TWIN world that performs the same instantiations and calls (a call is skipped in both worlds
   when the first has lost the handle) but never closes, drops or collects. Every observation of the first world
   (value, trap, no result) equals the twin's or is an ordinary error (no handle / exit error of a closed instance),
   and no access touches a freed buffer. *)
Theorem C09_memory_close_order_irrelevant : forall pol mods n ops,
  p_skip_closed pol = false -> p_register pol = true -> p_free_on_close pol = false ->
  Forall (fun ab => (fst ab = snd ab \/ fst ab = OErr) /\ fst ab <> OFreed)
         (prun pol mods (minit n) (minit n) ops).
Proof. exact twin_agrees. Qed.
Print Assumptions C09_memory_close_order_irrelevant.

(* ... and what stays alive: in every reached state, the current buffer of the memory of every RETAINED instance
   (reachable from host handles, the call in flight and open named instances through imported functions' definers
   and imported memories' definers) is not freed, and no step of the history observed a freed buffer. *)
Theorem C09_retained_memory_never_freed : forall pol mods n ops,
  p_skip_closed pol = false -> p_register pol = true -> p_free_on_close pol = false ->
  ~ In OFreed (snd (mrun pol mods (minit n) ops)) /\
  let s := fst (mrun pol mods (minit n) ops) in
  forall x mu, mreach s x -> i_mem (geti s x) = Some mu -> b_freed (getb s (m_buf (getm s mu))) = false.
Proof. exact never_freed. Qed.
Print Assumptions C09_retained_memory_never_freed.

(* Open finding (user-supplied memory allocator, experimental.WithMemoryAllocator): closing an instance hands the
   memory it is bound to - its own or an IMPORTED one - to LinearMemory.Free. A defines a memory, B imports it; A
   stores 111 and reads it back; B is closed (nothing dropped, nothing collected): A is open, its handle held, the
   views coherent, and A's next load touches a freed buffer. Symmetrically when A is closed and B reads. With the
   default allocator (`notify_all`) the same histories read 111. *)
Theorem C09_allocator_close_frees_shared_memory_refuted :
  (let s := fst (mrun user_allocator modsAB0 (minit 2) (free_history 1 0)) in
   i_closed (geti s 0) = false /\ nth 0 (ms_handle s) None = Some 0%nat /\ i_closed (geti s 1) = true /\
   b_freed (getb s (m_buf (getm s 0))) = true /\ coherentb s = true) /\
  map enc (snd (mrun user_allocator modsAB0 (minit 2) (free_history 1 0))) = [(4, 0); (4, 0); (4, 0); (0, 111); (4, 0); (2, 0)]%Z /\
  map enc (snd (mrun user_allocator modsAB0 (minit 2) (free_history 0 1))) = [(4, 0); (4, 0); (4, 0); (0, 111); (4, 0); (2, 0)]%Z /\
  map enc (snd (mrun notify_all modsAB0 (minit 2) (free_history 1 0))) = [(4, 0); (4, 0); (4, 0); (0, 111); (4, 0); (0, 111)]%Z /\
  map enc (snd (mrun notify_all modsAB0 (minit 2) (free_history 0 1))) = [(4, 0); (4, 0); (4, 0); (0, 111); (4, 0); (0, 111)]%Z.
Proof. exact close_frees_shared_memory. Qed.
Print Assumptions C09_allocator_close_frees_shared_memory_refuted.
