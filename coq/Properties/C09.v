(* C09 — closing and collecting modules never endangers live ones.
   Only statements, `exact <lemma>` and Print Assumptions live here. Model: coq/Engine/Lifetime.v (heap graph with
   visible Go pointers and raw references; close / drop / gc), proofs: coq/Proofs/LifetimeP.v.

   `dangling s i`: i is a live instance and some raw reference (table slot, funcref global, code address of a
   function record) visibly reachable from it points to a collected object.
   `tracked s o`: every operation except a hand-over by parameter/result places references structurally (own or
   imported functions into own holders or into shared tables the instance is involved in, copies between the
   holders of one instance, element segments); a hand-over is tracked only when the receiver imports a function
   of the sender (or is the sender). *)
From Coq Require Import List ZArith Bool.
From Verif Require Import Engine.Lifetime Proofs.LifetimeP.
Import ListNotations.

(* For ALL operation sequences (instantiate, compile, set/copy/pass references, calls in flight, close module /
   compiled module / cache / runtime, drop host handles, gc, in any order) in which every hand-over is tracked:
   no live instance reaches a dangling raw reference; every raw reference of an uncollected object points to an
   uncollected record whose code is still mapped. *)
Theorem C09_safe_if_tracked : forall c ops, all_tracked (init c) ops = true ->
  let s := run (init c) ops in
  (forall i, ~ dangling s i) /\
  (forall o r, alive s o = true -> In (Some r) (o_slots (getd s o)) ->
     alive s r = true /\ forall k, In (Some k) (o_slots (getd s r)) -> alive s k = true).
Proof. exact safe_if_tracked. Qed.
Print Assumptions C09_safe_if_tracked.

(* purely structural form: histories without any parameter/result hand-over *)
Theorem C09_safe_without_params : forall c ops, forallb no_param ops = true ->
  forall i, ~ dangling (run (init c) ops) i.
Proof. exact safe_without_params. Qed.
Print Assumptions C09_safe_without_params.

(* F08 (open finding): instantiate B (private table); instantiate P importing a function of B; P.f reaches B's
   private table through a parameter; close P and its compiled module; drop; gc: B is live and open, its slot
   still holds the address of P.f, the record is collected and P's executable unmapped. *)
Theorem C09_private_table_refuted :
  let s1 := run (init true) f08_setup in
  let s := run s1 f08_close in
  deref_ok s1 (slot s1 (holder_of s1 4 0) 0) = true /\
  inst_ok s 4 = true /\ open s 4 = true /\ holder_ok s 4 0 = true /\ In 4 (host s) /\
  slot s (holder_of s 4 0) 0 = Some 12 /\ alive s 12 = false /\ alive s 8 = false /\
  deref_ok s (slot s (holder_of s 4 0) 0) = false /\
  dangling s 4 /\
  all_tracked (init true) (f08_setup ++ f08_close) = false /\ forallb closing f08_close = true.
Proof. exact private_table_refuted. Qed.
Print Assumptions C09_private_table_refuted.

(* After any tracked history, with a call on instance i in flight: closing the runtime, the cache, compiled modules
   and instances, dropping handles and collecting — any of them, in any order, any number of times — keeps the
   invariant, and the in-flight call holds a root: its module engine, instance, compiled module and everything it
   structurally reaches stay uncollected with intact references. *)
Theorem C09_close_order_irrelevant : forall c pre i closes,
  all_tracked (init c) pre = true ->
  let s0 := run (init c) pre in
  inst_ok s0 i = true ->
  forallb closing closes = true ->
  let s := run s0 (OEnter i :: closes) in
  (forall j, ~ dangling s j) /\
  (forall x, sreach s0 (me_of s0 i) x ->
     alive s x = true /\ forall r, In (Some r) (o_slots (getd s x)) -> alive s r = true) /\
  alive s i = true.
Proof. exact close_order_irrelevant. Qed.
Print Assumptions C09_close_order_irrelevant.
