(* C14 — memory size, growth and the host memory API follow the limits exactly.
   Only statements, `exact <lemma>` and Print Assumptions live here. The definitions mentioned
   (accept, sized, grow, has_size, ...) unfold to coq/Gen definitions regenerated from
   internal/wasm/memory.go, internal/wasm/module.go and internal/wasm/binary/decoder.go. *)
From Verif Require Import Lib.GoInt Gen.GenWasm Gen.GenBinary Rt.MemInst Proofs.MemInstP Rt.MemInstX Proofs.MemInstXP.
Open Scope Z_scope.

(* accepted limits: min <= capacity <= max <= limit, for every (min, max?, limit, capacity-from-max) *)
Theorem C14_config_bounds : forall c, wf_cfg c -> accept c = true ->
  let '(mn, cp, mx) := sized c in 0 <= mn /\ mn <= cp /\ cp <= mx /\ mx <= c_limit c.
Proof. exact accept_bounds. Qed.
Print Assumptions C14_config_bounds.

(* every reachable state: pages between the declared minimum and min(declared max, limit),
   length a whole number of pages, and no accessor or grow ever panicked on the way *)
Theorem C14_invariant : forall c ops, wf_cfg c -> accept c = true -> Forall op_ok ops ->
  let m := final (mem_init c) ops in
  wf m /\
  c_min c <= pages m <= pages_bound c /\ pages_bound c <= 65536 /\ m_len m = pages m * 65536 /\
  ~ In Panic (snd (run (mem_init c) ops)).
Proof. exact reachable_invariant. Qed.
Print Assumptions C14_invariant.

(* growing succeeds exactly when the result stays within the bound, returns the previous size *)
Theorem C14_grow_exact : forall m d, wf m -> 0 <= d < 2 ^ 32 ->
  let '(m', r) := grow m d in
  (pages m + d <= m_max m ->
     r = Some (pages m) /\ pages m' = pages m + d /\ m_data m' = m_data m /\ wf m' /\
     m_max m' = m_max m /\ m_min m' = m_min m) /\
  (m_max m < pages m + d -> r = None /\ m' = m).
Proof. exact grow_spec. Qed.
Print Assumptions C14_grow_exact.

(* ... preserves existing contents and exposes new pages as zero *)
Theorem C14_grow_contents : forall m d, wf m -> 0 <= d < 2 ^ 32 ->
  let m' := fst (grow m d) in
  (forall a, rd (m_data m') a = rd (m_data m) a) /\ (forall a, m_len m <= a -> rd (m_data m') a = 0).
Proof. exact grow_contents. Qed.
Print Assumptions C14_grow_contents.

(* every host read/write succeeds exactly when offset + length lies within the current size, never panics *)
Theorem C14_host_has_size_exact : forall m off n, 0 <= m_len m <= 2 ^ 32 -> 0 <= off < 2 ^ 32 -> 0 <= n < 2 ^ 63 ->
  has_size m off n = true <-> off + n <= m_len m.
Proof. exact has_size_exact. Qed.
Print Assumptions C14_host_has_size_exact.

Theorem C14_host_read_exact : forall m off n, 0 <= m_len m <= 2 ^ 32 -> 0 <= off < 2 ^ 32 -> (n <= 8)%nat ->
  read_fixed m off n <> Panic /\
  (read_fixed m off n <> Fail <-> off + Z.of_nat n <= m_len m) /\
  (off + Z.of_nat n <= m_len m -> read_fixed m off n = Ok (rd_le (m_data m) off n)).
Proof. exact read_fixed_exact. Qed.
Print Assumptions C14_host_read_exact.

Theorem C14_host_read_region_exact : forall m off n, 0 <= m_len m <= 2 ^ 32 -> 0 <= off < 2 ^ 32 -> 0 <= n < 2 ^ 32 ->
  read_region m off n <> Panic /\ (read_region m off n = Ok 0 <-> off + n <= m_len m).
Proof. exact read_region_exact. Qed.
Print Assumptions C14_host_read_region_exact.

(* an ok write changes exactly [off, off+n); a refused write changes nothing *)
Theorem C14_host_write_exact : forall m off n v, wf m -> 0 <= off < 2 ^ 32 -> (n <= 8)%nat ->
  let '(m', r) := write_fixed m off n v in
  r <> Panic /\ (r = Ok 0 <-> off + Z.of_nat n <= m_len m) /\
  (r <> Ok 0 -> m' = m) /\ wf m' /\ m_len m' = m_len m /\ m_max m' = m_max m /\ m_min m' = m_min m /\
  (r = Ok 0 -> forall x, rd (m_data m') x =
       if (off <=? x) && (x <? off + Z.of_nat n) then (v / 256 ^ (x - off)) mod 256 else rd (m_data m) x).
Proof. exact write_fixed_exact. Qed.
Print Assumptions C14_host_write_exact.

Theorem C14_host_write_region_exact : forall m off bs, wf m -> 0 <= off < 2 ^ 32 -> Z.of_nat (length bs) < 2 ^ 32 ->
  let '(m', r) := write_region m off bs in
  r <> Panic /\ (r = Ok 0 <-> off + Z.of_nat (length bs) <= m_len m) /\
  (r <> Ok 0 -> m' = m) /\ wf m' /\ m_len m' = m_len m /\ m_max m' = m_max m /\ m_min m' = m_min m /\
  (r = Ok 0 -> forall x, rd (m_data m') x =
       if (off <=? x) && (x <? off + Z.of_nat (length bs)) then nth (Z.to_nat (x - off)) bs 0 mod 256
       else rd (m_data m) x).
Proof. exact write_region_exact. Qed.
Print Assumptions C14_host_write_region_exact.

(* memory.size (interpreter), Pages()/Grow(0) agree for every well-formed state, including 65536 pages *)
Theorem C14_size_agree : forall m, wf m -> size_interp m = pages m.
Proof. exact size_interp_pages. Qed.
Print Assumptions C14_size_agree.

(* the compiler's 32-bit load of the length agrees below 4GiB ... *)
Theorem C14_size_agree_compiler_partial : forall m, wf m -> pages m < 65536 -> size_compiler m = pages m.
Proof. exact size_compiler_pages. Qed.
Print Assumptions C14_size_agree_compiler_partial.

(* ... and not at 65536 pages: known finding F12, replayed on the real compiler by the check *)
Theorem C14_compiler_size_65536_refuted :
  exists m, wf m /\ pages m = 65536 /\ size_interp m = 65536 /\ size_compiler m = 0.
Proof. exact compiler_size_65536. Qed.
Print Assumptions C14_compiler_size_65536_refuted.

(* ================================================================================================
   Extension (Rt/MemInstX.v): the allocator is an ARBITRARY ORACLE (every grow of a history carries the answer
   experimental.LinearMemory.Reallocate gives if it is asked; the answer at instantiation is in the configuration),
   SHARED memories (flag sh), and TWO VIEWS (exporter / importer) of one memory.
   ================================================================================================ *)

(* accepted extended configurations: the base bounds; shared needs the threads feature and a declared maximum *)
Theorem C14_x_config : forall x, xaccept x = true ->
  accept (x_c x) = true /\ (x_shared x = true -> x_threads x = true /\ c_hasmax (x_c x) = true).
Proof. exact xaccept_accept. Qed.
Print Assumptions C14_x_config.

(* instantiation: the memory starts at exactly the declared minimum, empty, well formed; there is no usable memory
   exactly when an allocator refuses the minimum (Go panic, nothing registered), except that an unshared empty
   minimum survives a refusal (nil[:0]); see the note at xinit for shared + Reallocate(0) = nil *)
Theorem C14_x_init : forall x m, wf_cfg (x_c x) -> xaccept x = true -> xinit x = Some m ->
  wf m /\ xwf (x_shared x) m /\ pages m = c_min (x_c x) /\ m_max m = pages_bound (x_c x) /\
  m_min m = c_min (x_c x) /\ m_data m = [].
Proof. exact xinit_wf. Qed.
Print Assumptions C14_x_init.

Theorem C14_x_init_fails_exactly : forall x, xinit x = None <->
  c_alloc (x_c x) = true /\ x_min_ans x = false /\ (m_len (mem_init (x_c x)) <> 0 \/ x_shared x = true).
Proof. exact xinit_none. Qed.
Print Assumptions C14_x_init_fails_exactly.

(* the allocator is asked exactly when a non-zero grow stays within the bound, and then for exactly the new size *)
Theorem C14_x_allocator_asked_exactly : forall m d, wf m -> 0 <= d < 2 ^ 32 ->
  (asks m d = true <-> m_alloc m = true /\ d <> 0 /\ pages m + d <= m_max m).
Proof. exact asks_spec. Qed.
Print Assumptions C14_x_allocator_asked_exactly.

Theorem C14_x_allocator_request : forall m d, wf m -> 0 <= d < 2 ^ 32 -> asks m d = true ->
  ask_size m d = (pages m + d) * 65536 /\ m_len m < ask_size m d <= m_max m * 65536.
Proof. exact ask_size_spec. Qed.
Print Assumptions C14_x_allocator_request.

(* grow exactness for every flavour and every answer of the allocator: a refused grow fails and changes NOTHING;
   otherwise it succeeds exactly when the result stays within the bound and returns the previous size; never panics
   (in particular "shared memory cannot be grown" is unreachable) *)
Theorem C14_x_grow_exact : forall sh m ans d, wf m -> xwf sh m -> 0 <= d < 2 ^ 32 ->
  let '(m', r) := xgrow sh m ans d in
  r <> Panic /\ xwf sh m' /\
  (refused m ans d -> r = Fail /\ m' = m) /\
  (~ refused m ans d ->
     (pages m + d <= m_max m ->
        r = Ok (pages m) /\ pages m' = pages m + d /\ m_data m' = m_data m /\ wf m' /\
        m_max m' = m_max m /\ m_min m' = m_min m) /\
     (m_max m < pages m + d -> r = Fail /\ m' = m)).
Proof. exact xgrow_spec. Qed.
Print Assumptions C14_x_grow_exact.

Theorem C14_x_grow_contents : forall sh m ans d, wf m -> xwf sh m -> 0 <= d < 2 ^ 32 ->
  let m' := fst (xgrow sh m ans d) in
  (forall a, rd (m_data m') a = rd (m_data m) a) /\ (forall a, m_len m <= a -> rd (m_data m') a = 0).
Proof. exact xgrow_contents. Qed.
Print Assumptions C14_x_grow_contents.

(* every reachable state of every flavour, for every history and every failure pattern of the allocator: the bounds,
   whole pages, memory.size (interpreter) = Pages(), and nothing panicked on the way *)
Theorem C14_x_invariant : forall x m0 ops, wf_cfg (x_c x) -> xaccept x = true -> xinit x = Some m0 ->
  Forall xop_ok ops ->
  let m := xfinal (x_shared x) m0 ops in
  wf m /\
  c_min (x_c x) <= pages m <= pages_bound (x_c x) /\ pages_bound (x_c x) <= 65536 /\
  m_len m = pages m * 65536 /\ size_interp m = pages m /\
  ~ In Panic (snd (xrun (x_shared x) m0 ops)).
Proof. exact x_reachable_invariant. Qed.
Print Assumptions C14_x_invariant.

(* a refused grow anywhere in a history can be erased: final memory and all other observations are unchanged *)
Theorem C14_x_refused_grow_erasure : forall sh m pre v d post,
  asks (xfinal sh m pre) d = true ->
  xfinal sh m (pre ++ XGrow v false d :: post) = xfinal sh m (pre ++ post) /\
  exists o1 o2, length o1 = length pre /\
    snd (xrun sh m (pre ++ post)) = o1 ++ o2 /\
    snd (xrun sh m (pre ++ XGrow v false d :: post)) = o1 ++ Fail :: o2.
Proof. exact xrun_refused_erasure. Qed.
Print Assumptions C14_x_refused_grow_erasure.

(* conservativity: with an agreeing allocator the extended model IS the base model (so every base theorem above
   holds for it), for unshared memories unconditionally and for shared ones on every well-formed state: the shared
   flavour has the same bounds, grow exactness, contents and host-access exactness *)
Theorem C14_x_unshared_is_base : forall ops m, xrun false m (map lift ops) = run m ops.
Proof. exact xrun_lift. Qed.
Print Assumptions C14_x_unshared_is_base.

Theorem C14_x_shared_is_base : forall ops m, wf m -> xwf true m -> Forall op_ok ops ->
  xrun true m (map lift ops) = run m ops.
Proof. exact xrun_shared_lift. Qed.
Print Assumptions C14_x_shared_is_base.

(* one memory, two views: which view (exporter / importer) each operation is made through cannot matter *)
Theorem C14_x_views_agree : forall sh m ops1 ops2, map (set_view false) ops1 = map (set_view false) ops2 ->
  xrun sh m ops1 = xrun sh m ops2.
Proof. exact xrun_views. Qed.
Print Assumptions C14_x_views_agree.
