(* C11 — instances are isolated unless explicitly linked.
   On the reference semantics W (store with several instances, memories/globals by store address): an execution in an
   instance whose footprint (its own and imported memories and globals, closed under direct, indirect and re-entrant
   calls) is (Fm, Fg) leaves every memory outside Fm and every global outside Fg exactly as it was, for every program,
   host behaviour and fuel, whatever the outcome. Hence an instance that shares no store address with the running one
   observes nothing. (The converse half — what the running instance computes depends only on its footprint — is the
   relational theorem stated in Proofs/SemRelP.v when present.) The engines are tied by the C11 run: N instances of one
   compiled module in two runtimes sharing a compilation cache, interleaved calls versus a lone instance. *)
From Coq Require Import ZArith List.
From Verif Require Import Wasm.Numerics Wasm.Sem Proofs.SemP.
Import ListNotations.
Open Scope Z_scope.

Theorem C11_frame :
  forall D host listened maxdepth (s0 : store D) (Fm Fg : nat -> Prop),
  (forall ii k fa ci tp tr nl body, okfp D s0 Fm Fg ii ->
     nth_error (i_funcs (the_inst D s0 ii)) k = Some fa -> nth_error (s_funcs s0) fa = Some (FWasm ci tp tr nl body) -> okfp D s0 Fm Fg ci) ->
  (forall ii ta fa ci tp tr nl body, okfp D s0 Fm Fg ii ->
     i_tab (the_inst D s0 ii) = Some ta -> In (Some fa) (nth ta (s_tabs s0) []) ->
     nth_error (s_funcs s0) fa = Some (FWasm ci tp tr nl body) -> okfp D s0 Fm Fg ci) ->
  (forall h args g gargs ci tp tr nl body,
     host h args = HReenter g gargs -> nth_error (s_funcs s0) g = Some (FWasm ci tp tr nl body) -> okfp D s0 Fm Fg ci) ->
  forall fuel depth ii s f is, ok_frame D s0 Fm Fg s ii ->
  out_R D (frame_R D Fm Fg) s (exec D host listened maxdepth fuel depth ii s f is).
Proof. exact exec_frame. Qed.
Print Assumptions C11_frame.

(* the converse half: what an instance computes depends only on its footprint. Two stores with the same code that
   agree on the memories in Fm and the globals in Fg (and may differ arbitrarily elsewhere — e.g. in what OTHER
   instances did to THEIR state) give executions that proceed in lock step: same outcome kind, same trap, same
   values and locals, and final stores that again agree on the footprint. Together with C11_frame: an instance
   behaves exactly as it would if it were alone. *)
From Verif Require Import Proofs.SemRelP.
Theorem C11_noninterference :
  forall D host listened maxdepth (s0 : store D) (Fm Fg : nat -> Prop),
  (forall ii k fa ci tp tr nl body, okfp D s0 Fm Fg ii ->
     nth_error (i_funcs (the_inst D s0 ii)) k = Some fa -> nth_error (s_funcs s0) fa = Some (FWasm ci tp tr nl body) -> okfp D s0 Fm Fg ci) ->
  (forall ii ta fa ci tp tr nl body, okfp D s0 Fm Fg ii ->
     i_tab (the_inst D s0 ii) = Some ta -> In (Some fa) (nth ta (s_tabs s0) []) ->
     nth_error (s_funcs s0) fa = Some (FWasm ci tp tr nl body) -> okfp D s0 Fm Fg ci) ->
  (forall h args g gargs ci tp tr nl body,
     host h args = HReenter g gargs -> nth_error (s_funcs s0) g = Some (FWasm ci tp tr nl body) -> okfp D s0 Fm Fg ci) ->
  forall fuel depth ii s1 s2 f is,
  ok_frame D s0 Fm Fg s1 ii -> agree D Fm Fg s1 s2 ->
  out_rel D D eq (agree D Fm Fg) (exec D host listened maxdepth fuel depth ii s1 f is)
                                 (exec D host listened maxdepth fuel depth ii s2 f is).
Proof. exact exec_noninterference. Qed.
Print Assumptions C11_noninterference.

(* ... at the level of HISTORIES: calls into two groups of instances A and B whose footprints are disjoint are
   interleaved in ANY schedule on one store (each call: any instance of its group, any code, frame, fuel, depth).
   The outcomes of A's calls in the interleaved run are, call by call, those of the run that makes A's calls only:
   the same kind of outcome, the same trap, the same values and locals, and stores that agree on A's footprint.
   ([finished]: no call of the interleaved run exhausts the model's fuel.) *)
From Verif Require Import Proofs.InterleaveP.
Theorem C11_interleaved_as_alone :
  forall D host listened maxdepth (s0 : store D) (FmA FgA FmB FgB : nat -> Prop),
  (forall a, FmA a -> FmB a -> False) -> (forall g, FgA g -> FgB g -> False) ->
  (forall ii k fa ci tp tr nl body, okfp D s0 FmA FgA ii ->
     nth_error (i_funcs (the_inst D s0 ii)) k = Some fa -> nth_error (s_funcs s0) fa = Some (FWasm ci tp tr nl body) -> okfp D s0 FmA FgA ci) ->
  (forall ii ta fa ci tp tr nl body, okfp D s0 FmA FgA ii ->
     i_tab (the_inst D s0 ii) = Some ta -> In (Some fa) (nth ta (s_tabs s0) []) ->
     nth_error (s_funcs s0) fa = Some (FWasm ci tp tr nl body) -> okfp D s0 FmA FgA ci) ->
  (forall h args g gargs ci tp tr nl body,
     host h args = HReenter g gargs -> nth_error (s_funcs s0) g = Some (FWasm ci tp tr nl body) -> okfp D s0 FmA FgA ci) ->
  (forall ii k fa ci tp tr nl body, okfp D s0 FmB FgB ii ->
     nth_error (i_funcs (the_inst D s0 ii)) k = Some fa -> nth_error (s_funcs s0) fa = Some (FWasm ci tp tr nl body) -> okfp D s0 FmB FgB ci) ->
  (forall ii ta fa ci tp tr nl body, okfp D s0 FmB FgB ii ->
     i_tab (the_inst D s0 ii) = Some ta -> In (Some fa) (nth ta (s_tabs s0) []) ->
     nth_error (s_funcs s0) fa = Some (FWasm ci tp tr nl body) -> okfp D s0 FmB FgB ci) ->
  (forall h args g gargs ci tp tr nl body,
     host h args = HReenter g gargs -> nth_error (s_funcs s0) g = Some (FWasm ci tp tr nl body) -> okfp D s0 FmB FgB ci) ->
  forall s cs,
  same_code D s0 s -> well_tagged D s0 FmA FgA FmB FgB cs -> finished D (run D host listened maxdepth s cs) ->
  Forall2 (out_rel D D eq (agree D FmA FgA))
    (outs_of D true (run D host listened maxdepth s cs))
    (map snd (run D host listened maxdepth s (calls_of D true cs))).
Proof. exact interleaved_as_alone. Qed.
Print Assumptions C11_interleaved_as_alone.
