(* C06 — traps, exits and host panics are contained and leave the runtime usable.
   PARTIAL: native stack unwinding / call-engine reuse are exercised by the correspondence run (same api.Function
   objects reused across failures, both engines, a second untouched instance), not modelled. On the reference
   semantics W, for every program, host behaviour (return / panic / exit / re-entry at any nesting depth) and fuel: *)
From Coq Require Import ZArith List.
From Verif Require Import Wasm.Numerics Wasm.Sem Proofs.SemP.
Import ListNotations.
Open Scope Z_scope.

(* "keep behaving afterwards exactly as an instance that had not failed would from that state": what the calls after a
   failing (or succeeding) prefix of a history return depends only on the store the prefix left *)
Theorem C06_continue_as_if :
  forall D host listened maxdepth fuel c1 s c2,
  run_calls D host listened maxdepth fuel s (c1 ++ c2) =
  let '(s1, r1) := run_calls D host listened maxdepth fuel s c1 in
  let '(s2, r2) := run_calls D host listened maxdepth fuel s1 c2 in (s2, r1 ++ r2).
Proof. exact run_calls_app. Qed.
Print Assumptions C06_continue_as_if.

(* a failing call cannot damage the store's shape: code, instances and tables are unchanged, memories remain page
   aligned, never shrink and keep their bound — whatever the outcomes of the calls of the history *)
Theorem C06_store_survives_failures :
  forall D host listened maxdepth, (forall v, 0 <= to_u32 D v) ->
  forall fuel calls s, page_aligned D s ->
  grows D s (fst (run_calls D host listened maxdepth fuel s calls)).
Proof. exact run_calls_mono. Qed.
Print Assumptions C06_store_survives_failures.

(* "all other instances": an execution, failing or not, changes no memory or global outside the footprint of the
   instances reachable from the one that runs (closure under direct, indirect and re-entrant calls) *)
Theorem C06_other_instances_untouched :
  forall D host listened maxdepth (s0 : store D) (Fm Fg : nat -> Prop),
  (forall ii k fa ci tp tr nl body, okfp D s0 Fm Fg ii ->
     nth_error (i_funcs (the_inst D s0 ii)) k = Some fa -> nth_error (s_funcs s0) fa = Some (FWasm ci tp tr nl body) -> okfp D s0 Fm Fg ci) ->
  (forall ii ta fa ci tp tr nl body, okfp D s0 Fm Fg ii ->
     i_tab (the_inst D s0 ii) = Some ta -> In (Some fa) (nth ta (s_tabs s0) []) ->
     nth_error (s_funcs s0) fa = Some (FWasm ci tp tr nl body) -> okfp D s0 Fm Fg ci) ->
  (forall h args g gargs ci tp tr nl body,
     host h args = HReenter g gargs -> nth_error (s_funcs s0) g = Some (FWasm ci tp tr nl body) -> okfp D s0 Fm Fg ci) ->
  forall fuel depth ii s f is, ok_frame D s0 Fm Fg s ii ->
  out_R D (frame_R D Fm Fg) s (exec D host listened maxdepth fuel depth ii s f is).
Proof. exact exec_frame. Qed.
Print Assumptions C06_other_instances_untouched.
