(* C06 — traps, exits and host panics are contained and leave the runtime usable.
   PARTIAL: native stack unwinding / call-engine reuse are exercised by the correspondence run (same api.Function
   objects reused across failures, both engines, a second untouched instance), not modelled. On the reference
   semantics W, for every program, host behaviour (return / panic / exit / re-entry at any nesting depth) and fuel: *)
From Coq Require Import ZArith List.
From Verif Require Import Wasm.Numerics Wasm.Sem Proofs.SemP.
Import ListNotations.
Open Scope Z_scope.

(* "keep behaving afterwards exactly as an instance that had not failed would from that state": what the calls after a
   failing (or succeeding) prefix of a history return depends only on the store the prefix left *)
Theorem C06_continue_as_if :
  forall D host listened maxdepth fuel c1 s c2,
  run_calls D host listened maxdepth fuel s (c1 ++ c2) =
  let '(s1, r1) := run_calls D host listened maxdepth fuel s c1 in
  let '(s2, r2) := run_calls D host listened maxdepth fuel s1 c2 in (s2, r1 ++ r2).
Proof. exact run_calls_app. Qed.
Print Assumptions C06_continue_as_if.

(* a failing call cannot damage the store's shape: code, instances and tables are unchanged, memories remain page
   aligned, never shrink and keep their bound — whatever the outcomes of the calls of the history *)
Theorem C06_store_survives_failures :
  forall D host listened maxdepth, (forall v, 0 <= to_u32 D v) ->
  forall fuel calls s, page_aligned D s ->
  grows D s (fst (run_calls D host listened maxdepth fuel s calls)).
Proof. exact run_calls_mono. Qed.
Print Assumptions C06_store_survives_failures.

(* "all other instances": an execution, failing or not, changes no memory or global outside the footprint of the
   instances reachable from the one that runs (closure under direct, indirect and re-entrant calls) *)
Theorem C06_other_instances_untouched :
  forall D host listened maxdepth (s0 : store D) (Fm Fg : nat -> Prop),
  (forall ii k fa ci tp tr nl body, okfp D s0 Fm Fg ii ->
     nth_error (i_funcs (the_inst D s0 ii)) k = Some fa -> nth_error (s_funcs s0) fa = Some (FWasm ci tp tr nl body) -> okfp D s0 Fm Fg ci) ->
  (forall ii ta fa ci tp tr nl body, okfp D s0 Fm Fg ii ->
     i_tab (the_inst D s0 ii) = Some ta -> In (Some fa) (nth ta (s_tabs s0) []) ->
     nth_error (s_funcs s0) fa = Some (FWasm ci tp tr nl body) -> okfp D s0 Fm Fg ci) ->
  (forall h args g gargs ci tp tr nl body,
     host h args = HReenter g gargs -> nth_error (s_funcs s0) g = Some (FWasm ci tp tr nl body) -> okfp D s0 Fm Fg ci) ->
  forall fuel depth ii s f is, ok_frame D s0 Fm Fg s ii ->
  out_R D (frame_R D Fm Fg) s (exec D host listened maxdepth fuel depth ii s f is).
Proof. exact exec_frame. Qed.
Print Assumptions C06_other_instances_untouched.

(* ================================================================ the call engines' call-boundary state
   "the same function object … keeps behaving afterwards exactly as [one] that had not failed": the state a call engine
   (one per api.Function) carries from one Call to the next, transcribed from callWithStack's deferred closure and
   dispatch loop (compiler: execCtx.exitCode) and from callEngine.call / recoverOnCall (interpreter: len(stack),
   len(frames)) in Engine/CallEngine.v. The native code, the interpreter loop and the Go callbacks are the environment:
   the theorems hold for EVERY trace of their answers (any exit code sequence, any callback panicking with any value,
   stack growth failing, the module closed underneath, listeners), any fuel. The correspondence run reads the real
   fields after every call of every history on both engines. *)
From Verif Require Import Engine.CallEngine Proofs.CallEngineP.

(* whatever state the call engine was in and whatever happened during the call, it is left with ExitCodeOK *)
Theorem C06_call_engine_reset_compiler :
  forall fuel st tr st' e tr', c_call fuel st tr = (st', e, tr') -> e <> CStuck -> exit_code st' = EOK.
Proof. exact c_call_resets. Qed.
Print Assumptions C06_call_engine_reset_compiler.

(* consequently, along ANY history of calls on one function object, each call returns what the same call returns on a
   function object that has never been used *)
Theorem C06_function_object_history_compiler :
  forall fuel trs st, exit_code st = EOK -> ~ In CStuck (snd (c_history fuel st trs)) ->
  snd (c_history fuel st trs) = map (fresh_outcome fuel) trs /\ exit_code (fst (c_history fuel st trs)) = EOK.
Proof. exact c_history_as_fresh. Qed.
Print Assumptions C06_function_object_history_compiler.

Theorem C06_function_object_history_interpreter :
  forall cs st, i_stack st = 0 -> i_frames st = 0 ->
  snd (i_history st cs) = map (fun c => let '(np, nr, a, cl) := c in snd (i_call np nr i_fresh a cl)) cs /\
  i_stack (fst (i_history st cs)) = 0 /\ i_frames (fst (i_history st cs)) = 0.
Proof. exact i_history_as_fresh. Qed.
Print Assumptions C06_function_object_history_interpreter.

(* the error class of each canonical trace is the class it stands for (documented kinds: nil, trap k, stack overflow,
   wrapped panic value, exit error with its code) *)
Theorem C06_error_kinds :
  forall cls, 0 <= cls -> (cls < 7 \/ (cls - 7) mod 100 = 0) -> cls_of (fresh_outcome 64 (canon cls)) = cls.
Proof. exact canon_faithful. Qed.
Print Assumptions C06_error_kinds.

(* the reset is necessary: skipping it for exit errors (the shape of a seeded defect) leaves a stale code and makes a
   later call that never leaves native code report the earlier exit *)
Theorem C06_skipping_reset_refuted :
  exists tr1 tr2 st1 e1 r1,
    c_call_bad 64 c_fresh tr1 = (st1, e1, r1) /\ exit_code st1 <> EOK /\
    snd (fst (c_call_bad 64 st1 tr2)) <> fresh_outcome 64 tr2.
Proof. exact skipping_reset_refuted. Qed.
Print Assumptions C06_skipping_reset_refuted.
