(* C06 — traps, exits and host panics are contained and leave the runtime usable.
   PARTIAL: native stack unwinding / call-engine reuse are exercised by the correspondence run (same api.Function
   objects reused across failures, both engines, a second untouched instance), not modelled. On the reference
   semantics W, for every program, host behaviour (return / panic / exit / re-entry at any nesting depth) and fuel;
   closed modules (an exit closes the instance that called the exiting host function) are modelled on top of W in
   Wasm/SemExit.v: see the second half of this file. *)
From Coq Require Import ZArith List.
From Verif Require Import Wasm.Numerics Wasm.Sem Proofs.SemP.
Import ListNotations.
Open Scope Z_scope.

(* "keep behaving afterwards exactly as an instance that had not failed would from that state": what the calls after a
   failing (or succeeding) prefix of a history return depends only on the store the prefix left *)
Theorem C06_continue_as_if :
  forall D host listened maxdepth fuel c1 s c2,
  run_calls D host listened maxdepth fuel s (c1 ++ c2) =
  let '(s1, r1) := run_calls D host listened maxdepth fuel s c1 in
  let '(s2, r2) := run_calls D host listened maxdepth fuel s1 c2 in (s2, r1 ++ r2).
Proof. exact run_calls_app. Qed.
Print Assumptions C06_continue_as_if.

(* a failing call cannot damage the store's shape: code, instances and tables are unchanged, memories remain page
   aligned, never shrink and keep their bound — whatever the outcomes of the calls of the history *)
Theorem C06_store_survives_failures :
  forall D host listened maxdepth, (forall v, 0 <= to_u32 D v) ->
  forall fuel calls s, page_aligned D s ->
  grows D s (fst (run_calls D host listened maxdepth fuel s calls)).
Proof. exact run_calls_mono. Qed.
Print Assumptions C06_store_survives_failures.

(* "all other instances": an execution, failing or not, changes no memory or global outside the footprint of the
   instances reachable from the one that runs (closure under direct, indirect and re-entrant calls) *)
Theorem C06_other_instances_untouched :
  forall D host listened maxdepth (s0 : store D) (Fm Fg : nat -> Prop),
  (forall ii k fa ci tp tr nl body, okfp D s0 Fm Fg ii ->
     nth_error (i_funcs (the_inst D s0 ii)) k = Some fa -> nth_error (s_funcs s0) fa = Some (FWasm ci tp tr nl body) -> okfp D s0 Fm Fg ci) ->
  (forall ii ta fa ci tp tr nl body, okfp D s0 Fm Fg ii ->
     i_tab (the_inst D s0 ii) = Some ta -> In (Some fa) (nth ta (s_tabs s0) []) ->
     nth_error (s_funcs s0) fa = Some (FWasm ci tp tr nl body) -> okfp D s0 Fm Fg ci) ->
  (forall h args g gargs ci tp tr nl body,
     host h args = HReenter g gargs -> nth_error (s_funcs s0) g = Some (FWasm ci tp tr nl body) -> okfp D s0 Fm Fg ci) ->
  forall fuel depth ii s f is, ok_frame D s0 Fm Fg s ii ->
  out_R D (frame_R D Fm Fg) s (exec D host listened maxdepth fuel depth ii s f is).
Proof. exact exec_frame. Qed.
Print Assumptions C06_other_instances_untouched.

(* ================================================================ the call engines' call-boundary state
   "the same function object … keeps behaving afterwards exactly as [one] that had not failed": the state a call engine
   (one per api.Function) carries from one Call to the next, transcribed from callWithStack's deferred closure and
   dispatch loop (compiler: execCtx.exitCode) and from callEngine.call / recoverOnCall (interpreter: len(stack),
   len(frames)) in Engine/CallEngine.v. The native code, the interpreter loop and the Go callbacks are the environment:
   the theorems hold for EVERY trace of their answers (any exit code sequence, any callback panicking with any value,
   stack growth failing, the module closed underneath, listeners), any fuel. The correspondence run reads the real
   fields after every call of every history on both engines. *)
From Verif Require Import Engine.CallEngine Proofs.CallEngineP.

(* whatever state the call engine was in and whatever happened during the call, it is left with ExitCodeOK *)
Theorem C06_call_engine_reset_compiler :
  forall fuel st tr st' e tr', c_call fuel st tr = (st', e, tr') -> e <> CStuck -> exit_code st' = EOK.
Proof. exact c_call_resets. Qed.
Print Assumptions C06_call_engine_reset_compiler.

(* consequently, along ANY history of calls on one function object, each call returns what the same call returns on a
   function object that has never been used *)
Theorem C06_function_object_history_compiler :
  forall fuel trs st, exit_code st = EOK -> ~ In CStuck (snd (c_history fuel st trs)) ->
  snd (c_history fuel st trs) = map (fresh_outcome fuel) trs /\ exit_code (fst (c_history fuel st trs)) = EOK.
Proof. exact c_history_as_fresh. Qed.
Print Assumptions C06_function_object_history_compiler.

Theorem C06_function_object_history_interpreter :
  forall cs st, i_stack st = 0 -> i_frames st = 0 ->
  snd (i_history st cs) = map (fun c => let '(np, nr, a, cl) := c in snd (i_call np nr i_fresh a cl)) cs /\
  i_stack (fst (i_history st cs)) = 0 /\ i_frames (fst (i_history st cs)) = 0.
Proof. exact i_history_as_fresh. Qed.
Print Assumptions C06_function_object_history_interpreter.

(* the error class of each canonical trace is the class it stands for (documented kinds: nil, trap k, stack overflow,
   wrapped panic value, exit error with its code) *)
Theorem C06_error_kinds :
  forall cls, 0 <= cls -> (cls < 7 \/ (cls - 7) mod 100 = 0) -> cls_of (fresh_outcome 64 (canon cls)) = cls.
Proof. exact canon_faithful. Qed.
Print Assumptions C06_error_kinds.

(* the reset is necessary: skipping it for exit errors (the shape of a seeded defect) leaves a stale code and makes a
   later call that never leaves native code report the earlier exit *)
Theorem C06_skipping_reset_refuted :
  exists tr1 tr2 st1 e1 r1,
    c_call_bad 64 c_fresh tr1 = (st1, e1, r1) /\ exit_code st1 <> EOK /\
    snd (fst (c_call_bad 64 st1 tr2)) <> fresh_outcome 64 tr2.
Proof. exact skipping_reset_refuted. Qed.
Print Assumptions C06_skipping_reset_refuted.

(* ================================================================ closed modules (Wasm/SemExit.v: W + per-instance
   closed flags and exit codes; [who] maps the code of a host function to the instance that calls it). For every
   program, host behaviour, fuel, depth bound and caller map: *)
From Verif Require Import Wasm.SemExit Proofs.SemExitP.

(* "the exit error carries the exit code": an export call that ends in an exit reports the code of the LAST host call
   logged, which is an exiting one - the innermost exiting call of the chain, however many guest frames, instances
   and re-entrant host frames it unwinds *)
Theorem C06_exit_code_of_innermost_exit :
  forall D host listened maxdepth fuel s fa args s' c,
  call_export D host listened maxdepth fuel s fa args = (s', RTrap (TExit c)) ->
  exists h hargs, last_host D (s_log s') = Some (h, hargs) /\ host h hargs = HExit c.
Proof. exact exit_is_last_host_call. Qed.
Print Assumptions C06_exit_code_of_innermost_exit.

(* an exit closes exactly the instance that made that host call (first code wins if it was closed already); every
   other instance - the one the chain entered through, the ones in the middle of the chain - keeps its status *)
Theorem C06_exit_closes_only_the_caller :
  forall D host listened maxdepth who fuel x fa args c,
  snd (call_export D host listened maxdepth fuel (x_s x) fa args) = RTrap (TExit c) ->
  snd (xcall D host listened maxdepth who fuel x fa args) = RTrap (TExit c) /\
  exists h hargs,
    last_host D (s_log (x_s (fst (xcall D host listened maxdepth who fuel x fa args)))) = Some (h, hargs) /\ host h hargs = HExit c /\
    x_cl (fst (xcall D host listened maxdepth who fuel x fa args)) = mark (x_cl x) (who h) c /\
    (exists d, closed_code (x_cl (fst (xcall D host listened maxdepth who fuel x fa args))) (who h) = Some d /\
               (closed_code (x_cl x) (who h) = None -> d = c)) /\
    (forall j, j <> who h -> closed_code (x_cl (fst (xcall D host listened maxdepth who fuel x fa args))) j = closed_code (x_cl x) j).
Proof. exact xcall_exit. Qed.
Print Assumptions C06_exit_closes_only_the_caller.

(* traps, stack exhaustion, host panics and normal returns close nothing *)
Theorem C06_other_failures_close_nothing :
  forall D host listened maxdepth who fuel x fa args,
  (forall c, snd (call_export D host listened maxdepth fuel (x_s x) fa args) <> RTrap (TExit c)) ->
  x_cl (fst (xcall D host listened maxdepth who fuel x fa args)) = x_cl x.
Proof. exact xcall_no_exit_no_close. Qed.
Print Assumptions C06_other_failures_close_nothing.

(* effects persist and open instances keep behaving as in W: after ANY history (failures of every kind, exits at any
   depth, calls on closed instances) the store is the one W reaches, and a call into an open instance returns exactly
   what W returns from that store, whatever other instances are closed *)
Theorem C06_open_instance_as_in_W :
  forall D host listened maxdepth who fuel x fa args,
  (forall ii, inst_of D (x_s x) fa = Some ii -> closed_code (x_cl x) ii = None) ->
  snd (xcall D host listened maxdepth who fuel x fa args) = snd (call_export D host listened maxdepth fuel (x_s x) fa args).
Proof. exact xcall_open_as_W. Qed.
Print Assumptions C06_open_instance_as_in_W.

Theorem C06_history_vs_W :
  forall D host listened maxdepth who fuel calls x,
  x_s (fst (xrun_calls D host listened maxdepth who fuel x calls)) = fst (run_calls D host listened maxdepth fuel (x_s x) calls) /\
  Forall2 (res_rel D) (snd (xrun_calls D host listened maxdepth who fuel x calls)) (snd (run_calls D host listened maxdepth fuel (x_s x) calls)).
Proof. exact xrun_calls_vs_W. Qed.
Print Assumptions C06_history_vs_W.

(* a call on an export of a closed instance never returns values (the model, like the pinned code, runs it and reports
   the instance's exit error instead of the values) *)
Theorem C06_closed_instance_never_succeeds :
  forall D host listened maxdepth who fuel x fa args ii c,
  inst_of D (x_s x) fa = Some ii -> closed_code (x_cl x) ii = Some c ->
  (forall vs, snd (xcall D host listened maxdepth who fuel x fa args) <> RVals vs) /\
  (forall vs, snd (call_export D host listened maxdepth fuel (x_s x) fa args) = RVals vs ->
              snd (xcall D host listened maxdepth who fuel x fa args) = RTrap (TExit c)).
Proof. exact xcall_closed_never_values. Qed.
Print Assumptions C06_closed_instance_never_succeeds.

(* closed stays closed with its first code *)
Theorem C06_closed_is_permanent :
  forall D host listened maxdepth who fuel calls x j d,
  closed_code (x_cl x) j = Some d ->
  closed_code (x_cl (fst (xrun_calls D host listened maxdepth who fuel x calls))) j = Some d.
Proof. exact xrun_closed_mono. Qed.
Print Assumptions C06_closed_is_permanent.

(* continue-as-if on the extended state (store + closed flags), for export-call histories and for histories of
   instantiations (start functions included) and calls on linked programs (store, positions, closed flags, names) *)
Theorem C06_continue_as_if_closed :
  forall D host listened maxdepth who fuel c1 x c2,
  xrun_calls D host listened maxdepth who fuel x (c1 ++ c2) =
  let '(x1, r1) := xrun_calls D host listened maxdepth who fuel x c1 in
  let '(x2, r2) := xrun_calls D host listened maxdepth who fuel x1 c2 in (x2, r1 ++ r2).
Proof. exact xrun_calls_app. Qed.
Print Assumptions C06_continue_as_if_closed.

Theorem C06_continue_as_if_linked :
  forall hs a1 x a2,
  xlrun hs x (a1 ++ a2) =
  let '(x1, r1) := xlrun hs x a1 in
  let '(x2, r2) := xlrun hs x1 a2 in (x2, r1 ++ r2).
Proof. exact xlrun_app. Qed.
Print Assumptions C06_continue_as_if_linked.
