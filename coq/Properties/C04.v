(* C04 — linked modules share state exactly as the specification says.
   Only statements, `exact <lemma>` and Print Assumptions live here. Rt/Linking.v holds the model:
   [code_accept] transcribes internal/wasm/store.go resolveImports (its page arithmetic and the normalised
   memory maximum unfold to coq/Gen definitions regenerated from memory.go and binary/decoder.go),
   [extern_match] is the specification's import subtyping, [instantiate] the instantiation sequence on the
   multi-instance store of the reference semantics W (Wasm/Sem.v). *)
From Verif Require Import Lib.GoInt Gen.GenC04Wasm Gen.GenC04Binary Wasm.Numerics Wasm.Sem Proofs.SemP Rt.Linking Proofs.LinkingP Proofs.LiveFrameP.
Open Scope Z_scope.

(* the boolean [extern_match] is the specification's relation: function types equal; limits {n1,m1?} <= {n2,m2?}
   iff n1 >= n2 and (m2 absent or m1 present and m1 <= m2), element types equal; memory types: limits as above AND the
   same shared flag (threads proposal); global types equal incl. mutability *)
Theorem C04_extern_match_is_spec : forall act imp, extern_match act imp = true <-> extern_sub act imp.
Proof. exact extern_match_sub. Qed.
Print Assumptions C04_extern_match_is_spec.

(* an import is accepted ONLY IF its declared type matches the export: every extern kind, all limits,
   mutabilities and types. The single excluded case ([unbounded_vs_limit]: the importer declares exactly the
   runtime's page limit as maximum, the exporter declares none) is refuted below. *)
Theorem C04_import_accept_sound : forall L d x,
  link_wf L d x -> ~ unbounded_vs_limit L d x -> code_accept L d x = 0 ->
  extern_match (spec_of_xobj x) (spec_of_idesc d) = true.
Proof. exact import_accept_sound. Qed.
Print Assumptions C04_import_accept_sound.

(* open finding memory-import-max-vs-unbounded, replayed on both engines by the check *)
Theorem C04_memory_unbounded_refuted : exists L d x,
  link_wf L d x /\ unbounded_vs_limit L d x /\ code_accept L d x = 0 /\
  extern_match (spec_of_xobj x) (spec_of_idesc d) = false.
Proof. exact memory_unbounded_refuted. Qed.
Print Assumptions C04_memory_unbounded_refuted.

(* ... and IF it matches ("instantiation succeeds exactly when every import matches"): whatever the specification's
   subtyping accepts, the import check accepts. Tables are judged against their CURRENT size, as memories are (the
   external type of a table instance carries its current size as the minimum; resolveImports does so since 3fc425f). The
   check's witness w-table-grown ties this to the code: a table grown by table.grow, then imported with the larger minimum
   (accepted) and with one more (rejected); a regression is reported with sig rejects-spec-accepts / table-current-size *)
Theorem C04_import_accept_complete : forall L d x,
  link_wf L d x -> extern_match (spec_of_xobj x) (spec_of_idesc d) = true -> code_accept L d x = 0.
Proof. exact import_accept_complete. Qed.
Print Assumptions C04_import_accept_complete.

(* one shared object: for every value domain, host, listener set, after ANY history of export calls on any
   instances, two instances whose records name the same store address still do, and in the store reached a store
   through either is read back through the other (every width, address, offset, value); likewise globals; both see
   the same table *)
Theorem C04_shared_object : forall D host listened maxdepth fuel calls s a b,
  let s1 := fst (run_calls D host listened maxdepth fuel s calls) in
  (forall ma, shares_mem D s a b ma ->
     shares_mem D s1 a b ma /\
     forall f v addr stk n off s' f', stack f = v :: addr :: stk ->
       step_simple D a s1 f (Store n off) = SOk s' f' ->
       forall g addr' stk' w, stack g = addr' :: stk' -> to_u32 D addr' = to_u32 D addr ->
       step_simple D b s' g (Load w n false off) =
         SOk s' (setstack D g (of_bits D w (to_bits D v mod 2 ^ (8 * Z.of_nat n)) :: stk'))) /\
  (forall ka kb ga, shares_glob D s a ka b kb ga ->
     shares_glob D s1 a ka b kb ga /\
     forall f v stk s' f', (ga < length (s_globals s1))%nat -> stack f = v :: stk ->
       step_simple D a s1 f (GlobalSet ka) = SOk s' f' ->
       forall g, step_simple D b s' g (GlobalGet kb) = SOk s' (setstack D g (v :: stack g))) /\
  (forall ta, shares_tab D s a b ta -> shares_tab D s1 a b ta /\ tab_view D s1 a = tab_view D s1 b).
Proof. exact shared_object. Qed.
Print Assumptions C04_shared_object.

(* ... and along one arbitrary execution: any instruction sequence, in any instance, whatever the outcome *)
Theorem C04_shared_along_exec : forall D host listened maxdepth fuel depth ii s f is a b,
  match exec D host listened maxdepth fuel depth ii s f is with
  | Normal s' _ | Branch _ s' _ | Ret s' _ | Trap _ s' =>
      (forall ma, shares_mem D s a b ma -> shares_mem D s' a b ma) /\
      (forall ka kb ga, shares_glob D s a ka b kb ga -> shares_glob D s' a ka b kb ga) /\
      (forall ta, shares_tab D s a b ta -> shares_tab D s' a b ta)
  | OutOfFuel => True
  end.
Proof. exact shared_along_exec. Qed.
Print Assumptions C04_shared_along_exec.

(* values captured at instantiation: after any history of global.set's and instantiations, on either engine
   (owns = the engine keeps the cell outside GlobalInstance), a VALIDATED constant expression evaluated the way the
   code does it (reading GlobalInstance.Val) is the referenced global's current value: initialisers, data offsets ... *)
Theorem C04_init_reads_current : forall owns ops imps w e,
  let st := grun owns ops in
  valid_cexpr st imps e = true -> init_value_code st imps w e = init_value_spec st imps w e.
Proof. exact init_reads_current. Qed.
Print Assumptions C04_init_reads_current.

(* ... and element-segment offsets (table.go verifyImportGlobalI32, immutability required since 7de74ee) *)
Theorem C04_elem_offset_reads_current : forall owns ops imps e,
  let st := grun owns ops in
  valid_elem_offset st imps e = true -> init_value_code st imps 32 e = init_value_spec st imps 32 e.
Proof. exact elem_offset_reads_current. Qed.
Print Assumptions C04_elem_offset_reads_current.

(* a failing instantiation (invalid module, unlinkable import, out-of-range data segment; model of the code with
   out-of-range ELEMENT segments ignored, open finding elem-oob-ignored): nothing at all changes when it fails before
   allocation; otherwise earlier functions, instance records, globals and the log are untouched, every earlier memory
   keeps size and bound and holds the old contents overwritten by a prefix of the module's data segments, every earlier
   table keeps its length with each slot unchanged or holding a function of the new module; the module is not registered *)
Theorem C04_failed_instantiate_frame : forall starter L st m st' c,
  instantiate starter L st m = (st', c) -> c <> 0 -> c <> E_START -> c <> E_FUEL ->
  let s := ls st in let s' := ls st' in
  (c <> E_DATA -> s' = s /\ ls_g st' = ls_g st /\ ls_t st' = ls_t st /\ ls_m st' = ls_m st) /\
  ls_x st' = ls_x st ++ [None] /\
  firstn (length (s_funcs s)) (s_funcs s') = s_funcs s /\
  firstn (length (s_insts s)) (s_insts s') = s_insts s /\
  firstn (length (s_globals s)) (s_globals s') = s_globals s /\
  s_log s' = s_log s /\
  (forall a mem, nth_error (s_mems s) a = Some mem ->
     exists mem', nth_error (s_mems s') a = Some mem' /\ mlen mem' = mlen mem /\ mmax mem' = mmax mem /\
       exists imps k, (k <= length (md_datas m))%nat /\
         mdata mem' = fold_left (fun d seg => wr_bytes d (data_offset s' imps (fst seg)) (snd seg)) (firstn k (md_datas m)) (mdata mem)) /\
  (forall t tab, nth_error (s_tabs s) t = Some tab ->
     exists tab' fidx, nth_error (s_tabs s') t = Some tab' /\ tab_ext fidx tab tab').
Proof. exact failed_instantiate_frame. Qed.
Print Assumptions C04_failed_instantiate_frame.

(* applyData itself: the writes of a prefix of the segments, failing exactly when the prefix is proper *)
Theorem C04_data_segments_prefix : forall ds s ma imps i s' j, 0 <= i -> apply_datas s ma imps ds i = (s', j) ->
  exists k, (k <= length ds)%nat /\ s' = fold_left (write_data ma imps) (firstn k ds) s /\
            ((j = -1 /\ k = length ds) \/ (j = i + Z.of_nat k /\ (k < length ds)%nat)).
Proof. exact apply_datas_prefix. Qed.
Print Assumptions C04_data_segments_prefix.

(* ---- the shared flag of a memory type (threads proposal; resolveImports checks it since adbc65a). It is part of
   [extern_match] / [extern_sub] above and of [code_accept], so C04_import_accept_sound covers it; stated on its own:
   an accepted memory import has the exporter's sharedness, without any side condition ... *)
Theorem C04_memory_shared_flag_checked : forall L mn hm mx sh buflen maxN ehm emx xsh,
  code_accept L (DMem mn hm mx sh) (XMem buflen maxN ehm emx xsh) = 0 -> sh = xsh.
Proof. exact shared_flag_checked. Qed.
Print Assumptions C04_memory_shared_flag_checked.

(* ... which is exactly what the specification's matching of memory types adds to the limits *)
Theorem C04_memory_match_is_limits_and_shared : forall l sh l' sh',
  extern_match (TMem l sh) (TMem l' sh') = true <-> limits_match l l' = true /\ sh = sh'.
Proof. exact extern_match_shared. Qed.
Print Assumptions C04_memory_match_is_limits_and_shared.

(* ================================================================ live frames: no per-frame copy of a shared object
   (lemmas and the three-instance examples in Proofs/LiveFrameP.v; tie: the live-frame family of the C04 check,
   replayed on W through Rt/LinkLive.v) *)

(* sequencing, with exact fuel accounting, for every value domain, host (returning, panicking, exiting, RE-ENTERING),
   listener set and depth bound: if the prefix ends normally, the composite run with one more unit of fuel IS the run of
   the suffix (with at least two units) in the store and frame the prefix reached; conversely a composite run that
   finishes is the prefix's run (same fuel) followed, if that ended normally, by a run of the suffix from what it reached *)
Theorem C04_exec_sequencing : forall D host listened maxdepth fuel depth ii s f is1 is2,
  (forall s' f', exec D host listened maxdepth fuel depth ii s f is1 = Normal s' f' ->
     exists n, (2 <= n)%nat /\
       exec D host listened maxdepth (S fuel) depth ii s f (is1 ++ is2) = exec D host listened maxdepth n depth ii s' f' is2) /\
  (forall o, exec D host listened maxdepth fuel depth ii s f (is1 ++ is2) = o -> o <> OutOfFuel ->
     match exec D host listened maxdepth fuel depth ii s f is1 with
     | Normal s' f' => exists n, (1 <= n)%nat /\ exec D host listened maxdepth n depth ii s' f' is2 = o
     | OutOfFuel => False
     | o1 => o1 = o
     end).
Proof. exact exec_sequencing. Qed.
Print Assumptions C04_exec_sequencing.

(* any non-control instruction placed after ANY instruction sequence (calls into other instances, indirect calls through a
   shared table, host functions re-entering the guest, any depth) acts on the store that sequence reached *)
Theorem C04_step_after_any_exec : forall D host listened maxdepth fuel depth ii s f is1 i s' f',
  simple_instr i = true ->
  exec D host listened maxdepth fuel depth ii s f is1 = Normal s' f' ->
  exec D host listened maxdepth (S fuel) depth ii s f (is1 ++ [i]) =
    match step_simple D ii s' f' i with SOk s1 f1 => Normal s1 f1 | STrap t => Trap t s' | SNot => OutOfFuel end.
Proof. exact step_after_any_exec. Qed.
Print Assumptions C04_step_after_any_exec.

(* global.get k in instance ii, after any execution, pushes the value the store reached holds at the store address
   i_globals(ii)[k] (an address fixed by the instance record, which no execution changes): there is no per-frame copy.
   Both directions: if the prefix ends normally so does prefix ++ [global.get k], with that value; and every normal run of
   prefix ++ [global.get k] is a normal run of the prefix followed by that push *)
Theorem C04_global_read_sees_latest_write : forall D host listened maxdepth fuel depth ii s f is1 k,
  (forall s' f', exec D host listened maxdepth fuel depth ii s f is1 = Normal s' f' ->
     forall ga v, nth_error (i_globals (the_inst D s ii)) k = Some ga -> nth_error (s_globals s') ga = Some v ->
     exec D host listened maxdepth (S fuel) depth ii s f (is1 ++ [GlobalGet k]) = Normal s' (setstack D f' (v :: stack f'))) /\
  (forall s2 f2, exec D host listened maxdepth fuel depth ii s f (is1 ++ [GlobalGet k]) = Normal s2 f2 ->
     exists f' ga v, exec D host listened maxdepth fuel depth ii s f is1 = Normal s2 f' /\
       nth_error (i_globals (the_inst D s ii)) k = Some ga /\ nth_error (s_globals s2) ga = Some v /\
       f2 = setstack D f' (v :: stack f')).
Proof. exact global_read_sees_latest_write. Qed.
Print Assumptions C04_global_read_sees_latest_write.

(* the step itself: global.get reads the store cell, nothing else *)
Theorem C04_global_get_reads_store : forall D ii s f k,
  step_simple D ii s f (GlobalGet k) =
    match glob_read D s ii k with Some v => SOk s (setstack D f (v :: stack f)) | None => STrap TStuck end.
Proof. exact global_get_reads_store. Qed.
Print Assumptions C04_global_get_reads_store.

(* memory: a load after any execution reads the bytes the memory at store address i_mem(ii) holds in the store reached, and is
   bounds-checked against that memory's CURRENT length (a growth by anybody during the prefix is seen); memory.size likewise *)
Theorem C04_load_sees_latest_write : forall D host listened maxdepth fuel depth ii s f is1 w n sx off s' f' a stk ma m,
  exec D host listened maxdepth fuel depth ii s f is1 = Normal s' f' -> stack f' = a :: stk ->
  i_mem (the_inst D s ii) = Some ma -> nth_error (s_mems s') ma = Some m ->
  exec D host listened maxdepth (S fuel) depth ii s f (is1 ++ [Load w n sx off]) =
    if to_u32 D a + off + Z.of_nat n <=? mlen m
    then Normal s' (setstack D f' (of_bits D w (if sx then sext n w (rd_le (mdata m) (to_u32 D a + off) n)
                                               else rd_le (mdata m) (to_u32 D a + off) n) :: stk))
    else Trap TOob s'.
Proof. exact load_sees_latest_write. Qed.
Print Assumptions C04_load_sees_latest_write.

Theorem C04_memory_size_sees_growth : forall D host listened maxdepth fuel depth ii s f is1 s' f' ma m,
  exec D host listened maxdepth fuel depth ii s f is1 = Normal s' f' ->
  i_mem (the_inst D s ii) = Some ma -> nth_error (s_mems s') ma = Some m ->
  exec D host listened maxdepth (S fuel) depth ii s f (is1 ++ [MemorySize]) =
    Normal s' (setstack D f' (of_bits D 32 (mlen m / 65536) :: stack f')).
Proof. exact memory_size_sees_growth. Qed.
Print Assumptions C04_memory_size_sees_growth.

(* aliasing: two instances whose records name the same store address read the same thing in EVERY state reached by any
   execution (any instance, any code, any outcome): loads and memory.size agree (same frame, every width/offset), global
   reads agree, the table consulted by call_indirect is the same list *)
Theorem C04_aliased_reads_agree_along_exec : forall D host listened maxdepth fuel depth ii s f is a b,
  match exec D host listened maxdepth fuel depth ii s f is with
  | Normal s' _ | Branch _ s' _ | Ret s' _ | Trap _ s' =>
      (forall ma, shares_mem D s a b ma ->
         (forall g w n sx off, step_simple D a s' g (Load w n sx off) = step_simple D b s' g (Load w n sx off)) /\
         (forall g, step_simple D a s' g MemorySize = step_simple D b s' g MemorySize)) /\
      (forall ka kb ga, shares_glob D s a ka b kb ga ->
         glob_read D s' a ka = glob_read D s' b kb /\
         forall g, step_simple D a s' g (GlobalGet ka) = step_simple D b s' g (GlobalGet kb)) /\
      (forall ta, shares_tab D s a b ta -> tab_view D s' a = tab_view D s' b)
  | OutOfFuel => True
  end.
Proof. exact aliased_reads_agree_along_exec. Qed.
Print Assumptions C04_aliased_reads_agree_along_exec.

(* ... and by any history of export calls *)
Theorem C04_aliased_reads_agree_after_calls : forall D host listened maxdepth fuel calls s a b,
  let s1 := fst (run_calls D host listened maxdepth fuel s calls) in
  (forall ma, shares_mem D s a b ma ->
     (forall g w n sx off, step_simple D a s1 g (Load w n sx off) = step_simple D b s1 g (Load w n sx off)) /\
     (forall g, step_simple D a s1 g MemorySize = step_simple D b s1 g MemorySize)) /\
  (forall ka kb ga, shares_glob D s a ka b kb ga ->
     glob_read D s1 a ka = glob_read D s1 b kb /\
     forall g, step_simple D a s1 g (GlobalGet ka) = step_simple D b s1 g (GlobalGet kb)) /\
  (forall ta, shares_tab D s a b ta -> tab_view D s1 a = tab_view D s1 b).
Proof. exact aliased_reads_agree_after_calls. Qed.
Print Assumptions C04_aliased_reads_agree_after_calls.

(* the live-frame statement in one piece: instance a's frame runs ANY code (which may reach instance b directly, through a
   table, through the host, at any depth), then reads its global ka; b names the same store address as its global kb.
   What a's frame reads is what b reads in the state reached: "the exporter's object itself, not a copy" *)
Theorem C04_live_frame_read_is_shared_value : forall D host listened maxdepth fuel depth a s f is1 ka b kb ga s' f',
  shares_glob D s a ka b kb ga ->
  exec D host listened maxdepth fuel depth a s f is1 = Normal s' f' ->
  match glob_read D s' b kb with
  | Some v => exec D host listened maxdepth (S fuel) depth a s f (is1 ++ [GlobalGet ka]) = Normal s' (setstack D f' (v :: stack f'))
  | None => exec D host listened maxdepth (S fuel) depth a s f (is1 ++ [GlobalGet ka]) = Trap TStuck s'
  end.
Proof. exact live_frame_read_is_shared_value. Qed.
Print Assumptions C04_live_frame_read_is_shared_value.
