(* C04 — linked modules share state exactly as the specification says.
   Only statements, `exact <lemma>` and Print Assumptions live here. Rt/Linking.v holds the model:
   [code_accept] transcribes internal/wasm/store.go resolveImports (its page arithmetic and the normalised
   memory maximum unfold to coq/Gen definitions regenerated from memory.go and binary/decoder.go),
   [extern_match] is the specification's import subtyping, [instantiate] the instantiation sequence on the
   multi-instance store of the reference semantics W (Wasm/Sem.v). *)
From Verif Require Import Lib.GoInt Gen.GenC04Wasm Gen.GenC04Binary Wasm.Numerics Wasm.Sem Proofs.SemP Rt.Linking Proofs.LinkingP.
Open Scope Z_scope.

(* the boolean [extern_match] is the specification's relation: function types equal; limits {n1,m1?} <= {n2,m2?}
   iff n1 >= n2 and (m2 absent or m1 present and m1 <= m2), element types equal; global types equal incl. mutability *)
Theorem C04_extern_match_is_spec : forall act imp, extern_match act imp = true <-> extern_sub act imp.
Proof. exact extern_match_sub. Qed.
Print Assumptions C04_extern_match_is_spec.

(* an import is accepted ONLY IF its declared type matches the export: every extern kind, all limits,
   mutabilities and types. The single excluded case ([unbounded_vs_limit]: the importer declares exactly the
   runtime's page limit as maximum, the exporter declares none) is refuted below. *)
Theorem C04_import_accept_sound : forall L d x,
  link_wf L d x -> ~ unbounded_vs_limit L d x -> code_accept L d x = 0 ->
  extern_match (spec_of_xobj x) (spec_of_idesc d) = true.
Proof. exact import_accept_sound. Qed.
Print Assumptions C04_import_accept_sound.

(* open finding memory-import-max-vs-unbounded, replayed on both engines by the check *)
Theorem C04_memory_unbounded_refuted : exists L d x,
  link_wf L d x /\ unbounded_vs_limit L d x /\ code_accept L d x = 0 /\
  extern_match (spec_of_xobj x) (spec_of_idesc d) = false.
Proof. exact memory_unbounded_refuted. Qed.
Print Assumptions C04_memory_unbounded_refuted.

(* the code is stricter than the specification for tables (declared minimum instead of the current length):
   allowed by the "only if" wording *)
Theorem C04_stricter_than_spec_example : exists L d x,
  link_wf L d x /\ extern_match (spec_of_xobj x) (spec_of_idesc d) = true /\ code_accept L d x <> 0.
Proof. exact stricter_than_spec_example. Qed.
Print Assumptions C04_stricter_than_spec_example.

(* one shared object: for every value domain, host, listener set, after ANY history of export calls on any
   instances, two instances whose records name the same store address still do, and in the store reached a store
   through either is read back through the other (every width, address, offset, value); likewise globals; both see
   the same table *)
Theorem C04_shared_object : forall D host listened maxdepth fuel calls s a b,
  let s1 := fst (run_calls D host listened maxdepth fuel s calls) in
  (forall ma, shares_mem D s a b ma ->
     shares_mem D s1 a b ma /\
     forall f v addr stk n off s' f', stack f = v :: addr :: stk ->
       step_simple D a s1 f (Store n off) = SOk s' f' ->
       forall g addr' stk' w, stack g = addr' :: stk' -> to_u32 D addr' = to_u32 D addr ->
       step_simple D b s' g (Load w n false off) =
         SOk s' (setstack D g (of_bits D w (to_bits D v mod 2 ^ (8 * Z.of_nat n)) :: stk'))) /\
  (forall ka kb ga, shares_glob D s a ka b kb ga ->
     shares_glob D s1 a ka b kb ga /\
     forall f v stk s' f', (ga < length (s_globals s1))%nat -> stack f = v :: stk ->
       step_simple D a s1 f (GlobalSet ka) = SOk s' f' ->
       forall g, step_simple D b s' g (GlobalGet kb) = SOk s' (setstack D g (v :: stack g))) /\
  (forall ta, shares_tab D s a b ta -> shares_tab D s1 a b ta /\ tab_view D s1 a = tab_view D s1 b).
Proof. exact shared_object. Qed.
Print Assumptions C04_shared_object.

(* ... and along one arbitrary execution: any instruction sequence, in any instance, whatever the outcome *)
Theorem C04_shared_along_exec : forall D host listened maxdepth fuel depth ii s f is a b,
  match exec D host listened maxdepth fuel depth ii s f is with
  | Normal s' _ | Branch _ s' _ | Ret s' _ | Trap _ s' =>
      (forall ma, shares_mem D s a b ma -> shares_mem D s' a b ma) /\
      (forall ka kb ga, shares_glob D s a ka b kb ga -> shares_glob D s' a ka b kb ga) /\
      (forall ta, shares_tab D s a b ta -> shares_tab D s' a b ta)
  | OutOfFuel => True
  end.
Proof. exact shared_along_exec. Qed.
Print Assumptions C04_shared_along_exec.

(* values captured at instantiation: after any history of global.set's and instantiations, on either engine
   (owns = the engine keeps the cell outside GlobalInstance), a VALIDATED constant expression evaluated the way the
   code does it (reading GlobalInstance.Val) is the referenced global's current value: initialisers, data offsets ... *)
Theorem C04_init_reads_current : forall owns ops imps w e,
  let st := grun owns ops in
  valid_cexpr st imps e = true -> init_value_code st imps w e = init_value_spec st imps w e.
Proof. exact init_reads_current. Qed.
Print Assumptions C04_init_reads_current.

(* ... and element-segment offsets (table.go verifyImportGlobalI32, immutability required since 7de74ee) *)
Theorem C04_elem_offset_reads_current : forall owns ops imps e,
  let st := grun owns ops in
  valid_elem_offset st imps e = true -> init_value_code st imps 32 e = init_value_spec st imps 32 e.
Proof. exact elem_offset_reads_current. Qed.
Print Assumptions C04_elem_offset_reads_current.

(* a failing instantiation (invalid module, unlinkable import, out-of-range data segment; model of the code with
   out-of-range ELEMENT segments ignored, open finding elem-oob-ignored): nothing at all changes when it fails before
   allocation; otherwise earlier functions, instance records, globals and the log are untouched, every earlier memory
   keeps size and bound and holds the old contents overwritten by a prefix of the module's data segments, every earlier
   table keeps its length with each slot unchanged or holding a function of the new module; the module is not registered *)
Theorem C04_failed_instantiate_frame : forall starter L st m st' c,
  instantiate starter L st m = (st', c) -> c <> 0 -> c <> E_START -> c <> E_FUEL ->
  let s := ls st in let s' := ls st' in
  (c <> E_DATA -> s' = s /\ ls_g st' = ls_g st /\ ls_t st' = ls_t st /\ ls_m st' = ls_m st) /\
  ls_x st' = ls_x st ++ [None] /\
  firstn (length (s_funcs s)) (s_funcs s') = s_funcs s /\
  firstn (length (s_insts s)) (s_insts s') = s_insts s /\
  firstn (length (s_globals s)) (s_globals s') = s_globals s /\
  s_log s' = s_log s /\
  (forall a mem, nth_error (s_mems s) a = Some mem ->
     exists mem', nth_error (s_mems s') a = Some mem' /\ mlen mem' = mlen mem /\ mmax mem' = mmax mem /\
       exists imps k, (k <= length (md_datas m))%nat /\
         mdata mem' = fold_left (fun d seg => wr_bytes d (data_offset s' imps (fst seg)) (snd seg)) (firstn k (md_datas m)) (mdata mem)) /\
  (forall t tab, nth_error (s_tabs s) t = Some tab ->
     exists tab' fidx, nth_error (s_tabs s') t = Some tab' /\ tab_ext fidx tab tab').
Proof. exact failed_instantiate_frame. Qed.
Print Assumptions C04_failed_instantiate_frame.

(* applyData itself: the writes of a prefix of the segments, failing exactly when the prefix is proper *)
Theorem C04_data_segments_prefix : forall ds s ma imps i s' j, 0 <= i -> apply_datas s ma imps ds i = (s', j) ->
  exists k, (k <= length ds)%nat /\ s' = fold_left (write_data ma imps) (firstn k ds) s /\
            ((j = -1 /\ k = length ds) \/ (j = i + Z.of_nat k /\ (k < length ds)%nat)).
Proof. exact apply_datas_prefix. Qed.
Print Assumptions C04_data_segments_prefix.
