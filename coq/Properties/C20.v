(* C20 — function listeners see every call, correctly bracketed.
   PARTIAL: the engines' listener plumbing (native return-address walk, call-engine defer) is not modelled;
   both engines' event streams are compared with W's on generated programs by the C20 correspondence run.
   On W: for every program, listener set, host behaviour (returning, panicking, exiting, re-entering) and fuel,
   the events appended by a call or a history of calls are well bracketed: every Before is closed by exactly one
   After or Abort of the same function, properly nested, also when a trap unwinds through many frames. *)
From Coq Require Import ZArith List.
From Verif Require Import Wasm.Numerics Wasm.Sem Proofs.SemP.
Import ListNotations.
Open Scope Z_scope.

Theorem C20_bracketed_call :
  forall D host listened maxdepth fuel s fa args,
  exists l, s_log (fst (call_export D host listened maxdepth fuel s fa args)) = s_log s ++ l /\ balanced D l.
Proof. exact call_export_bracketed. Qed.
Print Assumptions C20_bracketed_call.

Theorem C20_bracketed_history :
  forall D host listened maxdepth fuel calls s,
  exists l, s_log (fst (run_calls D host listened maxdepth fuel s calls)) = s_log s ++ l /\ balanced D l.
Proof. exact run_calls_bracketed. Qed.
Print Assumptions C20_bracketed_history.

(* listeners are transparent: running with any listener set and running without listeners proceed in lock step —
   same outcome kind, same trap, same values on the stack, same memories, globals and tables — and the log of the
   run without listeners is the log of the run with listeners with the listener events erased *)
From Verif Require Import Proofs.SemRelP.
Theorem C20_transparent :
  forall D host listened maxdepth fuel depth ii s1 s2 f is, erased D s1 s2 ->
  out_rel D D eq (erased D) (exec D host listened maxdepth fuel depth ii s1 f is)
                            (exec D host (fun _ => false) maxdepth fuel depth ii s2 f is).
Proof. exact listeners_transparent. Qed.
Print Assumptions C20_transparent.

(* "carrying the actual parameters and results": an invocation of a listened function with arguments [args] — at any
   call depth, from any caller (direct, indirect, host re-entry), whatever happens inside — appends
   EBefore fa args :: mid ++ [EAfter fa vs] where [vs] are exactly the values handed back to its caller, or
   ... ++ [EAbort fa] when it ends in a trap (any kind: guest trap, host panic, exit, exhaustion), with [mid] well
   bracketed; an invocation of a function that is not listened appends a well-bracketed list and no event of its own *)
From Verif Require Import Proofs.ListenerValuesP.
Theorem C20_events_carry_actual_values :
  forall D host listened maxdepth fu depth s fa args,
  match invoke_with D host listened maxdepth (exec D host listened maxdepth fu) depth s fa args with
  | IOk s' vs =>
      if listened fa
      then exists mid, s_log s' = s_log s ++ EBefore fa args :: mid ++ [EAfter fa vs] /\ balanced D mid
      else exists l, s_log s' = s_log s ++ l /\ balanced D l
  | ITrap t s' =>
      if listened fa
      then exists mid, s_log s' = s_log s ++ EBefore fa args :: mid ++ [EAbort fa] /\ balanced D mid
      else exists l, s_log s' = s_log s ++ l /\ balanced D l
  | IFuel => True
  end.
Proof. exact invoke_events. Qed.
Print Assumptions C20_events_carry_actual_values.

(* the same seen from the embedder: the values an exported call returns are the ones its After event carries (completed
   by the untouched rest of the argument list when the caller passed more than the function takes) *)
Theorem C20_export_call_events :
  forall D host listened maxdepth fuel s fa args tp tr ci nl body,
  nth_error (s_funcs s) fa = Some (FWasm ci tp tr nl body) -> listened fa = true ->
  match call_export D host listened maxdepth fuel s fa args with
  | (s', RVals vs) => exists mid ws, s_log s' = s_log s ++ EBefore fa (rev (firstn (length tp) (rev args))) :: mid ++ [EAfter fa ws] /\ balanced D mid /\
                                     vs = rev (firstn (length tr) (rev ws ++ skipn (length tp) (rev args)))
  | (s', RTrap t) => t = TStuck \/ exists mid, s_log s' = s_log s ++ EBefore fa (rev (firstn (length tp) (rev args))) :: mid ++ [EAbort fa] /\ balanced D mid
  | (_, RFuel) => True
  end.
Proof. exact call_export_events. Qed.
Print Assumptions C20_export_call_events.

(* ---------------------------------------------------------------------------------------------------------------
   Linked programs (several instances), start functions, listener subsets.                                       *)
From Verif Require Import Wasm.Harness Rt.Linking Wasm.ListenerLink Proofs.ListenerLinkP.

(* a call instruction executed in instance [ii] whose callee — the function at store address [fa], defined by ANY
   instance or by the host — is listened appends  EBefore fa (its actual arguments) :: well-bracketed middle ++
   [EAfter fa (the values pushed back)]  or  ... ++ [EAbort fa]  when the callee ends in a trap of any kind *)
Theorem C20_call_instr_events :
  forall D host listened maxdepth fu depth ii s f k fa,
  nth_error (i_funcs (the_inst D s ii)) k = Some fa -> listened fa = true ->
  let np := nparams D s fa in
  let args := rev (firstn np (stack f)) in
  match exec D host listened maxdepth (S (S fu)) depth ii s f [Call k] with
  | Normal s' f' => exists mid vs, s_log s' = s_log s ++ EBefore fa args :: mid ++ [EAfter fa vs] /\ balanced D mid /\
                                   stack f' = rev vs ++ skipn np (stack f) /\ locals f' = locals f
  | Trap t s' => exists mid, s_log s' = s_log s ++ EBefore fa args :: mid ++ [EAbort fa] /\ balanced D mid
  | OutOfFuel => True
  | _ => False
  end.
Proof. exact call_instr_events. Qed.
Print Assumptions C20_call_instr_events.

(* listener sets are independent: what a listener set L2 sees is what any larger set L1 sees, restricted to L2
   (L2 = no listener: transparency; L1 = every function: the projection of the complete call tree), the two runs
   proceeding in lock step with equal outcomes, values, memories, globals and tables *)
Theorem C20_listener_subset_projection :
  forall D host L1 L2 maxdepth fuel depth ii s1 s2 f is,
  (forall fa, L2 fa = true -> L1 fa = true) -> projected D L2 s1 s2 ->
  out_rel D D eq (projected D L2) (exec D host L1 maxdepth fuel depth ii s1 f is)
                                  (exec D host L2 maxdepth fuel depth ii s2 f is).
Proof. exact listener_subset_projection. Qed.
Print Assumptions C20_listener_subset_projection.

(* instantiation (Rt/Linking.v: resolve, allocate, element and data segments, start function) logs nothing but what
   its start function logs: the resulting store is the one the start call leaves *)
Theorem C20_instantiation_logs_start_only :
  forall starter L st m,
  match prepared L st m with
  | Some (st1, i, s3, di) =>
      match md_start m with
      | Some f => if 0 <=? di then s_log (ls (fst (instantiate starter L st m))) = s_log (ls st)
                  else ls (fst (instantiate starter L st m)) = fst (starter s3 (nth f (i_funcs i) O)) /\ s_log s3 = s_log (ls st) /\
                       snd (instantiate starter L st m) =
                         (let c := snd (starter s3 (nth f (i_funcs i) O)) in if c =? 0 then 0 else if c =? 1 then E_START else E_FUEL)
      | None => s_log (ls (fst (instantiate starter L st m))) = s_log (ls st)
      end
  | None => s_log (ls (fst (instantiate starter L st m))) = s_log (ls st)
  end.
Proof. exact instantiate_log. Qed.
Print Assumptions C20_instantiation_logs_start_only.

(* the events of a start function are bracketed like any call: a listened start function at store address fa makes a
   successful instantiation append  EBefore fa [] :: well-bracketed middle ++ [EAfter fa results]  and a failing one
   (trap, host panic, exit at any depth, in any module)  EBefore fa [] :: middle ++ [EAbort fa] *)
Theorem C20_start_function_events :
  forall host listened L st m st1 i s3 di f ci tp tr nl body,
  prepared L st m = Some (st1, i, s3, di) -> di < 0 -> md_start m = Some f ->
  nth_error (s_funcs s3) (nth f (i_funcs i) O) = Some (FWasm ci tp tr nl body) -> listened (nth f (i_funcs i) O) = true ->
  let fa := nth f (i_funcs i) O in
  let r := instantiate (lk_start host listened) L st m in
  (snd r = 0 -> exists mid ws, s_log (ls (fst r)) = s_log (ls st) ++ EBefore fa [] :: mid ++ [EAfter fa ws] /\ balanced Spec mid) /\
  (snd r = E_START -> exists mid, s_log (ls (fst r)) = s_log (ls st) ++ EBefore fa [] :: mid ++ [EAbort fa] /\ balanced Spec mid).
Proof. exact start_function_events. Qed.
Print Assumptions C20_start_function_events.

(* every history of instantiations (with start sections), post-instantiation start functions (_start,
   WithStartFunctions) and export calls on a store with a host module, for every listener set and every host behaviour
   (return, panic, exit, re-entry): the complete event log is well bracketed *)
Theorem C20_history_bracketed :
  forall host listened hs acts, balanced Spec (s_log (ls (fst (lrun_prog host listened hs acts)))).
Proof. exact history_bracketed. Qed.
Print Assumptions C20_history_bracketed.
