(* C20 — function listeners see every call, correctly bracketed.
   PARTIAL: the engines' listener plumbing (native return-address walk, call-engine defer) is not modelled;
   both engines' event streams are compared with W's on generated programs by the C20 correspondence run.
   On W: for every program, listener set, host behaviour (returning, panicking, exiting, re-entering) and fuel,
   the events appended by a call or a history of calls are well bracketed: every Before is closed by exactly one
   After or Abort of the same function, properly nested, also when a trap unwinds through many frames. *)
From Coq Require Import ZArith List.
From Verif Require Import Wasm.Numerics Wasm.Sem Proofs.SemP.
Import ListNotations.
Open Scope Z_scope.

Theorem C20_bracketed_call :
  forall D host listened maxdepth fuel s fa args,
  exists l, s_log (fst (call_export D host listened maxdepth fuel s fa args)) = s_log s ++ l /\ balanced D l.
Proof. exact call_export_bracketed. Qed.
Print Assumptions C20_bracketed_call.

Theorem C20_bracketed_history :
  forall D host listened maxdepth fuel calls s,
  exists l, s_log (fst (run_calls D host listened maxdepth fuel s calls)) = s_log s ++ l /\ balanced D l.
Proof. exact run_calls_bracketed. Qed.
Print Assumptions C20_bracketed_history.

(* listeners are transparent: running with any listener set and running without listeners proceed in lock step —
   same outcome kind, same trap, same values on the stack, same memories, globals and tables — and the log of the
   run without listeners is the log of the run with listeners with the listener events erased *)
From Verif Require Import Proofs.SemRelP.
Theorem C20_transparent :
  forall D host listened maxdepth fuel depth ii s1 s2 f is, erased D s1 s2 ->
  out_rel D D eq (erased D) (exec D host listened maxdepth fuel depth ii s1 f is)
                            (exec D host (fun _ => false) maxdepth fuel depth ii s2 f is).
Proof. exact listeners_transparent. Qed.
Print Assumptions C20_transparent.

(* "carrying the actual parameters and results": an invocation of a listened function with arguments [args] — at any
   call depth, from any caller (direct, indirect, host re-entry), whatever happens inside — appends
   EBefore fa args :: mid ++ [EAfter fa vs] where [vs] are exactly the values handed back to its caller, or
   ... ++ [EAbort fa] when it ends in a trap (any kind: guest trap, host panic, exit, exhaustion), with [mid] well
   bracketed; an invocation of a function that is not listened appends a well-bracketed list and no event of its own *)
From Verif Require Import Proofs.ListenerValuesP.
Theorem C20_events_carry_actual_values :
  forall D host listened maxdepth fu depth s fa args,
  match invoke_with D host listened maxdepth (exec D host listened maxdepth fu) depth s fa args with
  | IOk s' vs =>
      if listened fa
      then exists mid, s_log s' = s_log s ++ EBefore fa args :: mid ++ [EAfter fa vs] /\ balanced D mid
      else exists l, s_log s' = s_log s ++ l /\ balanced D l
  | ITrap t s' =>
      if listened fa
      then exists mid, s_log s' = s_log s ++ EBefore fa args :: mid ++ [EAbort fa] /\ balanced D mid
      else exists l, s_log s' = s_log s ++ l /\ balanced D l
  | IFuel => True
  end.
Proof. exact invoke_events. Qed.
Print Assumptions C20_events_carry_actual_values.

(* the same seen from the embedder: the values an exported call returns are the ones its After event carries (completed
   by the untouched rest of the argument list when the caller passed more than the function takes) *)
Theorem C20_export_call_events :
  forall D host listened maxdepth fuel s fa args tp tr ci nl body,
  nth_error (s_funcs s) fa = Some (FWasm ci tp tr nl body) -> listened fa = true ->
  match call_export D host listened maxdepth fuel s fa args with
  | (s', RVals vs) => exists mid ws, s_log s' = s_log s ++ EBefore fa (rev (firstn (length tp) (rev args))) :: mid ++ [EAfter fa ws] /\ balanced D mid /\
                                     vs = rev (firstn (length tr) (rev ws ++ skipn (length tp) (rev args)))
  | (s', RTrap t) => t = TStuck \/ exists mid, s_log s' = s_log s ++ EBefore fa (rev (firstn (length tp) (rev args))) :: mid ++ [EAbort fa] /\ balanced D mid
  | (_, RFuel) => True
  end.
Proof. exact call_export_events. Qed.
Print Assumptions C20_export_call_events.
