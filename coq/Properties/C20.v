(* C20 — function listeners see every call, correctly bracketed.
   PARTIAL: the engines' listener plumbing (native return-address walk, call-engine defer) is not modelled;
   both engines' event streams are compared with W's on generated programs by the C20 correspondence run.
   On W: for every program, listener set, host behaviour (returning, panicking, exiting, re-entering) and fuel,
   the events appended by a call or a history of calls are well bracketed: every Before is closed by exactly one
   After or Abort of the same function, properly nested, also when a trap unwinds through many frames. *)
From Coq Require Import ZArith List.
From Verif Require Import Wasm.Numerics Wasm.Sem Proofs.SemP.
Import ListNotations.
Open Scope Z_scope.

Theorem C20_bracketed_call :
  forall D host listened maxdepth fuel s fa args,
  exists l, s_log (fst (call_export D host listened maxdepth fuel s fa args)) = s_log s ++ l /\ balanced D l.
Proof. exact call_export_bracketed. Qed.
Print Assumptions C20_bracketed_call.

Theorem C20_bracketed_history :
  forall D host listened maxdepth fuel calls s,
  exists l, s_log (fst (run_calls D host listened maxdepth fuel s calls)) = s_log s ++ l /\ balanced D l.
Proof. exact run_calls_bracketed. Qed.
Print Assumptions C20_bracketed_history.

(* listeners are transparent: running with any listener set and running without listeners proceed in lock step —
   same outcome kind, same trap, same values on the stack, same memories, globals and tables — and the log of the
   run without listeners is the log of the run with listeners with the listener events erased *)
From Verif Require Import Proofs.SemRelP.
Theorem C20_transparent :
  forall D host listened maxdepth fuel depth ii s1 s2 f is, erased D s1 s2 ->
  out_rel D D eq (erased D) (exec D host listened maxdepth fuel depth ii s1 f is)
                            (exec D host (fun _ => false) maxdepth fuel depth ii s2 f is).
Proof. exact listeners_transparent. Qed.
Print Assumptions C20_transparent.
