(* C01 — compiler and interpreter agree on every valid program.
   PARTIAL: the engines (interpreter loop, SSA compiler, register allocation, encoding, native code)
   are not modelled; each is compared with the reference semantics W and with the other on generated
   programs by the C01 correspondence run. The theorems below are the facts about W that the
   comparison of call HISTORIES relies on: the outcome of a history is compositional in the store,
   the code/tables of the store never change, and memories only grow. Statements only. *)
From Coq Require Import ZArith List.
From Verif Require Import Wasm.Numerics Wasm.Sem Proofs.SemP.
Import ListNotations.
Open Scope Z_scope.

(* a history of export calls is the composition of its parts: what later calls observe depends only on the
   store reached, for every domain, host behaviour, listener set and fuel *)
Theorem C01_history_compositional :
  forall D host listened maxdepth fuel c1 s c2,
  run_calls D host listened maxdepth fuel s (c1 ++ c2) =
  let '(s1, r1) := run_calls D host listened maxdepth fuel s c1 in
  let '(s2, r2) := run_calls D host listened maxdepth fuel s1 c2 in (s2, r1 ++ r2).
Proof. exact run_calls_app. Qed.
Print Assumptions C01_history_compositional.

(* along every history: functions, instances and tables are constant, memories stay page aligned,
   never shrink and keep their bound *)
Theorem C01_store_shape_preserved :
  forall D host listened maxdepth, (forall v, 0 <= to_u32 D v) ->
  forall fuel calls s, page_aligned D s ->
  grows D s (fst (run_calls D host listened maxdepth fuel s calls)).
Proof. exact run_calls_mono. Qed.
Print Assumptions C01_store_shape_preserved.

(* the outcome W assigns to a call does not depend on the fuel: once an execution finishes with some fuel it
   finishes with the same store and result for every larger fuel (so the fixed fuel used by the correspondence
   run computes THE specified outcome; cases where the model runs out of fuel are skipped and counted) *)
From Verif Require Import Proofs.SemFuelP.
Theorem C01_outcome_independent_of_fuel :
  forall D host listened maxdepth fu fu' s fa args s' r, (fu <= fu')%nat ->
  call_export D host listened maxdepth fu s fa args = (s', r) -> r <> RFuel ->
  call_export D host listened maxdepth fu' s fa args = (s', r).
Proof. exact call_export_fuel_mono. Qed.
Print Assumptions C01_outcome_independent_of_fuel.

Theorem C01_exec_fuel_monotone :
  forall D host listened maxdepth fu fu' depth ii s f is o, (fu <= fu')%nat ->
  exec D host listened maxdepth fu depth ii s f is = o -> o <> OutOfFuel ->
  exec D host listened maxdepth fu' depth ii s f is = o.
Proof. exact exec_fuel_mono. Qed.
Print Assumptions C01_exec_fuel_monotone.

(* ================================================================ the interpreter's value discipline
   wazero's interpreter keeps every value in an untyped 64-bit slot; i32 values occupy zero-extended slots and
   several operators rely on that (Ne / unsigned comparisons / Eqz test the WHOLE slot). The slot-level
   operators below are NOT transcribed: Gen/GenInterp.v is regenerated on every run by go2coq's stack-effect
   mode from the `case operationKindX:` bodies of callEngine.callNativeFunc (interpreter.go) and from the
   opcode lowering in compiler.handleInstruction + the newOperationX constructors (compiler.go,
   operations.go); Wasm/Slots.v only names the wasm opcode each constructor of Sem.v's unop/binop stands for.
   wf w x := 0 <= x < 2^w; un_in/bin_in are the operand widths, un_out/bin_out the result widths. *)
From Verif Require Import Lib.GoInt Lib.StackEff Gen.GenInterp Wasm.Slots Proofs.SemRelP Proofs.SlotsP.

(* every integer unop/binop/relop/conversion of W, on slots well-formed for the operand type (i32: < 2^32),
   returns the zero-extended encoding of the specification's result, which is a well-formed slot of the result
   type; where the specification traps, the interpreter panics with the matching wasmruntime sentinel; no Go
   run-time panic, stack underflow or floating-point path occurs *)
Theorem C01_slot_ops_refine :
  (forall o x, valid_un o = true -> wf (un_in o) x ->
     slot_un_eff o x = Eff [spec_un o x] /\ wf (un_out o) (spec_un o x)) /\
  (forall o x y, valid_bin o = true -> wf (bin_in o) x -> wf (bin_in o) y ->
     match spec_bin o x y with
     | Some v => slot_bin_eff o x y = Eff [v] /\ wf (bin_out o) v
     | None => (y = 0 /\ slot_bin_eff o x y = ETrap ErrRuntimeIntegerDivideByZero) \/
               (y <> 0 /\ slot_bin_eff o x y = ETrap ErrRuntimeIntegerOverflow)
     end).
Proof. exact (conj slot_un_refines slot_bin_refines). Qed.
Print Assumptions C01_slot_ops_refine.

(* SpecG is the specification left open where it is undefined: an operator applied to a value that is not of
   its operand type (or a constructor that is no wasm opcode). On typed applications it is Spec, literally. *)
Theorem C01_guarded_spec_is_spec_on_typed_operands :
  (forall o x, valid_un o = true -> wf (un_in o) x -> d_un SpecG o x = d_un Spec o x) /\
  (forall o x y, valid_bin o = true -> wf (bin_in o) x -> wf (bin_in o) y -> d_bin SpecG o x y = d_bin Spec o x y).
Proof. exact (conj specg_un_on_wf specg_bin_on_wf). Qed.
Print Assumptions C01_guarded_spec_is_spec_on_typed_operands.

(* the slot machine and the (completed) specification run EVERY program in lock step — all control flow, calls,
   indirect calls, host functions (returning, panicking, exiting, re-entering), listeners, memory, globals:
   same outcome kind, equal result slots, equal globals, memories, tables and event log, for every fuel.
   Instance of SemRelP.exec_rel with D1 := Slot, D2 := SpecG, Rv := equality of the 64-bit patterns. *)
Theorem C01_slot_machine_refines_guarded_spec :
  forall host listened maxdepth fuel depth ii (s1 : store Slot) (s2 : store SpecG) f1 f2 is,
  store_eq (fun (a : val Slot) (b : val SpecG) => a = b) s1 s2 ->
  Rf Slot SpecG (fun (a : val Slot) (b : val SpecG) => a = b) f1 f2 ->
  out_rel Slot SpecG (fun (a : val Slot) (b : val SpecG) => a = b) (store_eq (fun (a : val Slot) (b : val SpecG) => a = b))
    (exec Slot host listened maxdepth fuel depth ii s1 f1 is)
    (exec SpecG host listened maxdepth fuel depth ii s2 f2 is).
Proof. exact slot_machine_refines_guarded_spec. Qed.
Print Assumptions C01_slot_machine_refines_guarded_spec.

(* PARTIAL (typing hypothesis): against the specification itself. W is untyped, so "the program is validated"
   is stated semantically as the third hypothesis: on this run the specification's outcome does not depend on
   how ill-typed operator applications are completed (SpecG and Spec agree). Validation guarantees it for every
   module (each operator only receives values of its operand type); that implication is NOT proved here. *)
Theorem C01_slot_machine_refines_spec_partial :
  forall host listened maxdepth fuel depth ii (s1 : store Slot) (sg : store SpecG) (s2 : store Spec) f1 fg f2 is,
  store_eq (fun (a : val Slot) (b : val SpecG) => a = b) s1 sg ->
  Rf Slot SpecG (fun (a : val Slot) (b : val SpecG) => a = b) f1 fg ->
  out_rel SpecG Spec (fun (a : val SpecG) (b : val Spec) => a = b) (store_eq (fun (a : val SpecG) (b : val Spec) => a = b))
    (exec SpecG host listened maxdepth fuel depth ii sg fg is)
    (exec Spec host listened maxdepth fuel depth ii s2 f2 is) ->
  out_rel Slot Spec (fun (a : val Slot) (b : val Spec) => a = b) (store_eq (fun (a : val Slot) (b : val Spec) => a = b))
    (exec Slot host listened maxdepth fuel depth ii s1 f1 is)
    (exec Spec host listened maxdepth fuel depth ii s2 f2 is).
Proof. exact slot_machine_refines_spec_partial. Qed.
Print Assumptions C01_slot_machine_refines_spec_partial.

(* W's structural Select is the generated body of operationKindSelect (scalar target): the condition is tested
   on the whole slot *)
Theorem C01_select_matches_generated :
  forall c b a stk,
  exec_operationKindSelect 0 0 false (c :: b :: a :: stk) = Eff ((if truthy Slot c then a else b) :: stk).
Proof. exact select_matches_generated. Qed.
Print Assumptions C01_select_matches_generated.

(* well-formedness is needed: with a slot that is not zero-extended (what the F06 defect injected through a host
   function) Ne, LtU, Eqz and the branch condition disagree with the specification applied to the i32 values
   the slots encode — closed witnesses; Eq, which truncates first, is immune *)
Theorem C01_wf_needed_refuted :
  (slot_bin_eff (BRel 32 Ne) 18446744073709551615 4294967295 = Eff [1] /\
   spec_bin (BRel 32 Ne) (modN 32 18446744073709551615) (modN 32 4294967295) = Some 0) /\
  (slot_bin_eff (BRel 32 LtU) 4294967296 1 = Eff [0] /\
   spec_bin (BRel 32 LtU) (modN 32 4294967296) (modN 32 1) = Some 1) /\
  (slot_un_eff (UEqz 32) 4294967296 = Eff [0] /\ spec_un (UEqz 32) (modN 32 4294967296) = 1) /\
  (truthy Slot 4294967296 = true /\ truthy Spec (modN 32 4294967296) = false) /\
  (slot_bin_eff (BRel 32 Eq) 18446744073709551615 4294967295 = Eff [1] /\
   spec_bin (BRel 32 Eq) (modN 32 18446744073709551615) (modN 32 4294967295) = Some 1).
Proof. exact wf_needed_refuted. Qed.
Print Assumptions C01_wf_needed_refuted.

(* ================================================================ against the specification itself, for VALIDATED programs
   The typing hypothesis of C01_slot_machine_refines_spec_partial is discharged by the type system of
   Wasm/Validate.v (an executable checker for W's instructions over a typed mirror syntax; [erase] forgets the
   block types) and its soundness proof Proofs/ValidateP.v: exec_sound shows, by one induction on the fuel, that
   a validated program started in a validated store from a well-typed frame keeps every value well-formed at its
   static type AND that any domain whose operators agree with the specification's on typed operands
   (C01_guarded_spec_is_spec_on_typed_operands: SpecG is one) runs it in lock step with Spec. *)
From Verif Require Import Wasm.Validate Proofs.ValidateP Proofs.ValidateSlotsP.

(* on validated programs the completed specification SpecG and the specification Spec coincide:
   same outcome kind, equal values, stores and logs, for every fuel *)
Theorem C01_guarded_spec_is_spec_on_validated :
  forall (host : nat -> list Z -> hostres Z) listened maxdepth (T : tenv), host_ok host T ->
  forall fuel depth ii (s : store Spec) stk lcs lt rt L tis st res,
  store_ok T s -> check_seq T (the_inst Spec s ii) lt rt L tis (STy st) = Some res ->
  Forall2 wfv st stk -> Forall2 wfv lt lcs ->
  out_rel SpecG Spec (fun (a : val SpecG) (b : val Spec) => a = b) (store_eq (fun (a : val SpecG) (b : val Spec) => a = b))
    (exec SpecG host listened maxdepth fuel depth ii (cs specg_un specg_bin s) (Build_frame SpecG stk lcs) (map erase tis))
    (exec Spec host listened maxdepth fuel depth ii s (Build_frame Spec stk lcs) (map erase tis)).
Proof. exact guarded_spec_is_spec_on_validated. Qed.
Print Assumptions C01_guarded_spec_is_spec_on_validated.

(* the slot machine (operators REGENERATED from interpreter.go / compiler.go) refines the SPECIFICATION on every
   validated program: [store_ok T s2] (the store's code is the erasure of T's typed functions and passes the
   checker), the code [tis] checks against the frame's stack type [st] and local types [lt], the Spec frame is
   well-typed, hosts return well-formed values of their declared types; then slot machine and specification end
   in the same outcome kind with equal result slots, globals, memories, tables and event log, for every fuel.
   No hypothesis about SpecG is left. *)
Theorem C01_slot_machine_refines_spec :
  forall (host : nat -> list Z -> hostres Z) listened maxdepth (T : tenv), host_ok host T ->
  forall fuel depth ii (s1 : store Slot) (s2 : store Spec) (f1 : frame Slot) (f2 : frame Spec) lt rt L tis st res,
  store_ok T s2 -> check_seq T (the_inst Spec s2 ii) lt rt L tis (STy st) = Some res ->
  Forall2 wfv st (stack f2) -> Forall2 wfv lt (locals f2) ->
  store_eq (fun (a : val Slot) (b : val Spec) => a = b) s1 s2 ->
  Rf Slot Spec (fun (a : val Slot) (b : val Spec) => a = b) f1 f2 ->
  out_rel Slot Spec (fun (a : val Slot) (b : val Spec) => a = b) (store_eq (fun (a : val Slot) (b : val Spec) => a = b))
    (exec Slot host listened maxdepth fuel depth ii s1 f1 (map erase tis))
    (exec Spec host listened maxdepth fuel depth ii s2 f2 (map erase tis)).
Proof. exact slot_machine_refines_spec. Qed.
Print Assumptions C01_slot_machine_refines_spec.

(* non-vacuity: a concrete validated multi-function program (loop, call, call_indirect, memory, globals, host call)
   satisfies every hypothesis of the theorem, for every fuel *)
Theorem C01_slot_machine_refines_spec_instance :
  valid_storeb ex_T ex_store = true /\ host_ok ex_host ex_T /\
  forall fuel,
  out_rel Slot Spec (fun (a : val Slot) (b : val Spec) => a = b) (store_eq (fun (a : val Slot) (b : val Spec) => a = b))
    (exec Slot ex_host (fun _ => true) 10 fuel 0 0 ex_store_slot (Build_frame Slot [] []) (map erase [TCall 1; TDrop; TDrop]))
    (exec Spec ex_host (fun _ => true) 10 fuel 0 0 ex_store (Build_frame Spec [] []) (map erase [TCall 1; TDrop; TDrop])).
Proof. exact (conj ex_valid (conj ex_host_ok ex_slot_refines)). Qed.
Print Assumptions C01_slot_machine_refines_spec_instance.

(* the same at the level of EXPORTED CALLS, which is what the correspondence run observes: on a validated store,
   a call with well-typed arguments gives the same result slots / the same trap on the slot machine and in the
   specification, and leaves equal stores (so the statement chains along a history of calls) *)
Theorem C01_slot_machine_refines_spec_calls :
  forall (host : nat -> list Z -> hostres Z) listened maxdepth (T : tenv), host_ok host T ->
  forall fuel (s1 : store Slot) (s2 : store Spec) fa fd (args : list Z),
  store_ok T s2 -> nth_error (t_funcs T) fa = Some fd -> Forall2 wfv (fst (tsig fd)) args ->
  store_eq (fun (a : val Slot) (b : val Spec) => a = b) s1 s2 ->
  store_eq (fun (a : val Slot) (b : val Spec) => a = b)
    (fst (call_export Slot host listened maxdepth fuel s1 fa args))
    (fst (call_export Spec host listened maxdepth fuel s2 fa args)) /\
  match snd (call_export Slot host listened maxdepth fuel s1 fa args),
        snd (call_export Spec host listened maxdepth fuel s2 fa args) with
  | RVals a, RVals b => a = b
  | RTrap t, RTrap u => t = u
  | RFuel, RFuel => True
  | _, _ => False
  end.
Proof. exact slot_call_export_refines_spec. Qed.
Print Assumptions C01_slot_machine_refines_spec_calls.
