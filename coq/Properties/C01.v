(* C01 — compiler and interpreter agree on every valid program.
   PARTIAL: the engines (interpreter loop, SSA compiler, register allocation, encoding, native code)
   are not modelled; each is compared with the reference semantics W and with the other on generated
   programs by the C01 correspondence run. The theorems below are the facts about W that the
   comparison of call HISTORIES relies on: the outcome of a history is compositional in the store,
   the code/tables of the store never change, and memories only grow. Statements only. *)
From Coq Require Import ZArith List.
From Verif Require Import Wasm.Numerics Wasm.Sem Proofs.SemP.
Import ListNotations.
Open Scope Z_scope.

(* a history of export calls is the composition of its parts: what later calls observe depends only on the
   store reached, for every domain, host behaviour, listener set and fuel *)
Theorem C01_history_compositional :
  forall D host listened maxdepth fuel c1 s c2,
  run_calls D host listened maxdepth fuel s (c1 ++ c2) =
  let '(s1, r1) := run_calls D host listened maxdepth fuel s c1 in
  let '(s2, r2) := run_calls D host listened maxdepth fuel s1 c2 in (s2, r1 ++ r2).
Proof. exact run_calls_app. Qed.
Print Assumptions C01_history_compositional.

(* along every history: functions, instances and tables are constant, memories stay page aligned,
   never shrink and keep their bound *)
Theorem C01_store_shape_preserved :
  forall D host listened maxdepth, (forall v, 0 <= to_u32 D v) ->
  forall fuel calls s, page_aligned D s ->
  grows D s (fst (run_calls D host listened maxdepth fuel s calls)).
Proof. exact run_calls_mono. Qed.
Print Assumptions C01_store_shape_preserved.

(* the outcome W assigns to a call does not depend on the fuel: once an execution finishes with some fuel it
   finishes with the same store and result for every larger fuel (so the fixed fuel used by the correspondence
   run computes THE specified outcome; cases where the model runs out of fuel are skipped and counted) *)
From Verif Require Import Proofs.SemFuelP.
Theorem C01_outcome_independent_of_fuel :
  forall D host listened maxdepth fu fu' s fa args s' r, (fu <= fu')%nat ->
  call_export D host listened maxdepth fu s fa args = (s', r) -> r <> RFuel ->
  call_export D host listened maxdepth fu' s fa args = (s', r).
Proof. exact call_export_fuel_mono. Qed.
Print Assumptions C01_outcome_independent_of_fuel.

Theorem C01_exec_fuel_monotone :
  forall D host listened maxdepth fu fu' depth ii s f is o, (fu <= fu')%nat ->
  exec D host listened maxdepth fu depth ii s f is = o -> o <> OutOfFuel ->
  exec D host listened maxdepth fu' depth ii s f is = o.
Proof. exact exec_fuel_mono. Qed.
Print Assumptions C01_exec_fuel_monotone.

(* ================================================================ the interpreter's value discipline
   wazero's interpreter keeps every value in an untyped 64-bit slot; i32 values occupy zero-extended slots and
   several operators rely on that (Ne / unsigned comparisons / Eqz test the WHOLE slot). The slot-level
   operators below are NOT transcribed: Gen/GenInterp.v is regenerated on every run by go2coq's stack-effect
   mode from the `case operationKindX:` bodies of callEngine.callNativeFunc (interpreter.go) and from the
   opcode lowering in compiler.handleInstruction + the newOperationX constructors (compiler.go,
   operations.go); Wasm/Slots.v only names the wasm opcode each constructor of Sem.v's unop/binop stands for.
   wf w x := 0 <= x < 2^w; un_in/bin_in are the operand widths, un_out/bin_out the result widths. *)
From Verif Require Import Lib.GoInt Lib.StackEff Gen.GenInterp Wasm.Slots Proofs.SemRelP Proofs.SlotsP.

(* every integer unop/binop/relop/conversion of W, on slots well-formed for the operand type (i32: < 2^32),
   returns the zero-extended encoding of the specification's result, which is a well-formed slot of the result
   type; where the specification traps, the interpreter panics with the matching wasmruntime sentinel; no Go
   run-time panic, stack underflow or floating-point path occurs *)
Theorem C01_slot_ops_refine :
  (forall o x, valid_un o = true -> wf (un_in o) x ->
     slot_un_eff o x = Eff [spec_un o x] /\ wf (un_out o) (spec_un o x)) /\
  (forall o x y, valid_bin o = true -> wf (bin_in o) x -> wf (bin_in o) y ->
     match spec_bin o x y with
     | Some v => slot_bin_eff o x y = Eff [v] /\ wf (bin_out o) v
     | None => (y = 0 /\ slot_bin_eff o x y = ETrap ErrRuntimeIntegerDivideByZero) \/
               (y <> 0 /\ slot_bin_eff o x y = ETrap ErrRuntimeIntegerOverflow)
     end).
Proof. exact (conj slot_un_refines slot_bin_refines). Qed.
Print Assumptions C01_slot_ops_refine.

(* SpecG is the specification left open where it is undefined: an operator applied to a value that is not of
   its operand type (or a constructor that is no wasm opcode). On typed applications it is Spec, literally. *)
Theorem C01_guarded_spec_is_spec_on_typed_operands :
  (forall o x, valid_un o = true -> wf (un_in o) x -> d_un SpecG o x = d_un Spec o x) /\
  (forall o x y, valid_bin o = true -> wf (bin_in o) x -> wf (bin_in o) y -> d_bin SpecG o x y = d_bin Spec o x y).
Proof. exact (conj specg_un_on_wf specg_bin_on_wf). Qed.
Print Assumptions C01_guarded_spec_is_spec_on_typed_operands.

(* the slot machine and the (completed) specification run EVERY program in lock step — all control flow, calls,
   indirect calls, host functions (returning, panicking, exiting, re-entering), listeners, memory, globals:
   same outcome kind, equal result slots, equal globals, memories, tables and event log, for every fuel.
   Instance of SemRelP.exec_rel with D1 := Slot, D2 := SpecG, Rv := equality of the 64-bit patterns. *)
Theorem C01_slot_machine_refines_guarded_spec :
  forall host listened maxdepth fuel depth ii (s1 : store Slot) (s2 : store SpecG) f1 f2 is,
  store_eq (fun (a : val Slot) (b : val SpecG) => a = b) s1 s2 ->
  Rf Slot SpecG (fun (a : val Slot) (b : val SpecG) => a = b) f1 f2 ->
  out_rel Slot SpecG (fun (a : val Slot) (b : val SpecG) => a = b) (store_eq (fun (a : val Slot) (b : val SpecG) => a = b))
    (exec Slot host listened maxdepth fuel depth ii s1 f1 is)
    (exec SpecG host listened maxdepth fuel depth ii s2 f2 is).
Proof. exact slot_machine_refines_guarded_spec. Qed.
Print Assumptions C01_slot_machine_refines_guarded_spec.

(* PARTIAL (typing hypothesis): against the specification itself. W is untyped, so "the program is validated"
   is stated semantically as the third hypothesis: on this run the specification's outcome does not depend on
   how ill-typed operator applications are completed (SpecG and Spec agree). Validation guarantees it for every
   module (each operator only receives values of its operand type); that implication is NOT proved here. *)
Theorem C01_slot_machine_refines_spec_partial :
  forall host listened maxdepth fuel depth ii (s1 : store Slot) (sg : store SpecG) (s2 : store Spec) f1 fg f2 is,
  store_eq (fun (a : val Slot) (b : val SpecG) => a = b) s1 sg ->
  Rf Slot SpecG (fun (a : val Slot) (b : val SpecG) => a = b) f1 fg ->
  out_rel SpecG Spec (fun (a : val SpecG) (b : val Spec) => a = b) (store_eq (fun (a : val SpecG) (b : val Spec) => a = b))
    (exec SpecG host listened maxdepth fuel depth ii sg fg is)
    (exec Spec host listened maxdepth fuel depth ii s2 f2 is) ->
  out_rel Slot Spec (fun (a : val Slot) (b : val Spec) => a = b) (store_eq (fun (a : val Slot) (b : val Spec) => a = b))
    (exec Slot host listened maxdepth fuel depth ii s1 f1 is)
    (exec Spec host listened maxdepth fuel depth ii s2 f2 is).
Proof. exact slot_machine_refines_spec_partial. Qed.
Print Assumptions C01_slot_machine_refines_spec_partial.

(* W's structural Select is the generated body of operationKindSelect (scalar target): the condition is tested
   on the whole slot *)
Theorem C01_select_matches_generated :
  forall c b a stk,
  exec_operationKindSelect 0 0 false (c :: b :: a :: stk) = Eff ((if truthy Slot c then a else b) :: stk).
Proof. exact select_matches_generated. Qed.
Print Assumptions C01_select_matches_generated.

(* well-formedness is needed: with a slot that is not zero-extended (what the F06 defect injected through a host
   function) Ne, LtU, Eqz and the branch condition disagree with the specification applied to the i32 values
   the slots encode — closed witnesses; Eq, which truncates first, is immune *)
Theorem C01_wf_needed_refuted :
  (slot_bin_eff (BRel 32 Ne) 18446744073709551615 4294967295 = Eff [1] /\
   spec_bin (BRel 32 Ne) (modN 32 18446744073709551615) (modN 32 4294967295) = Some 0) /\
  (slot_bin_eff (BRel 32 LtU) 4294967296 1 = Eff [0] /\
   spec_bin (BRel 32 LtU) (modN 32 4294967296) (modN 32 1) = Some 1) /\
  (slot_un_eff (UEqz 32) 4294967296 = Eff [0] /\ spec_un (UEqz 32) (modN 32 4294967296) = 1) /\
  (truthy Slot 4294967296 = true /\ truthy Spec (modN 32 4294967296) = false) /\
  (slot_bin_eff (BRel 32 Eq) 18446744073709551615 4294967295 = Eff [1] /\
   spec_bin (BRel 32 Eq) (modN 32 18446744073709551615) (modN 32 4294967295) = Some 1).
Proof. exact wf_needed_refuted. Qed.
Print Assumptions C01_wf_needed_refuted.

(* ================================================================ against the specification itself, for VALIDATED programs
   The typing hypothesis of C01_slot_machine_refines_spec_partial is discharged by the type system of
   Wasm/Validate.v (an executable checker for W's instructions over a typed mirror syntax; [erase] forgets the
   block types) and its soundness proof Proofs/ValidateP.v: exec_sound shows, by one induction on the fuel, that
   a validated program started in a validated store from a well-typed frame keeps every value well-formed at its
   static type AND that any domain whose operators agree with the specification's on typed operands
   (C01_guarded_spec_is_spec_on_typed_operands: SpecG is one) runs it in lock step with Spec. *)
From Verif Require Import Wasm.Validate Proofs.ValidateP Proofs.ValidateSlotsP.

(* on validated programs the completed specification SpecG and the specification Spec coincide:
   same outcome kind, equal values, stores and logs, for every fuel *)
Theorem C01_guarded_spec_is_spec_on_validated :
  forall (host : nat -> list Z -> hostres Z) listened maxdepth (T : tenv), host_ok host T ->
  forall fuel depth ii (s : store Spec) stk lcs lt rt L tis st res,
  store_ok T s -> check_seq T (the_inst Spec s ii) lt rt L tis (STy st) = Some res ->
  Forall2 wfv st stk -> Forall2 wfv lt lcs ->
  out_rel SpecG Spec (fun (a : val SpecG) (b : val Spec) => a = b) (store_eq (fun (a : val SpecG) (b : val Spec) => a = b))
    (exec SpecG host listened maxdepth fuel depth ii (cs specg_un specg_bin s) (Build_frame SpecG stk lcs) (map erase tis))
    (exec Spec host listened maxdepth fuel depth ii s (Build_frame Spec stk lcs) (map erase tis)).
Proof. exact guarded_spec_is_spec_on_validated. Qed.
Print Assumptions C01_guarded_spec_is_spec_on_validated.

(* the slot machine (operators REGENERATED from interpreter.go / compiler.go) refines the SPECIFICATION on every
   validated program: [store_ok T s2] (the store's code is the erasure of T's typed functions and passes the
   checker), the code [tis] checks against the frame's stack type [st] and local types [lt], the Spec frame is
   well-typed, hosts return well-formed values of their declared types; then slot machine and specification end
   in the same outcome kind with equal result slots, globals, memories, tables and event log, for every fuel.
   No hypothesis about SpecG is left. *)
Theorem C01_slot_machine_refines_spec :
  forall (host : nat -> list Z -> hostres Z) listened maxdepth (T : tenv), host_ok host T ->
  forall fuel depth ii (s1 : store Slot) (s2 : store Spec) (f1 : frame Slot) (f2 : frame Spec) lt rt L tis st res,
  store_ok T s2 -> check_seq T (the_inst Spec s2 ii) lt rt L tis (STy st) = Some res ->
  Forall2 wfv st (stack f2) -> Forall2 wfv lt (locals f2) ->
  store_eq (fun (a : val Slot) (b : val Spec) => a = b) s1 s2 ->
  Rf Slot Spec (fun (a : val Slot) (b : val Spec) => a = b) f1 f2 ->
  out_rel Slot Spec (fun (a : val Slot) (b : val Spec) => a = b) (store_eq (fun (a : val Slot) (b : val Spec) => a = b))
    (exec Slot host listened maxdepth fuel depth ii s1 f1 (map erase tis))
    (exec Spec host listened maxdepth fuel depth ii s2 f2 (map erase tis)).
Proof. exact slot_machine_refines_spec. Qed.
Print Assumptions C01_slot_machine_refines_spec.

(* non-vacuity: a concrete validated multi-function program (loop, call, call_indirect, memory, globals, host call)
   satisfies every hypothesis of the theorem, for every fuel *)
Theorem C01_slot_machine_refines_spec_instance :
  valid_storeb ex_T ex_store = true /\ host_ok ex_host ex_T /\
  forall fuel,
  out_rel Slot Spec (fun (a : val Slot) (b : val Spec) => a = b) (store_eq (fun (a : val Slot) (b : val Spec) => a = b))
    (exec Slot ex_host (fun _ => true) 10 fuel 0 0 ex_store_slot (Build_frame Slot [] []) (map erase [TCall 1; TDrop; TDrop]))
    (exec Spec ex_host (fun _ => true) 10 fuel 0 0 ex_store (Build_frame Spec [] []) (map erase [TCall 1; TDrop; TDrop])).
Proof. exact (conj ex_valid (conj ex_host_ok ex_slot_refines)). Qed.
Print Assumptions C01_slot_machine_refines_spec_instance.

(* the same at the level of EXPORTED CALLS, which is what the correspondence run observes: on a validated store,
   a call with well-typed arguments gives the same result slots / the same trap on the slot machine and in the
   specification, and leaves equal stores (so the statement chains along a history of calls) *)
Theorem C01_slot_machine_refines_spec_calls :
  forall (host : nat -> list Z -> hostres Z) listened maxdepth (T : tenv), host_ok host T ->
  forall fuel (s1 : store Slot) (s2 : store Spec) fa fd (args : list Z),
  store_ok T s2 -> nth_error (t_funcs T) fa = Some fd -> Forall2 wfv (fst (tsig fd)) args ->
  store_eq (fun (a : val Slot) (b : val Spec) => a = b) s1 s2 ->
  store_eq (fun (a : val Slot) (b : val Spec) => a = b)
    (fst (call_export Slot host listened maxdepth fuel s1 fa args))
    (fst (call_export Spec host listened maxdepth fuel s2 fa args)) /\
  match snd (call_export Slot host listened maxdepth fuel s1 fa args),
        snd (call_export Spec host listened maxdepth fuel s2 fa args) with
  | RVals a, RVals b => a = b
  | RTrap t, RTrap u => t = u
  | RFuel, RFuel => True
  | _, _ => False
  end.
Proof. exact slot_call_export_refines_spec. Qed.
Print Assumptions C01_slot_machine_refines_spec_calls.

(* ================================================================================================================ *)
(* SSA stream: the CFG-level passes of the optimizing compiler (ssa/pass.go, pass_cfg.go, pass_blk_layouts.go) by
   TRANSLATION VALIDATION. Engine/SsaCfg.v defines graphs (adjacency lists, entry 0), paths, dominance and immediate
   dominators by the path-based definitions, and executable checkers. The theorems below say: if a checker ACCEPTS
   what a pass computed for a graph, the path-based statement holds -- for every graph and every certificate, no
   fuel hypothesis (the checkers re-check their own traversal). checks/c01_ssa.py evaluates the checkers on every run
   on what the REAL passes produced for every function of the generated programs (dumped from inside package ssa). *)
From Verif Require Import Engine.SsaCfg Proofs.SsaCfgP.
Open Scope nat_scope.

(* passDeadBlockEliminationOpt: the blocks flagged invalid are exactly the blocks no path from the entry reaches *)
Theorem C01_dead_blocks_exactly_unreachable :
  forall (g : graph) (invalid : list bool), dead_block_check g invalid = true ->
  forall b, b < length g -> (nth b invalid false = true <-> ~ reachable g b).
Proof. exact dead_block_sound. Qed.
Print Assumptions C01_dead_blocks_exactly_unreachable.

(* passCalculateImmediateDominators, the order: reversePostOrderedBasicBlocks lists exactly the reachable blocks,
   once each, the entry first; each block's reversePostOrder field is its position; and every edge goes forward in the
   order unless it is a back edge (its target dominates its source) *)
Theorem C01_reverse_postorder_sound :
  forall (g : graph) (order : list nat) (rpo : list (option nat)), rpo_check g order rpo = true ->
  NoDup order /\ hd_error order = Some entry /\
  (forall b, In b order <-> reachable g b) /\
  (forall b i, nth_error order i = Some b -> nth b rpo None = Some i) /\
  (forall u v i j, nth_error order i = Some u -> nth_error order j = Some v -> edge g u v ->
                   i < j \/ dominates g v u).
Proof. exact rpo_sound. Qed.
Print Assumptions C01_reverse_postorder_sound.

(* passCalculateImmediateDominators, the result (calculateDominators / intersect): for every reachable block other
   than the entry the recorded block strictly dominates it (every path from the entry passes through it) and is THE
   immediate dominator (every strict dominator of b dominates it); the entry records itself; unreachable blocks
   record nothing *)
Theorem C01_dominator_tree_sound :
  forall (g : graph) (idom : list (option nat)), dom_check g idom = true ->
  forall b, b < length g ->
    (reachable g b -> exists p, nth b idom None = Some p /\ (b = entry -> p = entry) /\ (b <> entry -> is_idom g p b)) /\
    (~ reachable g b -> nth b idom None = None).
Proof. exact dom_sound. Qed.
Print Assumptions C01_dominator_tree_sound.

(* subPassLoopDetection: a block is flagged loop header iff it has a reachable predecessor that it dominates *)
Theorem C01_loop_headers_sound :
  forall (g : graph) (hdr : list bool), loop_check g hdr = true ->
  forall b, b < length g ->
    (nth b hdr false = true <-> exists u, reachable g u /\ edge g u b /\ dominates g b u).
Proof. exact loop_sound. Qed.
Print Assumptions C01_loop_headers_sound.

(* passBuildLoopNestingForest: a block is listed (once) under h only if h is its NEAREST strictly dominating loop
   header; a block that a loop header strictly dominates is listed under one; the roots are the loop headers that no
   loop header strictly dominates; unreachable blocks appear nowhere *)
Theorem C01_loop_nesting_forest_sound :
  forall (g : graph) (hdr : list bool) (children : list (list nat)) (roots : list nat),
  forest_check g hdr children roots = true ->
  forall b, b < length g ->
    (reachable g b ->
       (forall h, In b (nth h children []) -> nearest_hdr g hdr h b /\ count b (nth h children []) = 1) /\
       ((exists h, sdom g h b /\ nth h hdr false = true) -> exists h, In b (nth h children [])) /\
       (In b roots <-> nth b hdr false = true /\ ~ exists h, sdom g h b /\ nth h hdr false = true)) /\
    (~ reachable g b -> ~ In b roots /\ forall h, ~ In b (nth h children [])).
Proof. exact forest_sound. Qed.
Print Assumptions C01_loop_nesting_forest_sound.

(* passBuildDominatorTree / findLCA (Builder.LowestCommonAncestor): the answer dominates both blocks and every
   common dominator of the two dominates it *)
Theorem C01_lowest_common_ancestor_sound :
  forall (g : graph) (qs : list (nat * nat * nat)), lca_check g qs = true ->
  forall u v l, In (u, v, l) qs ->
    reachable g u /\ reachable g v /\ dominates g l u /\ dominates g l v /\
    forall d, dominates g d u -> dominates g d v -> dominates g d l.
Proof. exact lca_sound. Qed.
Print Assumptions C01_lowest_common_ancestor_sound.

(* passLayoutBlocks with maybeInvertBranches, splitCriticalEdge and markFallthroughJumps. before/valid: the function
   after the pre-layout passes; after/order: after RunPasses; blocks numbered from length before are the new
   trampolines; length after stands for the return block. *)
Theorem C01_layout_preserves_cfg :
  forall (before : list blk) (valid : list bool) (after : list blk) (order : list nat),
  layout_check before valid after order = true ->
  let n0 := length before in
  let n1 := length after in
  NoDup order /\ hd_error order = Some entry /\
  (forall b, b < n0 -> (In b order <-> nth b valid false = true)) /\
  (forall b, In b order -> b < n1) /\
  (forall b, In b order -> n0 <= b ->
     exists t ft, term_of after b = TJump t ft /\ b_nins (nth b after dblk) = 1 /\ b_params (nth b after dblk) = 0) /\
  (forall b, In b order -> b < n0 ->
     b_body (nth b after dblk) = b_body (nth b before dblk) /\
     b_params (nth b after dblk) = b_params (nth b before dblk) /\
     b_nins (nth b after dblk) = b_nins (nth b before dblk) /\
     cond_of (term_of after b) = cond_of (term_of before b) /\
     forall o, step_after after n0 b o = step before b o /\ step before b o <> NStuck) /\
  (forall b o t, In b order -> b < n0 -> step before b o = NGo t -> fst t = n1 \/ (In (fst t) order /\ fst t < n0)) /\
  (forall b t, In b order -> In t (targets (term_of after b)) -> t = n1 \/ In t order) /\
  (forall i b t, nth_error order i = Some b -> last_jump (term_of after b) = Some (t, true) -> nth_error order (S i) = Some t) /\
  (forall i b t, nth_error order i = Some b -> nth_error order (S i) = Some t -> last_jump (term_of after b) <> Some (t, false)).
Proof. exact layout_sound. Qed.
Print Assumptions C01_layout_preserves_cfg.

(* hence: for every live block and every sequence of condition / br_table index values, the laid-out function visits
   the same sequence of (non-trampoline) blocks as the input -- the pass is a graph isomorphism up to trampolines *)
Theorem C01_layout_preserves_traces :
  forall (before : list blk) (valid : list bool) (after : list blk) (order : list nat),
  layout_check before valid after order = true ->
  forall os b, In b order -> b < length before ->
    trace (step_after after (length before)) b os = trace (step before) b os.
Proof. exact layout_traces. Qed.
Print Assumptions C01_layout_preserves_traces.

(* the pre-layout passes (successor sorting, dead-block elimination, phi elimination, dead-code elimination) leave
   the graph alone: same blocks, same branch targets *)
Theorem C01_prelayout_passes_keep_cfg :
  forall (bs0 bs1 : list blk), cfg_kept_check bs0 bs1 = true ->
  length bs0 = length bs1 /\
  (forall b, targets (term_of bs0 b) = targets (term_of bs1 b)) /\
  forall ret, cfg_of ret bs0 = cfg_of ret bs1.
Proof. exact cfg_kept_sound. Qed.
Print Assumptions C01_prelayout_passes_keep_cfg.

(* the builder's successor and predecessor lists (what passSortSuccessors permutes and the passes walk) describe the
   same graph as the branch instructions (what the checkers walk): equal as multisets among live blocks *)
Theorem C01_cfg_bookkeeping_sound :
  forall (bs : list blk) (valid : list bool) (succl predl : list (list nat)),
  bookkeeping_check bs valid succl predl = true ->
  forall b, b < length bs -> nth b valid false = true ->
    (forall v, count v (nth b succl []) = count v (targets (term_of bs b))) /\
    (forall u, In u (nth b predl []) -> u < length bs) /\
    (forall u, u < length bs -> nth u valid false = true ->
               count u (nth b predl []) = count b (targets (term_of bs u))).
Proof. exact bookkeeping_sound. Qed.
Print Assumptions C01_cfg_bookkeeping_sound.

(* the per-function evaluation of the tie (`fcase_check`, one vm_compute per dumped function) is the conjunction of
   the checkers above on the function's graphs before and after layout *)
Theorem C01_ssa_case_check_sound :
  forall c : fcase, fcase_check c = true ->
  let g1 := cfg_of (fc_ret c) (fc_b1 c) in
  let g3 := cfg_of (fc_ret c) (fc_b3 c) in
  cfg_kept_check (fc_b0 c) (fc_b1 c) = true /\
  bookkeeping_check (fc_b1 c) (fc_valid c) (fc_succ1 c) (fc_pred1 c) = true /\
  bookkeeping_check (fc_b3 c) (fc_valid3 c) (fc_succ3 c) (fc_pred3 c) = true /\
  dead_block_check g1 (map negb (fc_valid c)) = true /\
  rpo_check g1 (fc_order1 c) (fc_rpo1 c) = true /\
  dom_check g1 (fc_idom1 c) = true /\
  loop_check g1 (fc_hdr1 c) = true /\
  layout_check (fc_b1 c) (fc_valid c) (fc_b3 c) (fc_order3 c) = true /\
  dom_check g3 (fc_idom3 c) = true /\
  loop_check g3 (fc_hdr3 c) = true /\
  forest_check g3 (fc_hdr3 c) (fc_kids3 c) (fc_roots3 c) = true /\
  lca_check g3 (fc_lca3 c) = true.
Proof. exact fcase_check_sound. Qed.
Print Assumptions C01_ssa_case_check_sound.
