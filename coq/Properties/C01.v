(* C01 — compiler and interpreter agree on every valid program.
   PARTIAL: the engines (interpreter loop, SSA compiler, register allocation, encoding, native code)
   are not modelled; each is compared with the reference semantics W and with the other on generated
   programs by the C01 correspondence run. The theorems below are the facts about W that the
   comparison of call HISTORIES relies on: the outcome of a history is compositional in the store,
   the code/tables of the store never change, and memories only grow. Statements only. *)
From Coq Require Import ZArith List.
From Verif Require Import Wasm.Numerics Wasm.Sem Proofs.SemP.
Import ListNotations.
Open Scope Z_scope.

(* a history of export calls is the composition of its parts: what later calls observe depends only on the
   store reached, for every domain, host behaviour, listener set and fuel *)
Theorem C01_history_compositional :
  forall D host listened maxdepth fuel c1 s c2,
  run_calls D host listened maxdepth fuel s (c1 ++ c2) =
  let '(s1, r1) := run_calls D host listened maxdepth fuel s c1 in
  let '(s2, r2) := run_calls D host listened maxdepth fuel s1 c2 in (s2, r1 ++ r2).
Proof. exact run_calls_app. Qed.
Print Assumptions C01_history_compositional.

(* along every history: functions, instances and tables are constant, memories stay page aligned,
   never shrink and keep their bound *)
Theorem C01_store_shape_preserved :
  forall D host listened maxdepth, (forall v, 0 <= to_u32 D v) ->
  forall fuel calls s, page_aligned D s ->
  grows D s (fst (run_calls D host listened maxdepth fuel s calls)).
Proof. exact run_calls_mono. Qed.
Print Assumptions C01_store_shape_preserved.

(* the outcome W assigns to a call does not depend on the fuel: once an execution finishes with some fuel it
   finishes with the same store and result for every larger fuel (so the fixed fuel used by the correspondence
   run computes THE specified outcome; cases where the model runs out of fuel are skipped and counted) *)
From Verif Require Import Proofs.SemFuelP.
Theorem C01_outcome_independent_of_fuel :
  forall D host listened maxdepth fu fu' s fa args s' r, (fu <= fu')%nat ->
  call_export D host listened maxdepth fu s fa args = (s', r) -> r <> RFuel ->
  call_export D host listened maxdepth fu' s fa args = (s', r).
Proof. exact call_export_fuel_mono. Qed.
Print Assumptions C01_outcome_independent_of_fuel.

Theorem C01_exec_fuel_monotone :
  forall D host listened maxdepth fu fu' depth ii s f is o, (fu <= fu')%nat ->
  exec D host listened maxdepth fu depth ii s f is = o -> o <> OutOfFuel ->
  exec D host listened maxdepth fu' depth ii s f is = o.
Proof. exact exec_fuel_mono. Qed.
Print Assumptions C01_exec_fuel_monotone.
