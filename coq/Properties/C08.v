(* C08 — values cross the host/guest boundary unchanged.
   Only statements, `exact <lemma>` and Print Assumptions live here. encode/decode unfold to the reflection
   marshalling of wasm.callGoFunc (hand-transcribed, tied by the correspondence run) and to the api.Encode*/Decode*
   helpers REGENERATED from api/wasm.go (Gen.GenApi). Styles: Refl = HostFunctionBuilder.WithFunc (reflection),
   Api = the stack-based forms (WithGoFunction / WithGoModuleFunction, Call / CallWithStack) with the api helpers. *)
From Verif Require Import Lib.GoInt Gen.GenApi Engine.HostCodec Proofs.HostCodecP.
Open Scope Z_scope.

(* host value -> slot -> host value, for every kind - float32 included, all bit patterns - every value and every mix of
   the two styles (F07 repaired: reflection-based host functions no longer quiet signalling NaNs) *)
Theorem C08_roundtrip : forall st st' k v, go_wf k v -> decode st k (encode st' k v) = v.
Proof. exact roundtrip. Qed.
Print Assumptions C08_roundtrip.

(* guest slot -> host value -> guest slot (the echo direction), on well-formed slots *)
Theorem C08_roundtrip_slot : forall st st' k s, slot_wf (type_of k) s -> encode st' k (decode st k s) = s.
Proof. exact roundtrip_slot. Qed.
Print Assumptions C08_roundtrip_slot.

(* regression Example HostCodecP.C08_snan_quieted_before_fix: the pre-repair float64 round trip
   mapped 0x7fa00000 to 0x7fe00000; the fixed witnesses of the harness replay it on the real code on every run *)

(* results written by either style are zero-extended in the 64-bit slot: the invariant the interpreter relies on *)
Theorem C08_slot_wf : forall st k v, go_wf k v -> slot_wf (type_of k) (encode st k v).
Proof. exact encode_slot_wf. Qed.
Print Assumptions C08_slot_wf.

(* the amd64 trampoline writes only the low half of a 32-bit argument into the host's slice: no decoder looks at the rest *)
Theorem C08_decode_low_bits : forall st k s h, slot_bits (type_of k) = 32 -> 0 <= s < 2 ^ 32 -> 0 <= h < 2 ^ 32 ->
  decode st k (s + h * 2 ^ 32) = decode st k s.
Proof. exact decode_low_bits. Qed.
Print Assumptions C08_decode_low_bits.

(* amd64 ABI, every wasm signature of any arity: pairwise disjoint locations for distinct parameters and for distinct
   results; rax/rbx carry the two context pointers; stack slots inside the reported areas; one location each *)
Theorem C08_abi_assign_disjoint : forall p r,
  let a := abi_assign p r in
  pairwise_disjoint (a_args a) /\ pairwise_disjoint (a_rets a) /\
  nth_error (a_args a) 0 = Some (LReg 1) /\ nth_error (a_args a) 1 = Some (LReg 4) /\
  Forall (loc_ok int_regs float_regs 0 (a_argstack a)) (a_args a) /\
  Forall (loc_ok int_regs float_regs 0 (a_retstack a)) (a_rets a) /\
  length (a_args a) = (2 + length p)%nat /\ length (a_rets a) = length r.
Proof. exact abi_assign_disjoint. Qed.
Print Assumptions C08_abi_assign_disjoint.

(* the classification itself, for any register files without duplicates (not only amd64's) *)
Theorem C08_set_abi_args_disjoint : forall ts ints floats off, NoDup (ints ++ floats) ->
  ForallOrdPairs loc_disjoint (fst (set_abi_args ints floats off ts)).
Proof. exact set_abi_args_disjoint. Qed.
Print Assumptions C08_set_abi_args_disjoint.
