(* C12 — non-semantic configuration does not change guest behaviour.
   Only statements, `exact <lemma>` and Print Assumptions live here. sized/accept unfold to newMemorySizer and
   Memory.Validate REGENERATED from internal/wasm/binary/decoder.go and internal/wasm/module.go; run/step is the
   C14 memory-instance model (Rt.MemInst); id_input transcribes wasm.Module.AssignModuleID. *)
From Verif Require Import Lib.GoInt Gen.GenWasm Gen.GenBinary Rt.MemInst Proofs.MemInstP Rt.Limits Proofs.LimitsP.
Open Scope Z_scope.

(* (accepted?, min, max) produced by sizer o validate do not depend on memoryCapacityFromMax (nor on the allocator flag),
   for all u32 (min, max) and every limit <= 65536 *)
Theorem C12_sizer_semantic_part : forall c b1 a1 b2 a2, wf_cfg c ->
  sem_part (with_flags c b1 a1) = sem_part (with_flags c b2 a2).
Proof. exact sizer_semantic_part. Qed.
Print Assumptions C12_sizer_semantic_part.

(* the flag changes the capacity only, and min <= cap <= max <= limit either way *)
Theorem C12_cap_only_capacity : forall c b1 a1 b2 a2, wf_cfg c -> accept (with_flags c b1 a1) = true ->
  let '(mn1, cp1, mx1) := sized (with_flags c b1 a1) in
  let '(mn2, cp2, mx2) := sized (with_flags c b2 a2) in
  accept (with_flags c b2 a2) = true /\ mn1 = mn2 /\ mx1 = mx2 /\
  mn1 <= cp1 <= mx1 /\ mn2 <= cp2 <= mx2 /\ mx1 <= c_limit c /\
  (b1 = b2 -> cp1 = cp2).
Proof. exact cap_only_capacity. Qed.
Print Assumptions C12_cap_only_capacity.

(* every history of grow / size / read / write on two instances of the same declared memory that differ only in
   capacity-from-max and allocator backing yields identical observation lists *)
Theorem C12_capacity_unobservable : forall c b1 a1 b2 a2 ops,
  wf_cfg c -> accept (with_flags c b1 a1) = true -> Forall op_ok ops ->
  accept (with_flags c b2 a2) = true /\
  snd (run (mem_init (with_flags c b1 a1)) ops) = snd (run (mem_init (with_flags c b2 a2)) ops).
Proof. exact capacity_unobservable. Qed.
Print Assumptions C12_capacity_unobservable.

(* the same, from any two well-formed states that agree on length, min, max and contents *)
Theorem C12_capacity_unobservable_states : forall ops a b, wf a -> wf b -> same_semantics a b -> Forall op_ok ops ->
  snd (run a ops) = snd (run b ops) /\ same_semantics (fst (run a ops)) (fst (run b ops)).
Proof. exact run_same. Qed.
Print Assumptions C12_capacity_unobservable_states.

(* compiled-module identity: for ANY hash that is injective on the strings it is given (hypothesis, not axiom), the same
   binary compiled under different instrumentation - listener presence per function (or no listeners at all), ensure-
   termination - never gets the same identity, so a cache shared between differently configured runtimes never serves
   code instrumented for the other one *)
Theorem C12_module_id_separates : forall (H : list Z -> Z), (forall a b, H a = H b -> a = b) ->
  forall wasm ls1 t1 ls2 t2, module_id H wasm ls1 t1 = module_id H wasm ls2 t2 -> ls1 = ls2 /\ t1 = t2.
Proof. exact module_id_separates. Qed.
Print Assumptions C12_module_id_separates.
