(* C13 — the on-disk compilation cache is deterministic and crash-safe.
   Only statements, `exact <lemma>` and Print Assumptions live here.
   Rt/CacheCodec.v is the byte-exact model of serializeCompiledModule / deserializeCompiledModule
   (internal/engine/wazevo/engine_cache.go); Rt/CacheFs.v models fileCache.Add
   (internal/filecache/file_cache.go) over a directory. Both are hand transcriptions tied to the code by
   the C13 correspondence run (every truncation length, version changes, crash points, concurrent writers).
   All codec theorems are universally quantified over the checksum function [crc]. *)
From Verif Require Import Lib.GoInt Rt.CacheCodec Rt.CacheFs Proofs.CacheP.
Open Scope Z_scope.

(* a well-formed record never hits a panic site of the serializer *)
Theorem C13_serialize_total : forall crc v cm, wf_entry v cm -> exists e, serialize crc v cm = Some e.
Proof. exact serialize_total. Qed.
Print Assumptions C13_serialize_total.

(* reading back what was written under the same version yields the same module *)
Theorem C13_roundtrip : forall crc v cm e,
  crc_ok crc -> wf_entry v cm -> (cm_exec cm = [] -> crc [] = 0) ->
  serialize crc v cm = Some e -> deserialize crc v e = Ok cm.
Proof. exact roundtrip. Qed.
Print Assumptions C13_roundtrip.

(* ... consuming exactly the entry, whatever follows it (entries that contain code) *)
Theorem C13_roundtrip_consumes_all : forall crc v cm e rest,
  crc_ok crc -> wf_entry v cm -> cm_exec cm <> [] -> serialize crc v cm = Some e ->
  deserialize_c crc v (e ++ rest) = ROk cm rest /\ consumed crc v (e ++ rest) = Some (zlen e).
Proof. exact roundtrip_rest. Qed.
Print Assumptions C13_roundtrip_consumes_all.

(* EVERY strict prefix of an entry that contains code is reported as an error: never executed,
   never mistaken for a stale entry, never a panic *)
Theorem C13_strict_prefix_rejected : forall crc v cm e k,
  crc_ok crc -> wf_entry v cm -> cm_exec cm <> [] ->
  serialize crc v cm = Some e -> (k < length e)%nat ->
  deserialize crc v (firstn k e) = Error.
Proof. exact strict_prefix_rejected. Qed.
Print Assumptions C13_strict_prefix_rejected.

(* the exact limit for an entry WITHOUT code (module with no local function): the 4 checksum bytes are
   written but not read, so the entry cut inside its last 4 bytes is still accepted — and yields the
   identical, code-less module; every shorter prefix is an error *)
Theorem C13_prefix_no_code_exact : forall crc v cm e k,
  crc_ok crc -> wf_entry v cm -> cm_exec cm = [] -> crc [] = 0 ->
  serialize crc v cm = Some e -> (k < length e)%nat ->
  deserialize crc v (firstn k e) = if (k <? length e - 4)%nat then Error else Ok cm.
Proof. exact prefix_no_code. Qed.
Print Assumptions C13_prefix_no_code_exact.

(* success, Stale and Panic are stable under extension of the input; a success never consumes more
   than it was given (steps (ii) of the proof plan, of independent interest) *)
Theorem C13_success_stable_under_extension : forall crc v inp x R,
  deserialize_c crc v inp = R -> R <> RError -> deserialize_c crc v (inp ++ x) = ext R x.
Proof. exact deserialize_ext. Qed.
Print Assumptions C13_success_stable_under_extension.

Theorem C13_consumed_le_length : forall crc v inp n, consumed crc v inp = Some n -> 0 <= n <= zlen inp.
Proof. exact consumed_le. Qed.
Print Assumptions C13_consumed_le_length.

(* an entry written by any other version string is never accepted (the reader's version is arbitrary) *)
Theorem C13_other_version_never_ok : forall crc v v' cm e,
  zlen v < 256 -> v <> v' -> serialize crc v cm = Some e ->
  deserialize crc v' e = Stale \/ deserialize crc v' e = Error.
Proof. exact other_version. Qed.
Print Assumptions C13_other_version_never_ok.

(* crash safety of Add, directory level: for every set of concurrent writers (any keys, any contents),
   every interleaving of their steps, every crash point, injected I/O error and concurrent Delete, and
   every initial directory: a final name holds what it held before or the COMPLETE, fsynced content of
   one writer of that key *)
Theorem C13_crash_safe_fs : forall wkey wdata d0 evs k f,
  lookup (Final k) (s_dir (run wkey wdata d0 evs)) = Some f ->
  lookup (Final k) d0 = Some f \/ exists i, wkey i = k /\ f_data f = wdata i /\ f_synced f = true.
Proof. exact crash_safe. Qed.
Print Assumptions C13_crash_safe_fs.

(* ... and with the codec: what a later process finds under the final name deserializes to a writer's module *)
Theorem C13_crash_safe : forall crc v (cms : nat -> cmod) (ents : nat -> bytes) wkey d0 evs k f,
  crc_ok crc ->
  (forall i, wf_entry v (cms i) /\ (cm_exec (cms i) = [] -> crc [] = 0) /\ serialize crc v (cms i) = Some (ents i)) ->
  lookup (Final k) (s_dir (run wkey ents d0 evs)) = Some f ->
  lookup (Final k) d0 = Some f \/
  exists i, wkey i = k /\ f_data f = ents i /\ f_synced f = true /\ deserialize crc v (f_data f) = Ok (cms i).
Proof. exact crash_safe_entries. Qed.
Print Assumptions C13_crash_safe.

(* partial content only ever sits under temporary names, as a prefix of a writer's content *)
Theorem C13_partial_only_under_temp_names : forall wkey wdata d0 evs n f,
  lookup n (s_dir (run wkey wdata d0 evs)) = Some f ->
  lookup n d0 = Some f \/
  match n with
  | Final k => exists i, wkey i = k /\ f_data f = wdata i
  | Tmp k _ => exists i m, wkey i = k /\ f_data f = firstn m (wdata i)
  end.
Proof. exact partial_only_temp. Qed.
Print Assumptions C13_partial_only_under_temp_names.

(* the failure path of Add removes the writer's temp file and changes nothing else *)
Theorem C13_add_failure_cleans : forall wkey wdata s w n,
  owned wkey s w = Some n ->
  let s' := step wkey wdata s (EFail w) in
  lookup n (s_dir s') = None /\ s_pc s' w = PDone false /\
  (forall m, m <> n -> lookup m (s_dir s') = lookup m (s_dir s)) /\
  (forall j, j <> w -> s_pc s' j = s_pc s j).
Proof. exact add_failure_cleans. Qed.
Print Assumptions C13_add_failure_cleans.

(* the concrete checksum used by the correspondence run satisfies the hypotheses above *)
Theorem C13_crc32c_ok : crc_ok crc32c /\ crc32c [] = 0.
Proof. exact (conj crc32c_ok crc32c_empty). Qed.
Print Assumptions C13_crc32c_ok.
