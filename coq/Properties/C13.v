(* C13 — the on-disk compilation cache is deterministic and crash-safe.
   Only statements, `exact <lemma>` and Print Assumptions live here.
   Rt/CacheCodec.v is the byte-exact model of serializeCompiledModule / deserializeCompiledModule
   (internal/engine/wazevo/engine_cache.go); Rt/CacheFs.v models fileCache.Add
   (internal/filecache/file_cache.go) over a directory. Both are hand transcriptions tied to the code by
   the C13 correspondence run (every truncation length, version changes, crash points, concurrent writers).
   All codec theorems are universally quantified over the checksum function [crc]. *)
From Verif Require Import Lib.GoInt Rt.CacheCodec Rt.CacheFs Rt.CacheExt Proofs.CacheP Proofs.CacheExtP.
Open Scope Z_scope.

(* a well-formed record never hits a panic site of the serializer *)
Theorem C13_serialize_total : forall crc v cm, wf_entry v cm -> exists e, serialize crc v cm = Some e.
Proof. exact serialize_total. Qed.
Print Assumptions C13_serialize_total.

(* reading back what was written under the same version yields the same module *)
Theorem C13_roundtrip : forall crc v cm e,
  crc_ok crc -> wf_entry v cm -> (cm_exec cm = [] -> crc [] = 0) ->
  serialize crc v cm = Some e -> deserialize crc v e = Ok cm.
Proof. exact roundtrip. Qed.
Print Assumptions C13_roundtrip.

(* ... consuming exactly the entry, whatever follows it (entries that contain code) *)
Theorem C13_roundtrip_consumes_all : forall crc v cm e rest,
  crc_ok crc -> wf_entry v cm -> cm_exec cm <> [] -> serialize crc v cm = Some e ->
  deserialize_c crc v (e ++ rest) = ROk cm rest /\ consumed crc v (e ++ rest) = Some (zlen e).
Proof. exact roundtrip_rest. Qed.
Print Assumptions C13_roundtrip_consumes_all.

(* EVERY strict prefix of an entry that contains code is reported as an error: never executed,
   never mistaken for a stale entry, never a panic *)
Theorem C13_strict_prefix_rejected : forall crc v cm e k,
  crc_ok crc -> wf_entry v cm -> cm_exec cm <> [] ->
  serialize crc v cm = Some e -> (k < length e)%nat ->
  deserialize crc v (firstn k e) = Error.
Proof. exact strict_prefix_rejected. Qed.
Print Assumptions C13_strict_prefix_rejected.

(* the exact limit for an entry WITHOUT code (module with no local function): the 4 checksum bytes are
   written but not read, so the entry cut inside its last 4 bytes is still accepted — and yields the
   identical, code-less module; every shorter prefix is an error *)
Theorem C13_prefix_no_code_exact : forall crc v cm e k,
  crc_ok crc -> wf_entry v cm -> cm_exec cm = [] -> crc [] = 0 ->
  serialize crc v cm = Some e -> (k < length e)%nat ->
  deserialize crc v (firstn k e) = if (k <? length e - 4)%nat then Error else Ok cm.
Proof. exact prefix_no_code. Qed.
Print Assumptions C13_prefix_no_code_exact.

(* success, Stale and Panic are stable under extension of the input; a success never consumes more
   than it was given (steps (ii) of the proof plan, of independent interest) *)
Theorem C13_success_stable_under_extension : forall crc v inp x R,
  deserialize_c crc v inp = R -> R <> RError -> deserialize_c crc v (inp ++ x) = ext R x.
Proof. exact deserialize_ext. Qed.
Print Assumptions C13_success_stable_under_extension.

Theorem C13_consumed_le_length : forall crc v inp n, consumed crc v inp = Some n -> 0 <= n <= zlen inp.
Proof. exact consumed_le. Qed.
Print Assumptions C13_consumed_le_length.

(* an entry written by any other version string is never accepted (the reader's version is arbitrary) *)
Theorem C13_other_version_never_ok : forall crc v v' cm e,
  zlen v < 256 -> v <> v' -> serialize crc v cm = Some e ->
  deserialize crc v' e = Stale \/ deserialize crc v' e = Error.
Proof. exact other_version. Qed.
Print Assumptions C13_other_version_never_ok.

(* crash safety of Add, directory level: for every set of concurrent writers (any keys, any contents),
   every interleaving of their steps, every crash point, injected I/O error and concurrent Delete, and
   every initial directory: a final name holds what it held before or the COMPLETE, fsynced content of
   one writer of that key *)
Theorem C13_crash_safe_fs : forall wkey wdata d0 evs k f,
  lookup (Final k) (s_dir (run wkey wdata d0 evs)) = Some f ->
  lookup (Final k) d0 = Some f \/ exists i, wkey i = k /\ f_data f = wdata i /\ f_synced f = true.
Proof. exact crash_safe. Qed.
Print Assumptions C13_crash_safe_fs.

(* ... and with the codec: what a later process finds under the final name deserializes to a writer's module *)
Theorem C13_crash_safe : forall crc v (cms : nat -> cmod) (ents : nat -> bytes) wkey d0 evs k f,
  crc_ok crc ->
  (forall i, wf_entry v (cms i) /\ (cm_exec (cms i) = [] -> crc [] = 0) /\ serialize crc v (cms i) = Some (ents i)) ->
  lookup (Final k) (s_dir (run wkey ents d0 evs)) = Some f ->
  lookup (Final k) d0 = Some f \/
  exists i, wkey i = k /\ f_data f = ents i /\ f_synced f = true /\ deserialize crc v (f_data f) = Ok (cms i).
Proof. exact crash_safe_entries. Qed.
Print Assumptions C13_crash_safe.

(* partial content only ever sits under temporary names, as a prefix of a writer's content *)
Theorem C13_partial_only_under_temp_names : forall wkey wdata d0 evs n f,
  lookup n (s_dir (run wkey wdata d0 evs)) = Some f ->
  lookup n d0 = Some f \/
  match n with
  | Final k => exists i, wkey i = k /\ f_data f = wdata i
  | Tmp k _ => exists i m, wkey i = k /\ f_data f = firstn m (wdata i)
  end.
Proof. exact partial_only_temp. Qed.
Print Assumptions C13_partial_only_under_temp_names.

(* the failure path of Add removes the writer's temp file and changes nothing else *)
Theorem C13_add_failure_cleans : forall wkey wdata s w n,
  owned wkey s w = Some n ->
  let s' := step wkey wdata s (EFail w) in
  lookup n (s_dir s') = None /\ s_pc s' w = PDone false /\
  (forall m, m <> n -> lookup m (s_dir s') = lookup m (s_dir s)) /\
  (forall j, j <> w -> s_pc s' j = s_pc s j).
Proof. exact add_failure_cleans. Qed.
Print Assumptions C13_add_failure_cleans.

(* the concrete checksum used by the correspondence run satisfies the hypotheses above *)
Theorem C13_crc32c_ok : crc_ok crc32c /\ crc32c [] = 0.
Proof. exact (conj crc32c_ok crc32c_empty). Qed.
Print Assumptions C13_crc32c_ok.

(* ====================================================================================================
   SECOND PART (Rt/CacheExt.v, Proofs/CacheExtP.v): the key, sessions over one directory, damaged entries, allocation.
   [H] is the hash (sha256) as a function from byte strings to numbers; its injectivity is a HYPOTHESIS of the
   theorems that need it, never an axiom. [fam n i]: the binary of the inputs i has n bytes and the CPU feature word
   fits 64 bits - one binary under every setting is the case the property names. *)

(* SETTINGS. Same binary, same CPU: two compilations get the same key exactly when their listener pattern (none at all,
   or one flag per local function) and their ensure-termination flag are equal. Nothing else reaches the key. *)
Theorem C13_key_separates_settings : forall H : list Z -> Z, (forall a b, H a = H b -> a = b) ->
  forall w cpu ls1 t1 ls2 t2,
  file_key H {| k_wasm := w; k_lis := ls1; k_term := t1; k_cpu := cpu |} =
  file_key H {| k_wasm := w; k_lis := ls2; k_term := t2; k_cpu := cpu |} <-> ls1 = ls2 /\ t1 = t2.
Proof. exact key_separates_settings. Qed.
Print Assumptions C13_key_separates_settings.

(* ... binaries of equal length: equal keys only for equal inputs (for binaries of different lengths the hashed string is
   ambiguous as a string: CacheExtP.id_pre_not_injective) *)
Theorem C13_key_injective : forall H : list Z -> Z, (forall a b, H a = H b -> a = b) ->
  forall n i j, fam n i -> fam n j -> file_key H i = file_key H j -> i = j.
Proof. exact file_key_inj. Qed.
Print Assumptions C13_key_injective.

(* ... another CPU feature word, another key *)
Theorem C13_key_separates_cpu : forall H : list Z -> Z, (forall a b, H a = H b -> a = b) ->
  forall w ls t c1 c2, in_u 64 c1 -> in_u 64 c2 ->
  file_key H {| k_wasm := w; k_lis := ls; k_term := t; k_cpu := c1 |} =
  file_key H {| k_wasm := w; k_lis := ls; k_term := t; k_cpu := c2 |} -> c1 = c2.
Proof. exact key_separates_cpu. Qed.
Print Assumptions C13_key_separates_cpu.

(* two compilations share an entry (a final name) iff their inputs are equal *)
Theorem C13_share_entry_iff_same_inputs : forall (H : list Z -> Z) n, (forall a b, H a = H b -> a = b) ->
  forall i j, fam n i -> fam n j -> (Final (file_key H i) = Final (file_key H j) <-> i = j).
Proof. exact share_iff_equal. Qed.
Print Assumptions C13_share_entry_iff_same_inputs.

(* WARM = COLD. A session = any sequence of CompileModule calls (any settings, any order, any repetition) over a
   directory in which every final name holds the complete entry of the inputs with that key (e.g. the empty one): every
   call yields - loaded or compiled - exactly the code the compiler generates for ITS OWN inputs, none reports an
   error, and the directory stays well-formed. [gen] is the compiler as a function of the inputs. *)
Theorem C13_warm_equals_cold : forall crc (H : list Z -> Z) v gen n,
  crc_ok crc -> crc [] = 0 -> (forall a b, H a = H b -> a = b) -> (forall i, wf_entry v (gen i)) ->
  forall is d, dir_ok crc H v gen n d -> Forall (fam n) is ->
  map code_of (snd (session crc H v gen d is)) = map (fun i => Some (gen i)) is /\
  dir_ok crc H v gen n (fst (session crc H v gen d is)).
Proof. exact session_sound. Qed.
Print Assumptions C13_warm_equals_cold.

(* one call in detail: a load leaves the directory as it is, a compilation happens only when the key's name was absent,
   afterwards the name holds the entry of these inputs, no other name changes *)
Theorem C13_compile_step : forall crc (H : list Z -> Z) v gen n,
  crc_ok crc -> crc [] = 0 -> (forall a b, H a = H b -> a = b) -> (forall i, wf_entry v (gen i)) ->
  forall d i, dir_ok crc H v gen n d -> fam n i ->
  let d' := fst (compile crc H v gen d i) in let r := snd (compile crc H v gen d i) in
  code_of r = Some (gen i) /\
  (forall cm, r = CLoaded cm -> d' = d /\ lookup (Final (file_key H i)) d <> None) /\
  (forall cm, r = CCompiled cm -> lookup (Final (file_key H i)) d = None) /\
  dir_ok crc H v gen n d' /\
  (exists f, lookup (Final (file_key H i)) d' = Some f /\ entry_of crc v gen i = Some (f_data f)) /\
  (forall m, m <> Final (file_key H i) -> lookup m d' = lookup m d).
Proof. exact compile_sound. Qed.
Print Assumptions C13_compile_step.

(* ... with concurrent writers: whatever the interleaving of any number of Adds under any settings, crashes, injected
   errors and deletions, what a reader finds under the key of its inputs deserializes to the compiler's code for
   exactly these inputs: a warm entry is only ever loaded for an equal key, and an equal key means equal inputs *)
Theorem C13_warm_hit_is_own_code : forall crc (H : list Z -> Z) v gen n (win : nat -> kin) (ents : nat -> bytes) d0 evs i f,
  crc_ok crc -> crc [] = 0 -> (forall a b, H a = H b -> a = b) -> (forall j, wf_entry v (gen j)) ->
  (forall w, fam n (win w) /\ entry_of crc v gen (win w) = Some (ents w)) ->
  dir_ok crc H v gen n d0 -> fam n i ->
  lookup (Final (file_key H i)) (s_dir (run (fun w => file_key H (win w)) ents d0 evs)) = Some f ->
  deserialize crc v (f_data f) = Ok (gen i).
Proof. exact warm_hit_is_own_code. Qed.
Print Assumptions C13_warm_hit_is_own_code.

(* the property's last sentence at the level of CompileModule: a truncated entry under the key is reported (nothing is
   executed, the directory is untouched) ... *)
Theorem C13_truncated_entry_reported : forall crc (H : list Z -> Z) v gen, crc_ok crc ->
  forall d i f cm0 e0 k, wf_entry v cm0 -> cm_exec cm0 <> [] -> serialize crc v cm0 = Some e0 -> (k < length e0)%nat ->
  lookup (Final (file_key H i)) d = Some f -> f_data f = firstn k e0 ->
  compile crc H v gen d i = (d, CReported).
Proof. exact truncated_is_reported. Qed.
Print Assumptions C13_truncated_entry_reported.

(* ... an entry of another version is reported, or discarded and replaced by a fresh compilation of these inputs *)
Theorem C13_other_version_entry_not_used : forall crc (H : list Z -> Z) v gen, (forall i, wf_entry v (gen i)) ->
  forall d i f v0 cm0 e0, zlen v0 < 256 -> v0 <> v -> serialize crc v0 cm0 = Some e0 ->
  lookup (Final (file_key H i)) d = Some f -> f_data f = e0 ->
  compile crc H v gen d i = (d, CReported) \/
  (snd (compile crc H v gen d i) = CCompiled (gen i) /\
   exists f', lookup (Final (file_key H i)) (fst (compile crc H v gen d i)) = Some f' /\ entry_of crc v gen i = Some (f_data f')).
Proof. exact other_version_not_used. Qed.
Print Assumptions C13_other_version_entry_not_used.

(* DAMAGED ENTRIES. What ANY accepted byte string looks like (bytes are non-negative numbers): the magic, the length and
   the bytes of the reader's version, a count equal to the number of offsets delivered, that many offsets, a length equal
   to the length of the code delivered, the code delivered and its checksum (absent when no code is delivered), at least
   1 + 16 bytes per source-map pair delivered, the unread rest. *)
Theorem C13_accepted_shape : forall crc v inp cm r, Forall (fun b => 0 <= b) inp -> deserialize_c crc v inp = ROk cm r ->
  exists cnt ob lb cbk tl,
    inp = magic ++ [zlen v] ++ v ++ cnt ++ ob ++ lb ++ cm_exec cm ++ cbk ++ tl ++ r /\
    zlen cnt = 4 /\ le_dec cnt = zlen (cm_offsets cm) /\ zlen ob = 8 * zlen (cm_offsets cm) /\ zlen lb = 8 /\
    (cm_exec cm <> [] -> le_dec lb = zlen (cm_exec cm) /\ zlen cbk = 4 /\ le_dec cbk = crc (cm_exec cm)) /\
    (cm_exec cm = [] -> cbk = []) /\
    1 + 16 * zlen (cm_sm_wasm cm) <= zlen tl /\ length (cm_sm_wasm cm) = length (cm_sm_exec cm).
Proof. exact accepted_shape. Qed.
Print Assumptions C13_accepted_shape.

(* hence: ANY damage to the magic, the version length byte or the version bytes is never accepted *)
Theorem C13_damaged_header_never_accepted : forall crc v inp cm, Forall (fun b => 0 <= b) inp ->
  firstn (7 + length v) inp <> magic ++ [zlen v] ++ v -> deserialize crc v inp <> Ok cm.
Proof. exact damaged_header_never_accepted. Qed.
Print Assumptions C13_damaged_header_never_accepted.

(* hence: the count, the code length and the number of source-map pairs of an accepted input are bounded by its length
   (a field damaged to ask for more than the file holds is never accepted) *)
Theorem C13_accepted_sizes_within_file : forall crc v inp cm, Forall (fun b => 0 <= b) inp -> deserialize crc v inp = Ok cm ->
  11 + zlen v + 8 * zlen (cm_offsets cm) + 8 + zlen (cm_exec cm) + 1 + 16 * zlen (cm_sm_wasm cm) <= zlen inp.
Proof. exact accepted_sizes_within_file. Qed.
Print Assumptions C13_accepted_sizes_within_file.

(* single fields of a laid-out entry (Proofs.CacheExtP.layout; serialize produces this layout: serialize_layout).
   Detected by construction: the code bytes replaced by others with another checksum ... *)
Theorem C13_code_damage_rejected : forall crc v offs ex ex' tl, zlen v < 256 -> zlen offs < 2 ^ 32 -> Forall (in_s 64) offs ->
  0 < zlen ex < 2 ^ 63 -> zlen ex' = zlen ex -> crc_ok crc -> crc ex' <> crc ex ->
  deserialize crc v (layout v (zlen offs) (offs_bytes offs) (le_enc 8 (zlen ex)) ex' (le_enc 4 (crc ex)) tl) = Error.
Proof. exact code_damage_rejected. Qed.
Print Assumptions C13_code_damage_rejected.

(* ... the checksum field replaced by another value ... *)
Theorem C13_crc_damage_rejected : forall crc v offs ex cb tl, zlen v < 256 -> zlen offs < 2 ^ 32 -> Forall (in_s 64) offs ->
  0 < zlen ex < 2 ^ 63 -> zlen cb = 4 -> le_dec cb <> crc ex ->
  deserialize crc v (layout v (zlen offs) (offs_bytes offs) (le_enc 8 (zlen ex)) ex cb tl) = Error.
Proof. exact crc_damage_rejected. Qed.
Print Assumptions C13_crc_damage_rejected.

(* ... a count, a code length or a source-map length that asks for more than what follows it in the file *)
Theorem C13_count_too_large_rejected : forall crc v c R, zlen v < 256 -> 0 <= c < 2 ^ 32 -> zlen R < 8 * c ->
  deserialize crc v (hdr v c ++ R) = Error.
Proof. exact count_too_large_rejected. Qed.
Print Assumptions C13_count_too_large_rejected.

Theorem C13_codelen_too_large_rejected : forall crc v offs lb R, zlen v < 256 -> zlen offs < 2 ^ 32 -> Forall (in_s 64) offs ->
  zlen lb = 8 -> zlen R < le_dec lb ->
  deserialize crc v (hdr v (zlen offs) ++ offs_bytes offs ++ lb ++ R) = Error.
Proof. exact codelen_too_large_rejected. Qed.
Print Assumptions C13_codelen_too_large_rejected.

Theorem C13_smlen_too_large_rejected : forall offs ex lb R, ex <> [] -> zlen lb = 8 -> zlen R < 16 * le_dec lb ->
  deser_tail offs ex ([1] ++ lb ++ R) = RError.
Proof. exact (smlen_too_large_rejected crc32c). Qed.
Print Assumptions C13_smlen_too_large_rejected.

(* NOT detected (the limits, stated as theorems): the checksum covers the code only. The function offsets of an entry can
   be replaced by any others: the entry is read as before and delivers the other offsets ... *)
Theorem C13_limit_offsets_not_protected : forall crc v (offs offs' : list Z) ex tl, zlen v < 256 -> zlen offs < 2 ^ 32 ->
  length offs' = length offs -> Forall (in_s 64) offs' -> 0 < zlen ex < 2 ^ 63 -> crc_ok crc ->
  deserialize_c crc v (layout v (zlen offs) (offs_bytes offs') (le_enc 8 (zlen ex)) ex (le_enc 4 (crc ex)) tl) =
  deser_tail offs' ex tl.
Proof. exact offsets_not_protected. Qed.
Print Assumptions C13_limit_offsets_not_protected.

(* ... and a code length of zero switches the checksum off: the bytes of the code are read as source-map flag *)
Theorem C13_limit_codelen_zero_skips_checksum : forall crc v offs R, zlen v < 256 -> zlen offs < 2 ^ 32 -> Forall (in_s 64) offs ->
  deserialize_c crc v (hdr v (zlen offs) ++ offs_bytes offs ++ le_enc 8 0 ++ R) = deser_tail offs [] R.
Proof. exact codelen_zero_skips_checksum. Qed.
Print Assumptions C13_limit_codelen_zero_skips_checksum.

(* ALLOCATION. [alloc_c v inp] = (bytes of the offsets slice made from the count field, length handed to mmap from the code
   length field) - both requested before the bytes they announce are read. In proportion on everything the property
   quantifies over: a complete entry or ANY truncation of it asks for no more than the length of the complete entry ... *)
Theorem C13_alloc_prefix_bounded : forall crc v cm e k, wf_entry v cm -> serialize crc v cm = Some e ->
  0 <= fst (alloc_c v (firstn k e)) /\ 0 <= snd (alloc_c v (firstn k e)) /\
  fst (alloc_c v (firstn k e)) + snd (alloc_c v (firstn k e)) <= zlen e.
Proof. exact alloc_prefix_bounded. Qed.
Print Assumptions C13_alloc_prefix_bounded.

(* ... and NOT in proportion on a damaged one (limit): the slice follows the count field whatever the rest of the file is -
   up to 8 * (2^32 - 1) bytes for a file of any length (CacheExtP.ex_alloc_damaged: 8 GiB for a 99-byte file) *)
Theorem C13_limit_alloc_follows_count : forall v c R, zlen v < 256 -> 0 <= c < 2 ^ 32 ->
  fst (alloc_c v (hdr v c ++ R)) = 8 * c.
Proof. exact (alloc_follows_count crc32c). Qed.
Print Assumptions C13_limit_alloc_follows_count.
