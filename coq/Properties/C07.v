(* C07 - close-on-context-done always stops a running guest.
   PARTIAL: what is proved is structural and about the model coq/Engine/TermCheck.v: (1) a verified decision procedure
   for "every cycle that does not grow the call stack contains an exit-code check", (2) the check placement of both
   lowerings (loop headers + before tail calls, as in the code now) passes it for every program, (3) the placement
   before the F05 repair does not, (4) the closed-word state machine reports the first cause's code for good.
   Tied to the engines on every run: the checker is run on control graphs dumped from the real lowerings, and the
   placement predicted by `place` is compared with them. Promptness itself (goroutine scheduling, the watcher
   goroutine, that the backend keeps the check calls) is measured on both engines, not proved.
   HONEST BOUND: the bound on check-free executions is exponential in the stack ceiling, and it is tight
   (C07_tree_recursion_unbounded_witness): a guest doing bounded-depth tree recursion never polls the closed word. *)
From Coq Require Import List Arith ZArith.
From Verif Require Import Lib.GoInt Gen.GenC07Sys Engine.TermCheck Proofs.TermCheckP.
Import ListNotations.
Close Scope Z_scope.
Open Scope nat_scope.

(* For ALL graphs: if the checker accepts G, every path of G (any starting configuration, any continuation stack)
   with more than bound(|G|, ceiling) = (|G|+2)^(ceiling+1) configurations whose call depth never exceeds `ceiling`
   visits a check node: a running guest terminates, overflows the stack, or polls the closed word again within
   a bounded number of steps. *)
Theorem C07_checker_sound :
  forall (G : graph) (ceiling : nat) (l : list cfg),
  all_cycles_checked G = true ->
  is_path G l ->
  (forall c, In c l -> length (snd c) <= ceiling) ->
  bound (length G) ceiling < length l ->
  exists c, In c l /\ is_check G (fst c) = true.
Proof. exact checker_sound. Qed.
Print Assumptions C07_checker_sound.

(* For EVERY program of the AST, and for each engine's placement separately (they differ: the interpreter lowers a
   return_call of an imported function as call + return), the control graph of the instrumented program passes the
   checker. In fact any placement that checks at loop headers and before tail calls does. *)
Theorem C07_insertion_complete :
  (forall p, all_cycles_checked (graph_of (place interp_now p)) = true) /\
  (forall p, all_cycles_checked (graph_of (place comp_now p)) = true) /\
  (forall pl p, pl_loop pl = true -> pl_tail pl = true -> all_cycles_checked (graph_of (place pl p)) = true).
Proof. exact insertion_complete_both. Qed.
Print Assumptions C07_insertion_complete.

(* F05: with the placement before the repair (loop headers only) the one-function program f = return_call f is
   rejected on both engines, and rightly so: its graph has check-free paths of every length at stack depth 0.
   With the placement as it is now it is accepted. *)
Theorem C07_tailcall_refuted_before_fix :
  all_cycles_checked (graph_of (place interp_before_fix tail_self)) = false /\
  all_cycles_checked (graph_of (place comp_before_fix tail_self)) = false /\
  (forall n, let G := graph_of (place comp_before_fix tail_self) in
             let l := repeat (2, []) n in
             is_path G l /\ (forall c, In c l -> is_check G (fst c) = false) /\
             (forall c, In c l -> length (snd c) <= 0) /\ length l = n) /\
  all_cycles_checked (graph_of (place interp_now tail_self)) = true /\
  all_cycles_checked (graph_of (place comp_now tail_self)) = true.
Proof. exact tailcall_refuted_before_fix. Qed.
Print Assumptions C07_tailcall_refuted_before_fix.

(* The exponential bound cannot be improved by this placement: t(n) = if n = 0 return; t(n-1); t(n-1) contains no
   loop and no tail call, so neither lowering checks anything in it, the checker accepts it (no stack-neutral cycle),
   and the run of t(d) is a check-free path of 6*2^d - 4 configurations at call depth <= d (closed computation for
   every d <= 12). On the engines this is a call that never returns after cancellation (open finding F25). *)
Theorem C07_tree_recursion_unbounded_witness :
  place interp_now tree_prog = tree_prog /\ place comp_now tree_prog = tree_prog /\
  let G := graph_of tree_prog in
  all_cycles_checked G = true /\
  forall d, d <= 12 ->
    let l := tree_path d [] in
    is_path G l /\ (forall c, In c l -> is_check G (fst c) = false) /\
    (forall c, In c l -> length (snd c) <= d) /\ length l = 6 * 2 ^ d - 4 /\ 2 ^ d <= length l.
Proof. exact tree_recursion_unbounded_witness. Qed.
Print Assumptions C07_tree_recursion_unbounded_witness.

(* What the candidate repair (an exit-code check on function entry, notes/c07-function-entry-check.patch) buys: in a
   graph accepted by the checker in which every callee of a call edge is a check node, the bound is linear in the ceiling. *)
Theorem C07_entry_checks_linear_bound :
  forall (G : graph) (ceiling : nat) (l : list cfg),
  all_cycles_checked G = true ->
  (forall n c r, In (ECall c r) (edges G n) -> is_check G c = true) ->
  is_path G l ->
  (forall c, In c l -> length (snd c) <= ceiling) ->
  (length G + 2) * (ceiling + 1) < length l ->
  exists c, In c l /\ is_check G (fst c) = true.
Proof. exact entry_checks_linear. Qed.
Print Assumptions C07_entry_checks_linear_bound.

(* The closed word (ModuleInstance.Closed): whatever sequence of causes hits a module - cancellation or deadline seen by
   the watcher goroutine or at call entry, CloseWithExitCode(code) from any goroutine - the first one wins the
   compare-and-swap, FailIfClosed reports its code (ExitCodeContextCanceled, ExitCodeDeadlineExceeded, resp. code)
   from then on, and the module is closed. *)
Theorem C07_cause_code :
  (forall c cs, (match c with Closed code => (0 <= code < 2 ^ 32)%Z | _ => True end) ->
     let w := fold_left apply_cause (c :: cs) 0%Z in
     fail_if_closed w = Some (cause_code c) /\ is_closed w = true) /\
  cause_code Cancelled = ExitCodeContextCanceled /\ cause_code DeadlinePassed = ExitCodeDeadlineExceeded /\
  cause_code CancelledAtEntry = ExitCodeContextCanceled /\ cause_code DeadlineAtEntry = ExitCodeDeadlineExceeded /\
  (forall code, cause_code (Closed code) = code) /\
  fail_if_closed 0%Z = None /\ is_closed 0%Z = false.
Proof. exact cause_code_all. Qed.
Print Assumptions C07_cause_code.
