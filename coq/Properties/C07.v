(* C07 - close-on-context-done always stops a running guest.
   PARTIAL: what is proved is structural and about the model coq/Engine/TermCheck.v: (1) a verified decision procedure
   for "every cycle that does not grow the call stack contains an exit-code check", (2) the check placement of both
   lowerings (loop headers + before tail calls, as in the code now) passes it for every program, (3) the placement
   before the F05 repair does not, (4) the closed-word state machine reports the first cause's code for good.
   Tied to the engines on every run: the checker is run on control graphs dumped from the real lowerings, and the
   placement predicted by `place` is compared with them. Promptness itself (goroutine scheduling, the watcher
   goroutine, that the backend keeps the check calls) is measured on both engines, not proved.
   HOST NODES (coq/Engine/TermHost.v): the graphs above treat re-entry of the guest from a host function as an always
   checked boundary. The C07_host_* theorems below make the host a node kind and the call entry (api.Function.Call from a
   host function) an edge that carries its own checks, say which cause each check observes, and show that the entry
   check is the only check point on a recursion guest -> host -> guest.
   WATCHER (coq/Engine/Watcher.v): the goroutine that turns "the context is done" into "the closed word is set" is part
   of the state of an interleaving semantics over several concurrent calls on one module (C07_every_inflight_call_is_watched,
   C07_shared_watcher_without_refcount_refuted), and C07_check_reads_entry_module says which module's word an in-guest
   check must read when the executing function belongs to an imported module.
   HONEST BOUND: the bound on check-free executions is exponential in the stack ceiling, and it is tight
   (C07_tree_recursion_unbounded_witness): a guest doing bounded-depth tree recursion never polls the closed word. *)
From Coq Require Import List Arith ZArith.
From Verif Require Import Lib.GoInt Gen.GenC07Sys Engine.TermCheck Proofs.TermCheckP Engine.TermHost Proofs.TermHostP
  Engine.Watcher Proofs.WatcherP.
Import ListNotations.
Close Scope Z_scope.
Open Scope nat_scope.

(* For ALL graphs: if the checker accepts G, every path of G (any starting configuration, any continuation stack)
   with more than bound(|G|, ceiling) = (|G|+2)^(ceiling+1) configurations whose call depth never exceeds `ceiling`
   visits a check node: a running guest terminates, overflows the stack, or polls the closed word again within
   a bounded number of steps. *)
Theorem C07_checker_sound :
  forall (G : graph) (ceiling : nat) (l : list cfg),
  all_cycles_checked G = true ->
  is_path G l ->
  (forall c, In c l -> length (snd c) <= ceiling) ->
  bound (length G) ceiling < length l ->
  exists c, In c l /\ is_check G (fst c) = true.
Proof. exact checker_sound. Qed.
Print Assumptions C07_checker_sound.

(* For EVERY program of the AST, and for each engine's placement separately (they differ: the interpreter lowers a
   return_call of an imported function as call + return), the control graph of the instrumented program passes the
   checker. In fact any placement that checks at loop headers and before tail calls does. *)
Theorem C07_insertion_complete :
  (forall p, all_cycles_checked (graph_of (place interp_now p)) = true) /\
  (forall p, all_cycles_checked (graph_of (place comp_now p)) = true) /\
  (forall pl p, pl_loop pl = true -> pl_tail pl = true -> all_cycles_checked (graph_of (place pl p)) = true).
Proof. exact insertion_complete_both. Qed.
Print Assumptions C07_insertion_complete.

(* F05: with the placement before the repair (loop headers only) the one-function program f = return_call f is
   rejected on both engines, and rightly so: its graph has check-free paths of every length at stack depth 0.
   With the placement as it is now it is accepted. *)
Theorem C07_tailcall_refuted_before_fix :
  all_cycles_checked (graph_of (place interp_before_fix tail_self)) = false /\
  all_cycles_checked (graph_of (place comp_before_fix tail_self)) = false /\
  (forall n, let G := graph_of (place comp_before_fix tail_self) in
             let l := repeat (2, []) n in
             is_path G l /\ (forall c, In c l -> is_check G (fst c) = false) /\
             (forall c, In c l -> length (snd c) <= 0) /\ length l = n) /\
  all_cycles_checked (graph_of (place interp_now tail_self)) = true /\
  all_cycles_checked (graph_of (place comp_now tail_self)) = true.
Proof. exact tailcall_refuted_before_fix. Qed.
Print Assumptions C07_tailcall_refuted_before_fix.

(* The exponential bound cannot be improved by this placement: t(n) = if n = 0 return; t(n-1); t(n-1) contains no
   loop and no tail call, so neither lowering checks anything in it, the checker accepts it (no stack-neutral cycle),
   and the run of t(d) is a check-free path of 6*2^d - 4 configurations at call depth <= d (closed computation for
   every d <= 12). On the engines this is a call that never returns after cancellation (open finding F25). *)
Theorem C07_tree_recursion_unbounded_witness :
  place interp_now tree_prog = tree_prog /\ place comp_now tree_prog = tree_prog /\
  let G := graph_of tree_prog in
  all_cycles_checked G = true /\
  forall d, d <= 12 ->
    let l := tree_path d [] in
    is_path G l /\ (forall c, In c l -> is_check G (fst c) = false) /\
    (forall c, In c l -> length (snd c) <= d) /\ length l = 6 * 2 ^ d - 4 /\ 2 ^ d <= length l.
Proof. exact tree_recursion_unbounded_witness. Qed.
Print Assumptions C07_tree_recursion_unbounded_witness.

(* What the candidate repair (an exit-code check on function entry, notes/c07-function-entry-check.patch) buys: in a
   graph accepted by the checker in which every callee of a call edge is a check node, the bound is linear in the ceiling. *)
Theorem C07_entry_checks_linear_bound :
  forall (G : graph) (ceiling : nat) (l : list cfg),
  all_cycles_checked G = true ->
  (forall n c r, In (ECall c r) (edges G n) -> is_check G c = true) ->
  is_path G l ->
  (forall c, In c l -> length (snd c) <= ceiling) ->
  (length G + 2) * (ceiling + 1) < length l ->
  exists c, In c l /\ is_check G (fst c) = true.
Proof. exact entry_checks_linear. Qed.
Print Assumptions C07_entry_checks_linear_bound.

(* The closed word (ModuleInstance.Closed): whatever sequence of causes hits a module - cancellation or deadline seen by
   the watcher goroutine or at call entry, CloseWithExitCode(code) from any goroutine - the first one wins the
   compare-and-swap, FailIfClosed reports its code (ExitCodeContextCanceled, ExitCodeDeadlineExceeded, resp. code)
   from then on, and the module is closed. *)
Theorem C07_cause_code :
  (forall c cs, (match c with Closed code => (0 <= code < 2 ^ 32)%Z | _ => True end) ->
     let w := fold_left apply_cause (c :: cs) 0%Z in
     fail_if_closed w = Some (cause_code c) /\ is_closed w = true) /\
  cause_code Cancelled = ExitCodeContextCanceled /\ cause_code DeadlinePassed = ExitCodeDeadlineExceeded /\
  cause_code CancelledAtEntry = ExitCodeContextCanceled /\ cause_code DeadlineAtEntry = ExitCodeDeadlineExceeded /\
  (forall code, cause_code (Closed code) = code) /\
  fail_if_closed 0%Z = None /\ is_closed 0%Z = false.
Proof. exact cause_code_all. Qed.
Print Assumptions C07_cause_code.

(* ------------------------------------------------------------------ host nodes, call entry as a check point *)

(* For ALL graphs with host nodes and entry edges, and every situation (view) v: if hcheck accepts - the cycle checker
   accepts the graph without its entry edges AND every entry edge carries a check that observes v - then a path in which
   no single call engine holds more than `ceiling` frames, whatever the number of nested call engines (nothing bounds
   that: each api.Function.Call from a host function gets a fresh stack), passes a check point observing v (a check
   node or a checked call entry) within hbound = (|H|+2)^(ceiling+1) * (nesting at the start of the path) steps. *)
Theorem C07_host_checker_sound :
  forall (v : view) (H : hgraph) (ceiling : nat) (c0 : hcfg) (l : hpath),
  hcheck v H = true ->
  is_hpath H c0 l ->
  (forall c, In c (cfgs c0 l) -> segs_le ceiling (snd c)) ->
  hbound (length H) ceiling (nest (snd c0)) <= length l ->
  checkpoint v H c0 l.
Proof. exact host_checker_sound. Qed.
Print Assumptions C07_host_checker_sound.

(* For ALL graphs in which every host -> guest edge is a call entry whose checks observe the situation: every path along
   which the host <-> guest nesting grows - every trip round a cycle guest -> host -> guest - passes such an entry check
   (no ceiling, any length); and in a well-formed graph call entries leave host nodes only. *)
Theorem C07_host_cycles_checked :
  (forall (v : view) (H : hgraph), entries_checked v H = true ->
     forall (l : hpath) (c0 : hcfg), is_hpath H c0 l -> nest (snd c0) < nest (snd (hlast c0 l)) ->
     exists ks c, In (Some ks, c) l /\ v_entry v ks = true) /\
  (forall (H : hgraph) n st ks c', wf_host H = true -> hstep H (n, st) (Some ks) c' -> is_host H n = true).
Proof. exact host_cycles_checked_full. Qed.
Print Assumptions C07_host_cycles_checked.

(* The seeded defect's shape: one guest function that calls an imported Go function which calls it back. Neither
   lowering places a check in it. If the call entry does not observe the situation, hcheck rejects the graph, rightly:
   it has check-free paths of every length on which every call engine holds a single frame and the nesting grows by
   one per round trip. If the entry observes the situation the graph is accepted. Instances: no situation is observed
   after the seeded change (entry_seeded); with the entry as it is now (entry_now = the ctx.Done pre-check) a close
   from another goroutine and an outer call's cancellation are not observed, the call's own context is. *)
Theorem C07_host_cycle_unchecked_refuted :
  place interp_now hostrec_prog = hostrec_prog /\ place comp_now hostrec_prog = hostrec_prog /\
  (forall v ks, v_entry v ks = false ->
     hcheck v (hostrec_graph ks) = false /\
     forall n, let l := hostrec_path ks n [] in
       is_hpath (hostrec_graph ks) (2, []) l /\ ~ checkpoint v (hostrec_graph ks) (2, []) l /\
       (forall c, In c (cfgs (2, []) l) -> segs_le 1 (snd c)) /\ length l = 3 * n /\
       nest (snd (hlast (2, []) l)) = n + 1) /\
  (forall v ks, v_entry v ks = true -> hcheck v (hostrec_graph ks) = true) /\
  (forall w, v_entry (view_of w) entry_seeded = false) /\
  (forall code, v_entry (view_of (sit_close code)) entry_now = false) /\
  v_entry (view_of sit_outer_cancel) entry_now = false /\
  (forall b, v_entry (view_of (sit_cancel b)) entry_now = true) /\
  (forall b, v_entry (view_of (sit_deadline b)) entry_now = true).
Proof. exact host_cycle_unchecked_refuted. Qed.
Print Assumptions C07_host_cycle_unchecked_refuted.

(* Which cause is observed where (run_chk / run_entry model the two kinds of check on ctx.Err() and the closed word):
   the entry pre-check observes cancellation and deadline of the context handed to the call, at once and with the right
   code; it does not observe a module closed from another goroutine nor the word written by an outer call's watcher;
   after the seeded change the entry observes nothing; with FailIfClosed added at entry it observes every cause; the
   checks inside the guest read the word only (close: at once; cancellation / deadline: once a watcher has run). *)
Theorem C07_entry_observes_cause :
  (forall b, fst (run_entry entry_now (sit_cancel b)) = Some ExitCodeContextCanceled) /\
  (forall b, fst (run_entry entry_now (sit_deadline b)) = Some ExitCodeDeadlineExceeded) /\
  (forall code, observes entry_now (sit_close code) = false) /\
  observes entry_now sit_outer_cancel = false /\ observes entry_now sit_outer_deadline = false /\
  (forall w, observes entry_seeded w = false) /\
  (forall b, observes entry_repaired (sit_cancel b) = true) /\ (forall b, observes entry_repaired (sit_deadline b) = true) /\
  (forall code, observes entry_repaired (sit_close code) = true) /\
  observes entry_repaired sit_outer_cancel = true /\ observes entry_repaired sit_outer_deadline = true /\
  (forall code, observes [KWord] (sit_close code) = true) /\
  observes [KWord] (sit_cancel true) = true /\ observes [KWord] (sit_cancel false) = false /\
  observes [KWord] (sit_deadline true) = true /\ observes [KWord] (sit_deadline false) = false /\
  observes entry_now sit_quiet = false /\ observes entry_repaired sit_quiet = false /\ observes [KWord] sit_quiet = false.
Proof. exact entry_observes_cause. Qed.
Print Assumptions C07_entry_observes_cause.

(* The entry pre-check in full: whenever the context handed to a call is done, the call returns at entry with an exit
   code - the context's code if the module was still open (and the module is closed by it), the earlier cause's code
   otherwise; with a live context the call always proceeds into the guest, whatever the closed word says. *)
Theorem C07_entry_precheck :
  (forall w, w_ctx w <> CtxLive ->
     exists code, fst (run_entry entry_now w) = Some code /\
       (w_word w = 0%Z -> code = ctx_code (w_ctx w) /\ is_closed (w_word (snd (run_entry entry_now w))) = true) /\
       (w_word w <> 0%Z -> fail_if_closed (w_word w) = Some code)) /\
  (forall w, w_ctx w = CtxLive -> run_entry entry_now w = (None, w)).
Proof. exact (conj entry_now_observes_ctx entry_now_blind). Qed.
Print Assumptions C07_entry_precheck.

(* For EVERY program and each engine's placement: the graph WITH host nodes and entry edges passes hcheck in every
   situation that both the in-guest checks and the entry checks observe - with the code as it is now: the call's own
   context cancelled / past its deadline (watcher has run); with FailIfClosed at entry also a close from another
   goroutine and an outer call's cancellation. *)
Theorem C07_host_insertion_complete :
  (forall pl p ks v, pl_loop pl = true -> pl_tail pl = true -> v_node v = true -> v_entry v ks = true ->
     hcheck v (hgraph_of ks (place pl p)) = true) /\
  (forall p, hcheck (view_of (sit_cancel true)) (hgraph_of entry_now (place interp_now p)) = true /\
             hcheck (view_of (sit_cancel true)) (hgraph_of entry_now (place comp_now p)) = true /\
             hcheck (view_of (sit_deadline true)) (hgraph_of entry_now (place interp_now p)) = true /\
             hcheck (view_of (sit_deadline true)) (hgraph_of entry_now (place comp_now p)) = true) /\
  (forall p code, hcheck (view_of (sit_close code)) (hgraph_of entry_repaired (place interp_now p)) = true /\
                  hcheck (view_of (sit_close code)) (hgraph_of entry_repaired (place comp_now p)) = true /\
                  hcheck (view_of sit_outer_cancel) (hgraph_of entry_repaired (place interp_now p)) = true /\
                  hcheck (view_of sit_outer_cancel) (hgraph_of entry_repaired (place comp_now p)) = true).
Proof. exact host_insertion_complete_all. Qed.
Print Assumptions C07_host_insertion_complete.

(* ------------------------------------------------------------------ the watcher goroutine as part of the state *)

(* For EVERY derivation structure of contexts E and EVERY schedule evs of call entries, call returns, contexts becoming done
   (with everything derived from them), watcher steps and closes from other goroutines over any number of concurrent calls
   on one module (shared, derived or distinct contexts), with one watcher per call as in the code now: at the end of the
   schedule every call k that is in flight with context c
   (1) has its own goroutine alive: listening to c, or it has fired, and then c is done and the closed word is set;
   (2) if c is done, the goroutine's step is enabled and sets the closed word - with the context's code
       (ExitCodeContextCanceled / ExitCodeDeadlineExceeded) when nothing closed the module before;
   (3) if c is done, then under EVERY continuation evs' in which k does not return and the goroutine of k is scheduled at
       least once, the module is closed (and FailIfClosed reports an exit code): the word is set while the call is in
       flight, whatever the other calls do - return, start, share the context or not;
   (4) is never "in flight, context done, word 0, no goroutine listening". *)
Theorem C07_every_inflight_call_is_watched :
  forall (E : cenv) (evs : list event) (k c : nat),
    let s := run PerCall E evs init in
    calls s k = CIn c ->
    (watch s k = WListen c \/ (watch s k = WFired /\ word s <> 0%Z /\ cdone s c <> CtxLive)) /\
    (cdone s c <> CtxLive ->
       let s1 := step PerCall E s (EWatch k) in
       word s1 <> 0%Z /\
       (word s = 0%Z -> fail_if_closed (word s1) = Some (ctx_code (cdone s c)) /\ is_closed (word s1) = true)) /\
    (cdone s c <> CtxLive ->
       forall evs', ~ In (EReturn k) evs' -> In (EWatch k) evs' ->
         let s' := run PerCall E evs' s in
         word s' <> 0%Z /\ is_closed (word s') = true /\ exists code, fail_if_closed (word s') = Some code) /\
    unwatched_call s k = false.
Proof. exact every_inflight_call_is_watched. Qed.
Print Assumptions C07_every_inflight_call_is_watched.

(* The seeded ownership rule C07d (one watcher per Done channel, remembered by the module, stopped by the return of the call
   that spawned it, no reference count). The schedule
       call 0 enters with ctx 0; call 1 enters with ctx 0; call 0 returns; ctx 0 is cancelled
   ends in a state in which call 1 is in flight, its context is done, the word is 0, NO goroutine of any call is listening,
   and no sequence of watcher steps ever sets the word. The same with a context.WithValue child (same Done channel) and a
   deadline. The trigger is specific: with the looping call started first, with a WithCancel child (its own channel) or
   with distinct contexts nobody is stranded; and with the code as it is the goroutine of call 1 is listening at the end
   of the same schedules and its step closes the module with the code of the cause. *)
Theorem C07_shared_watcher_without_refcount_refuted :
  (let s := run SharedNoRefcount env_std seeded_schedule init in
   calls s 1 = CIn 0 /\ cdone s 0 = CtxCanceled /\ word s = 0%Z /\ slot s = None /\
   (forall k, is_listening (watch s k) = false) /\
   (forall ks, word (run SharedNoRefcount env_std (map EWatch ks) s) = 0%Z) /\
   stranded SharedNoRefcount 2 seeded_schedule = [1%Z]) /\
  (let s := run SharedNoRefcount env_std seeded_schedule_derived init in
   calls s 1 = CIn 1 /\ cdone s 1 = CtxDeadline /\ word s = 0%Z /\
   (forall k, is_listening (watch s k) = false) /\
   (forall ks, word (run SharedNoRefcount env_std (map EWatch ks) s) = 0%Z)) /\
  stranded SharedNoRefcount 2 control_schedule = [] /\
  stranded SharedNoRefcount 2 [EEnter 0 0; EEnter 1 2; EReturn 0; EDone 0 CtxCanceled] = [] /\
  stranded SharedNoRefcount 2 [EEnter 0 0; EEnter 1 3; EReturn 0; EDone 3 CtxCanceled] = [] /\
  (let s := run PerCall env_std seeded_schedule init in
   watch s 1 = WListen 0 /\ fail_if_closed (word (step PerCall env_std s (EWatch 1))) = Some ExitCodeContextCanceled) /\
  (let s := run PerCall env_std seeded_schedule_derived init in
   watch s 1 = WListen 1 /\ fail_if_closed (word (step PerCall env_std s (EWatch 1))) = Some ExitCodeDeadlineExceeded).
Proof. exact shared_watcher_without_refcount_refuted. Qed.
Print Assumptions C07_shared_watcher_without_refcount_refuted.

(* Which module's closed word an in-guest check reads (the watcher closes the module the call was made on = the head of
   the chain of modules of the functions on the call engine's stack). Reading the entry module (wazevo) or both (candidate
   repair of the interpreter) observes the cause for every chain. Reading the module of the CALLING function (the
   interpreter now) observes it iff that module is the entry module; for a loop in an imported module d call levels
   below the import boundary, A.run -> B.f_d -> .. -> B.f_0, iff d = 0. A.run -> B.outer -> B.inner is not observed. *)
Theorem C07_check_reads_entry_module :
  (forall chain w, w <> 0%Z -> check_observes SelEntry (entry_closed chain w) chain = true) /\
  (forall chain w, w <> 0%Z -> check_observes SelBoth (entry_closed chain w) chain = true) /\
  (forall chain w, w <> 0%Z ->
     check_observes SelCaller (entry_closed chain w) chain = (caller_mod chain =? entry_mod chain)) /\
  (forall d w, w <> 0%Z ->
     check_observes SelCaller (entry_closed (imported_chain d) w) (imported_chain d) = (d =? 0)) /\
  check_observes SelCaller (entry_closed [0; 1; 1] (apply_cause 0%Z Cancelled)) [0; 1; 1] = false /\
  check_observes SelEntry (entry_closed [0; 1; 1] (apply_cause 0%Z Cancelled)) [0; 1; 1] = true /\
  check_observes SelBoth (entry_closed [0; 1; 1] (apply_cause 0%Z Cancelled)) [0; 1; 1] = true.
Proof. exact check_module_selection. Qed.
Print Assumptions C07_check_reads_entry_module.
