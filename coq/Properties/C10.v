(* C10 — module lifecycle and name registry are linearizable.
   Only statements, `exact <lemma>` and Print Assumptions live here. The model (coq/Rt/Registry.v) is a hand transcription of
   store.go / store_module_list.go / module_instance.go / runtime.go / builder.go at lock-and-atomic granularity, tied to the
   code by the C10 correspondence run (sequential histories, timed concurrent histories, forced schedules). *)
From Coq Require Import List Bool Arith ZArith.
From Verif Require Import Rt.Registry Proofs.RegistryP.
Import ListNotations.

(* the checker decides linearizability: sound (as used by the tie) and complete (as used by the refutations) *)
Theorem C10_lin_check_sound : forall s h, lin_check s h = true -> linearizable s h.
Proof. exact lin_check_sound. Qed.
Print Assumptions C10_lin_check_sound.

Theorem C10_lin_check_complete : forall s h, linearizable s h -> lin_check s h = true.
Proof. exact lin_check_complete. Qed.
Print Assumptions C10_lin_check_complete.

(* every sequential history (any length; instantiations use fresh instance identities) returns exactly what the atomic
   registry returns, and at the end an instance's resources have been closed exactly once iff it is closed *)
Theorem C10_seq_refines : forall ops, wf_ops [] ops ->
  snd (run_ops impl0 ops) = map Some (snd (spec_ops spec0 ops)) /\
  (forall i, count i (res_log (fst (run_ops impl0 ops))) = (if is_closed (fst (run_ops impl0 ops)) i then 1 else 0)).
Proof. exact seq_refines. Qed.
Print Assumptions C10_seq_refines.

(* under EVERY interleaving (atomic or not), from any quiescent start state: resources are closed at most once and the
   notification fires at most once per instance; closed resources imply a closed word; when all threads are done a closed
   instance has had its resources closed exactly once, and its notifier — if it was attached and is not still attached —
   fired exactly once *)
Theorem C10_close_once : forall a s0 prog sched c, base_ok s0 -> run_sched a (init s0 prog) sched = Some c ->
  forall i,
    count i (res_log (st c)) <= 1 /\ count i (notified (st c)) <= 1 /\
    (count i (res_log (st c)) = 1 -> is_closed (st c) i = true) /\
    (finished c = true -> is_closed (st c) i = true ->
       count i (res_log (st c)) = 1 /\
       (In i (attached (st c)) -> ~ In i (notif (st c)) -> count i (notified (st c)) = 1)).
Proof. exact close_once. Qed.
Print Assumptions C10_close_once.

(* once the runtime's closed flag is set, every compile / instantiate (binary or host) invoked later fails, whatever the
   other threads do *)
Theorem C10_after_runtime_close : forall a s0 prog s1 c1 s2 c2,
  run_sched a (init s0 prog) s1 = Some c1 -> rt_closed (st c1) = true -> run_sched a c1 s2 = Some c2 ->
  rt_closed (st c2) = true /\
  forall e, In e (hist c2) -> clk c1 <= e_inv e -> icomp (e_op e) = true -> e_ret e = RErrClosed.
Proof. exact after_rt_close_fail. Qed.
Print Assumptions C10_after_runtime_close.

(* ... and once the store has been swept, the module list is empty and every module that was ever registered is closed *)
Theorem C10_after_runtime_close_all_closed : forall a s0 prog sched c, base_reg s0 ->
  run_sched a (init s0 prog) sched = Some c -> nmap (st c) = None ->
  mlist (st c) = [] /\ forall i, In i (registered (st c)) -> is_closed (st c) i = true.
Proof. exact store_closed_all_closed. Qed.
Print Assumptions C10_after_runtime_close_all_closed.

(* F10 (open finding): a schedule of the step model whose history is NOT linearizable — the second closer returns while
   the first is between CAS and delete, then fails to take the name. It is explained by the relaxed specification, and it
   is not a close-atomic schedule. *)
Theorem C10_close_window_refuted :
  exists c, run_sched false (init impl1 f10_prog) f10_sched = Some c /\ finished c = true /\
            map e_ret (filter (fun e => e_thr e =? 1) (rev (hist c))) = [ROk; RErrDup] /\
            ~ linearizable spec1 (hist c) /\
            rlin_check false spec1 (hist c) = true /\
            run_sched true (init impl1 f10_prog) f10_sched = None.
Proof. exact f10_witness. Qed.
Print Assumptions C10_close_window_refuted.

(* the same window exists in Runtime.Close (flag set before the sweep): compile fails, then a lookup still finds an open module *)
Theorem C10_runtime_close_window_refuted :
  exists c, run_sched false (init impl1 rtwin_prog) rtwin_sched = Some c /\ finished c = true /\
            map e_ret (filter (fun e => e_thr e =? 1) (rev (hist c))) = [RErrClosed; RLook (Some 1)] /\
            ~ linearizable spec1 (hist c) /\ classify spec1 (hist c) = 2%Z.
Proof. exact rt_window_witness. Qed.
Print Assumptions C10_runtime_close_window_refuted.

(* the notifier is attached after registration: a close-atomic, linearizable schedule in which the module is closed
   (resources once) and the notification never fires *)
Theorem C10_notify_lost_refuted :
  exists c, run_sched true (init impl0 lost_prog) lost_sched = Some c /\ finished c = true /\
            lin_check spec0 (hist c) = true /\
            is_closed (st c) 1 = true /\ count 1 (res_log (st c)) = 1 /\
            In 1 (attached (st c)) /\ In 1 (notif (st c)) /\ count 1 (notified (st c)) = 0.
Proof. exact notify_lost_witness. Qed.
Print Assumptions C10_notify_lost_refuted.

(* a compile (or host instantiate) that has passed the closed-runtime check panics on the nil type-id map when
   Runtime.Close sweeps in between — in a close-atomic schedule: found by the concurrent correspondence run, replayed through
   a yielding context *)
Theorem C10_compile_during_close_panics_refuted :
  exists c, run_sched true (init impl1 cpanic_prog) cpanic_sched = Some c /\ finished c = true /\
            map e_ret (filter (fun e => e_thr e =? 0) (hist c)) = [RPanic] /\ ~ linearizable spec1 (hist c).
Proof. exact compile_panic_witness. Qed.
Print Assumptions C10_compile_during_close_panics_refuted.

(* linearizability of close-atomic schedules, BOUNDED: every complete close-atomic schedule of the 302 programs of
   [bounded_progs] (one name, instance 1 pre-registered; <= 3 operations over <= 3 threads, see RegistryP.v) is
   linearizable unless it contains the panic above *)
Theorem C10_linearizable_partial_bounded_3ops : forall p sched c,
  In p bounded_progs -> run_sched true (init impl1 p) sched = Some c -> finished c = true ->
  has_panic (hist c) = true \/ linearizable spec1 (hist c).
Proof. exact linearizable_atomic_bounded. Qed.
Print Assumptions C10_linearizable_partial_bounded_3ops.
