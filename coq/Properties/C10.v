(* C10 — module lifecycle and name registry are linearizable.
   Only statements, `exact <lemma>` and Print Assumptions live here. The model (coq/Rt/Registry.v) is a hand transcription of
   store.go / store_module_list.go / module_instance.go / runtime.go / builder.go at lock-and-atomic granularity, tied to the
   code by the C10 correspondence run (sequential histories, timed concurrent histories, forced schedules).
   Rt/RegistryAnon.v: the atomic steps of InstantiateModule and its windows, anonymous modules, the seeded registerModule variant,
   single-schedule replay. Rt/RegistrySweep.v: relaxed specification with the sweep of Runtime.Close seen module by module. *)
From Coq Require Import List Bool Arith ZArith.
From Verif Require Import Rt.Registry Proofs.RegistryP Rt.RegistryAnon Proofs.RegistryAnonP.
Import ListNotations.

(* the checker decides linearizability: sound (as used by the tie) and complete (as used by the refutations) *)
Theorem C10_lin_check_sound : forall s h, lin_check s h = true -> linearizable s h.
Proof. exact lin_check_sound. Qed.
Print Assumptions C10_lin_check_sound.

Theorem C10_lin_check_complete : forall s h, linearizable s h -> lin_check s h = true.
Proof. exact lin_check_complete. Qed.
Print Assumptions C10_lin_check_complete.

(* every sequential history (any length; instantiations use fresh instance identities) returns exactly what the atomic
   registry returns, and at the end an instance's resources have been closed exactly once iff it is closed *)
Theorem C10_seq_refines : forall ops, wf_ops [] ops ->
  snd (run_ops impl0 ops) = map Some (snd (spec_ops spec0 ops)) /\
  (forall i, count i (res_log (fst (run_ops impl0 ops))) = (if is_closed (fst (run_ops impl0 ops)) i then 1 else 0)).
Proof. exact seq_refines. Qed.
Print Assumptions C10_seq_refines.

(* under EVERY interleaving (atomic or not), from any quiescent start state: resources are closed at most once and the
   notification fires at most once per instance; closed resources imply a closed word; when all threads are done a closed
   instance has had its resources closed exactly once, and its notifier — if it was attached and is not still attached —
   fired exactly once *)
Theorem C10_close_once : forall a s0 prog sched c, base_ok s0 -> run_sched a (init s0 prog) sched = Some c ->
  forall i,
    count i (res_log (st c)) <= 1 /\ count i (notified (st c)) <= 1 /\
    (count i (res_log (st c)) = 1 -> is_closed (st c) i = true) /\
    (finished c = true -> is_closed (st c) i = true ->
       count i (res_log (st c)) = 1 /\
       (In i (attached (st c)) -> ~ In i (notif (st c)) -> count i (notified (st c)) = 1)).
Proof. exact close_once. Qed.
Print Assumptions C10_close_once.

(* once the runtime's closed flag is set, every compile / instantiate (binary or host) invoked later fails, whatever the
   other threads do *)
Theorem C10_after_runtime_close : forall a s0 prog s1 c1 s2 c2,
  run_sched a (init s0 prog) s1 = Some c1 -> rt_closed (st c1) = true -> run_sched a c1 s2 = Some c2 ->
  rt_closed (st c2) = true /\
  forall e, In e (hist c2) -> clk c1 <= e_inv e -> icomp (e_op e) = true -> e_ret e = RErrClosed.
Proof. exact after_rt_close_fail. Qed.
Print Assumptions C10_after_runtime_close.

(* ... and once the store has been swept, the module list is empty and every module that was ever registered is closed *)
Theorem C10_after_runtime_close_all_closed : forall a s0 prog sched c, base_reg s0 ->
  run_sched a (init s0 prog) sched = Some c -> nmap (st c) = None ->
  mlist (st c) = [] /\ forall i, In i (registered (st c)) -> is_closed (st c) i = true.
Proof. exact store_closed_all_closed. Qed.
Print Assumptions C10_after_runtime_close_all_closed.

(* F10 (open finding): a schedule of the step model whose history is NOT linearizable — the second closer returns while
   the first is between CAS and delete, then fails to take the name. It is explained by the relaxed specification, and it
   is not a close-atomic schedule. *)
Theorem C10_close_window_refuted :
  exists c, run_sched false (init impl1 f10_prog) f10_sched = Some c /\ finished c = true /\
            map e_ret (filter (fun e => e_thr e =? 1) (rev (hist c))) = [ROk; RErrDup] /\
            ~ linearizable spec1 (hist c) /\
            rlin_check false spec1 (hist c) = true /\
            run_sched true (init impl1 f10_prog) f10_sched = None.
Proof. exact f10_witness. Qed.
Print Assumptions C10_close_window_refuted.

(* the same window exists in Runtime.Close (flag set before the sweep): compile fails, then a lookup still finds an open module *)
Theorem C10_runtime_close_window_refuted :
  exists c, run_sched false (init impl1 rtwin_prog) rtwin_sched = Some c /\ finished c = true /\
            map e_ret (filter (fun e => e_thr e =? 1) (rev (hist c))) = [RErrClosed; RLook (Some 1)] /\
            ~ linearizable spec1 (hist c) /\ classify spec1 (hist c) = 2%Z.
Proof. exact rt_window_witness. Qed.
Print Assumptions C10_runtime_close_window_refuted.

(* the notifier is attached after registration: a close-atomic, linearizable schedule in which the module is closed
   (resources once) and the notification never fires *)
Theorem C10_notify_lost_refuted :
  exists c, run_sched true (init impl0 lost_prog) lost_sched = Some c /\ finished c = true /\
            lin_check spec0 (hist c) = true /\
            is_closed (st c) 1 = true /\ count 1 (res_log (st c)) = 1 /\
            In 1 (attached (st c)) /\ In 1 (notif (st c)) /\ count 1 (notified (st c)) = 0.
Proof. exact notify_lost_witness. Qed.
Print Assumptions C10_notify_lost_refuted.

(* a compile (or host instantiate) that has passed the closed-runtime check panics on the nil type-id map when
   Runtime.Close sweeps in between — in a close-atomic schedule: found by the concurrent correspondence run, replayed through
   a yielding context *)
Theorem C10_compile_during_close_panics_refuted :
  exists c, run_sched true (init impl1 cpanic_prog) cpanic_sched = Some c /\ finished c = true /\
            map e_ret (filter (fun e => e_thr e =? 0) (hist c)) = [RPanic] /\ ~ linearizable spec1 (hist c).
Proof. exact compile_panic_witness. Qed.
Print Assumptions C10_compile_during_close_panics_refuted.

(* linearizability of close-atomic schedules, BOUNDED: every complete close-atomic schedule of the 302 programs of
   [bounded_progs] (one name, instance 1 pre-registered; <= 3 operations over <= 3 threads, see RegistryP.v) is
   linearizable unless it contains the panic above *)
Theorem C10_linearizable_partial_bounded_3ops : forall p sched c,
  In p bounded_progs -> run_sched true (init impl1 p) sched = Some c -> finished c = true ->
  has_panic (hist c) = true \/ linearizable spec1 (hist c).
Proof. exact linearizable_atomic_bounded. Qed.
Print Assumptions C10_linearizable_partial_bounded_3ops.

(* ---------------------------------------------------------------- anonymous modules and the registration window
   (Rt/RegistryAnon.v lists the atomic steps of InstantiateModule and the five windows between them; name 0 is the empty
   module name). *)

(* "Runtime.Close has completed", read off the history: some Runtime.Close has returned and none is in progress. Then the
   closed flag is set AND the store has been swept. (A Close that loses the flag CAS returns before the winner's sweep —
   open finding F33 — which is why "none in progress" is needed: Example loser_close_returns_early.) *)
Theorem C10_runtime_close_returned_means_swept : forall a s0 prog sched c,
  base_rt s0 -> run_sched a (init s0 prog) sched = Some c ->
  (exists e, In e (hist c) /\ is_rtclose (e_op e) = true) -> no_rtclose_in_flight c ->
  rt_closed (st c) = true /\ nmap (st c) = None.
Proof. exact rtclose_completed. Qed.
Print Assumptions C10_runtime_close_returned_means_swept.

(* (a) for every schedule, once Runtime.Close has completed (flag set, store swept) at c1, whatever happens next: the store
   stays closed and empty, and EVERY instantiate that has returned by c2 — named or anonymous (n = 0), binary or host,
   wherever it was when the close ran (invoked before it, in any of the windows, or after it) — does not end with an open
   module: if it returned ROk its module is closed (it was registered before the sweep and swept); otherwise it failed.
   The only failure that is not an error value is the panic on the nil type-id map, which only the host-module path can
   reach (open finding F32; a binary instantiate never panics); an instantiate invoked after the close fails with "closed". *)
Theorem C10_after_runtime_close_anonymous : forall a s0 prog s1 c1 s2 c2,
  base_reg s0 -> run_sched a (init s0 prog) s1 = Some c1 ->
  rt_closed (st c1) = true -> nmap (st c1) = None ->
  run_sched a c1 s2 = Some c2 ->
  rt_closed (st c2) = true /\ nmap (st c2) = None /\ mlist (st c2) = [] /\
  forall e h n i, In e (hist c2) -> e_op e = OInst h n i ->
    (e_ret e = ROk -> is_closed (st c2) i = true) /\
    (e_ret e = RPanic -> h = true) /\
    (clk c1 <= e_inv e -> e_ret e = RErrClosed).
Proof. exact after_close_instantiate. Qed.
Print Assumptions C10_after_runtime_close_anonymous.

(* ... the same with the hypothesis stated on the history *)
Theorem C10_after_runtime_close_returned_anonymous : forall a s0 prog s1 c1 s2 c2,
  base_reg s0 -> base_rt s0 -> run_sched a (init s0 prog) s1 = Some c1 ->
  (exists e, In e (hist c1) /\ is_rtclose (e_op e) = true) -> no_rtclose_in_flight c1 ->
  run_sched a c1 s2 = Some c2 ->
  forall e h n i, In e (hist c2) -> e_op e = OInst h n i ->
    (e_ret e = ROk -> is_closed (st c2) i = true) /\ (e_ret e = RPanic -> h = true) /\
    (clk c1 <= e_inv e -> e_ret e = RErrClosed).
Proof. exact after_close_returned_instantiate. Qed.
Print Assumptions C10_after_runtime_close_returned_anonymous.

(* (b) the step in which a Runtime.Close runs the locked loop of Store.CloseWithExitCode: every module linked in the list at
   that moment is closed from then on, and so is every module that registerModule ever accepted — anonymous ones (which
   claim no name but are linked and logged exactly like named ones) included; the list is empty and the store is marked
   closed (nil map) from then on. (Resources released / notification fired exactly once: C10_close_once.) *)
Theorem C10_close_sweeps_every_registered_module : forall a s0 prog s1 c1 k c1' s2 c2,
  run_sched a (init s0 prog) s1 = Some c1 -> sweeping c1 k -> tstep a c1 k = Some c1' -> run_sched a c1' s2 = Some c2 ->
  (forall i, In i (mlist (st c1)) -> is_closed (st c2) i = true) /\
  (base_reg s0 -> forall i, In i (registered (st c1)) -> is_closed (st c2) i = true) /\
  mlist (st c2) = [] /\ nmap (st c2) = None.
Proof. exact close_sweeps. Qed.
Print Assumptions C10_close_sweeps_every_registered_module.

(* (c) seed C10c — registerModule with the closed-store test only on the named path ([RegSeeded]): the schedule
   [anon_sched_probe] = thread 0 (anonymous InstantiateModule, then IsClosed) runs invocation, failIfClosed, Store.instantiate;
   thread 1 runs the whole Runtime.Close and returns; thread 0 runs registerModule, attach, returns ROk, reads the closed
   word. The runtime is closed (flag, nil map, engine), the Close returned before the instantiate did, and the instantiate
   returned an OPEN module that sits in the list of the closed store with its resources never released; no atomic registry
   explains the history. *)
Theorem C10_anonymous_skips_closed_check_refuted :
  exists c, run_sched_v RegSeeded true (init impl0 anon_prog_probe) anon_sched_probe = Some c /\ finished c = true /\
            rt_closed (st c) = true /\ nmap (st c) = None /\ eng_closed (st c) = true /\
            (exists e, In e (hist c) /\ e_op e = ORtClose 0 /\ e_ret e = ROk /\
                       exists e', In e' (hist c) /\ e_op e' = OInst false 0 2 /\ e_ret e' = ROk /\ e_res e < e_res e') /\
            map e_ret (filter (fun e => e_thr e =? 0) (rev (hist c))) = [ROk; RExit None] /\
            is_closed (st c) 2 = false /\ mlist (st c) = [2] /\ count 2 (res_log (st c)) = 0 /\
            ~ linearizable spec0 (hist c).
Proof. exact anon_seeded_witness. Qed.
Print Assumptions C10_anonymous_skips_closed_check_refuted.

(* the parametrised step with the real registerModule is the step model of Registry.v, so (a) and (b) speak about it *)
Theorem C10_real_variant_is_registry_model : forall a sched c, run_sched_v RegReal a c sched = run_sched a c sched.
Proof. exact run_sched_v_real. Qed.
Print Assumptions C10_real_variant_is_registry_model.
