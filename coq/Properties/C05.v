(* C05 — numeric instructions compute the specified function.
   These theorems pin the Coq rendering of the specification (Wasm/Numerics.v, Wasm/NumericsF.v, Wasm/NumericsV.v —
   the definitions the correspondence run compares both engines against) to the English statement.
   iN values are unsigned representatives: inr N a := 0 <= a < 2^N; sgn N a is the signed reading. *)
From Coq Require Import ZArith List.
From Verif Require Import Wasm.Numerics Proofs.NumericsP.
Open Scope Z_scope.

(* results of every integer operator are N-bit values *)
Theorem C05_int_binop_in_range : forall N o a b r, 0 < N -> inr N a -> inr N b -> eval_ibinop N o a b = Some r -> inr N r.
Proof. exact ibinop_range. Qed.
Print Assumptions C05_int_binop_in_range.
Theorem C05_int_unop_in_range : forall N o a, 1 < N -> inr N a -> inr N (eval_iunop N o a).
Proof. exact iunop_range. Qed.
Print Assumptions C05_int_unop_in_range.
Theorem C05_int_relop_bool : forall N o a b, eval_irelop N o a b = 0 \/ eval_irelop N o a b = 1.
Proof. exact irelop_range. Qed.
Print Assumptions C05_int_relop_bool.

(* wrap-around arithmetic: add/sub/mul are the ring operations modulo 2^N, on either reading of the operands *)
Theorem C05_add_sub_mul_mod_2N : forall N a b, 0 <= N ->
  (iadd N a b - (a + b)) mod 2 ^ N = 0 /\ (isub N a b - (a - b)) mod 2 ^ N = 0 /\ (imul N a b - a * b) mod 2 ^ N = 0.
Proof. exact iadd_congr. Qed.
Print Assumptions C05_add_sub_mul_mod_2N.
Theorem C05_add_sub_mul_signed : forall N a b, 0 < N -> inr N a -> inr N b ->
  iadd N a b = modN N (sgn N a + sgn N b) /\ isub N a b = modN N (sgn N a - sgn N b) /\ imul N a b = modN N (sgn N a * sgn N b).
Proof. exact iadd_signed. Qed.
Print Assumptions C05_add_sub_mul_signed.
Theorem C05_add_assoc : forall N a b c, 0 <= N -> iadd N (iadd N a b) c = iadd N a (iadd N b c).
Proof. exact iadd_assoc. Qed.
Print Assumptions C05_add_assoc.
Theorem C05_mul_assoc : forall N a b c, 0 <= N -> imul N (imul N a b) c = imul N a (imul N b c).
Proof. exact imul_assoc. Qed.
Print Assumptions C05_mul_assoc.
Theorem C05_mul_add_distr : forall N a b c, 0 <= N -> imul N a (iadd N b c) = iadd N (imul N a b) (imul N a c).
Proof. exact imul_iadd_distr. Qed.
Print Assumptions C05_mul_add_distr.
Theorem C05_sub_inverts_add : forall N a b, 0 <= N -> inr N a -> isub N (iadd N a b) b = a.
Proof. exact isub_iadd. Qed.
Print Assumptions C05_sub_inverts_add.

(* shift and rotate counts are taken modulo the width; below the width they multiply / floor-divide *)
Theorem C05_shift_count_mod_width : forall N a b k, 0 < N ->
  ishl N a (b + k * N) = ishl N a b /\ ishr_u N a (b + k * N) = ishr_u N a b /\ ishr_s N a (b + k * N) = ishr_s N a b /\
  irotl N a (b + k * N) = irotl N a b /\ irotr N a (b + k * N) = irotr N a b.
Proof. exact shift_count_mod. Qed.
Print Assumptions C05_shift_count_mod_width.
Theorem C05_shift_values : forall N a k, 0 < N -> inr N a -> 0 <= k < N ->
  ishl N a k = (a * 2 ^ k) mod 2 ^ N /\ ishr_u N a k = a / 2 ^ k /\ sgn N (ishr_s N a k) = sgn N a / 2 ^ k.
Proof. exact shift_values. Qed.
Print Assumptions C05_shift_values.
Theorem C05_rotl_rotr_inverse : forall N a b, 0 < N -> inr N a -> irotr N (irotl N a b) b = a.
Proof. exact irotr_irotl. Qed.
Print Assumptions C05_rotl_rotr_inverse.
Theorem C05_rotr_rotl_inverse : forall N a b, 0 < N -> inr N a -> irotl N (irotr N a b) b = a.
Proof. exact irotl_irotr. Qed.
Print Assumptions C05_rotr_rotl_inverse.

(* division: unsigned is Euclidean; signed traps exactly on /0 and MIN/-1 and otherwise truncates toward zero *)
Theorem C05_div_rem_u_euclidean : forall N a b, inr N a -> inr N b ->
  (b = 0 -> idiv_u N a b = None /\ irem_u N a b = None) /\
  (b <> 0 -> exists q r, idiv_u N a b = Some q /\ irem_u N a b = Some r /\ a = b * q + r /\ 0 <= r < b).
Proof. exact idiv_u_euclid. Qed.
Print Assumptions C05_div_rem_u_euclidean.
Theorem C05_div_s_traps_exactly : forall N a b, 0 < N -> inr N a -> inr N b ->
  (idiv_s N a b = None <-> b = 0 \/ (a = 2 ^ (N - 1) /\ b = 2 ^ N - 1)).
Proof. exact idiv_s_traps_exactly. Qed.
Print Assumptions C05_div_s_traps_exactly.
Theorem C05_div_s_truncates : forall N a b q, 0 < N -> inr N a -> inr N b -> idiv_s N a b = Some q ->
  inr N q /\ sgn N q = Z.quot (sgn N a) (sgn N b).
Proof. exact idiv_s_value. Qed.
Print Assumptions C05_div_s_truncates.
Theorem C05_rem_s_value : forall N a b, 0 < N -> inr N a -> inr N b ->
  (b = 0 -> irem_s N a b = None) /\
  (b <> 0 -> exists r, irem_s N a b = Some r /\ inr N r /\ sgn N r = Z.rem (sgn N a) (sgn N b)).
Proof. exact irem_s_value. Qed.
Print Assumptions C05_rem_s_value.
Theorem C05_rem_s_min_minus_one : forall N, 0 < N -> irem_s N (2 ^ (N - 1)) (2 ^ N - 1) = Some 0.
Proof. exact irem_s_min_m1. Qed.
Print Assumptions C05_rem_s_min_minus_one.

(* clz / ctz / popcnt *)
Theorem C05_clz : forall N a, 0 < N -> inr N a ->
  (a = 0 -> iclz N a = N) /\ (a <> 0 -> 0 <= iclz N a < N /\ 2 ^ (N - 1 - iclz N a) <= a < 2 ^ (N - iclz N a)).
Proof. exact iclz_spec. Qed.
Print Assumptions C05_clz.
Theorem C05_ctz : forall N a, 0 < N -> inr N a ->
  (a = 0 -> ictz N a = N) /\ (a <> 0 -> 0 <= ictz N a < N /\ a mod 2 ^ ictz N a = 0 /\ Z.odd (a / 2 ^ ictz N a) = true).
Proof. exact ictz_spec. Qed.
Print Assumptions C05_ctz.
Theorem C05_popcnt : forall N a, 0 <= N -> ipopcnt N a = bits_set (Z.to_nat N) a /\ 0 <= ipopcnt N a <= N.
Proof. exact ipopcnt_spec. Qed.
Print Assumptions C05_popcnt.

(* comparisons follow the order of Z on the unsigned / signed reading *)
Theorem C05_comparisons : forall N a b,
  (ieq N a b = 1 <-> a = b) /\ (ine N a b = 1 <-> a <> b) /\
  (ilt_u N a b = 1 <-> a < b) /\ (igt_u N a b = 1 <-> a > b) /\ (ile_u N a b = 1 <-> a <= b) /\ (ige_u N a b = 1 <-> a >= b) /\
  (ilt_s N a b = 1 <-> sgn N a < sgn N b) /\ (igt_s N a b = 1 <-> sgn N a > sgn N b) /\
  (ile_s N a b = 1 <-> sgn N a <= sgn N b) /\ (ige_s N a b = 1 <-> sgn N a >= sgn N b) /\
  (ieqz N a = 1 <-> a = 0).
Proof. exact irelop_spec. Qed.
Print Assumptions C05_comparisons.
Theorem C05_signed_reading : forall N a, 0 < N -> inr N a -> - 2 ^ (N - 1) <= sgn N a < 2 ^ (N - 1) /\ modN N (sgn N a) = a.
Proof. exact sgn_reading. Qed.
Print Assumptions C05_signed_reading.

(* sign extension and width conversions *)
Theorem C05_sign_extension : forall M N a, 0 < M <= N ->
  inr N (iextend_s M N a) /\ sgn N (iextend_s M N a) = sgn M (a mod 2 ^ M) /\ (iextend_s M N a) mod 2 ^ M = a mod 2 ^ M.
Proof. exact iextend_s_spec. Qed.
Print Assumptions C05_sign_extension.
Theorem C05_extend_wrap : forall a, inr 32 a ->
  inr 64 (extend_i32_s a) /\ sgn 64 (extend_i32_s a) = sgn 32 a /\ extend_i32_u a = a /\ (forall x, wrap_i64 x = x mod 2 ^ 32).
Proof. exact extend_wrap_spec. Qed.
Print Assumptions C05_extend_wrap.
