(* C03 — compilation is total and sound on arbitrary input bytes.
   Only statements, `exact <lemma>` and Print Assumptions live here.

   Scope. Machine-checked here: (1) internal/leb128 as modelled in coq/Wasm/Leb.v — totality, ranges,
   round trips, canonical length; (2) the resource skeleton of binary.DecodeModule as modelled in
   coq/Wasm/Decode.v — no hang (every loop consumes input or stops), loop iterations and guarded
   allocation linear in the input length, the amplification that commit 14ba147 removed, the amplification
   found on /repo 7267a3c (export vector, locals, name-section maps, byte buffers) and what the patches of
   notes/fix-c03-*.patch change (the locals stay open).
   Both models are tied to the Go code by the correspondence runs of checks/c03.py.
   NOT proved: type soundness of the function validator against the execution semantics
   (func_validation.go vs both engines; WasmCert-scale). That half of the property — "every accepted
   module runs without an internal failure of the runtime" — is checked by execution only:
   checks/c03.py instantiates and calls every accepted generated/mutated module on both engines in
   child processes. Likewise "valid by construction is accepted" is checked on generated modules. *)
From Verif Require Import Lib.GoInt Wasm.Leb Wasm.Decode Proofs.LebP Proofs.DecodeP.
Open Scope Z_scope.

(* ---- LEB128 ---- *)

(* For every byte list each decoder returns an error or (v, n) with 1 <= n <= 5 (10), n <= length and v in
   the range of its type. (The lengths hold for arbitrary Z lists; ranges need well-formed bytes.) *)
Theorem C03_leb_total : forall bs v n, bytes_ok bs ->
  (DecodeUint32 bs = LOk v n -> 1 <= n <= 5 /\ n <= Z.of_nat (length bs) /\ 0 <= v < 2 ^ 32) /\
  (LoadUint64 bs = LOk v n -> 1 <= n <= 10 /\ n <= Z.of_nat (length bs) /\ 0 <= v < 2 ^ 64) /\
  (DecodeInt32 bs = LOk v n -> 1 <= n <= 5 /\ n <= Z.of_nat (length bs) /\ - 2 ^ 31 <= v < 2 ^ 31) /\
  (DecodeInt64 bs = LOk v n -> 1 <= n <= 10 /\ n <= Z.of_nat (length bs) /\ - 2 ^ 63 <= v < 2 ^ 63) /\
  (DecodeInt33AsInt64 bs = LOk v n -> 1 <= n <= 5 /\ n <= Z.of_nat (length bs) /\ - 2 ^ 32 <= v < 2 ^ 32).
Proof. exact leb_total. Qed.
Print Assumptions C03_leb_total.

(* decode (encode v ++ rest) = (v, length (encode v)) for every v in range and every rest, unsigned and
   signed; the encoder terminates within its fuel, emits bytes, and C03_leb_canonical_bound: at most 5 (10). *)
Theorem C03_leb_roundtrip : forall v rest,
  (0 <= v < 2 ^ 32 -> exists l, EncodeUint32 v = Some l /\ DecodeUint32 (l ++ rest) = LOk v (Z.of_nat (length l))) /\
  (0 <= v < 2 ^ 64 -> exists l, EncodeUint64 v = Some l /\ LoadUint64 (l ++ rest) = LOk v (Z.of_nat (length l))) /\
  (- 2 ^ 31 <= v < 2 ^ 31 -> exists l, EncodeInt32 v = Some l /\ DecodeInt32 (l ++ rest) = LOk v (Z.of_nat (length l))) /\
  (- 2 ^ 63 <= v < 2 ^ 63 -> exists l, EncodeInt64 v = Some l /\ DecodeInt64 (l ++ rest) = LOk v (Z.of_nat (length l))) /\
  (- 2 ^ 32 <= v < 2 ^ 32 -> exists l, EncodeInt64 v = Some l /\ DecodeInt33AsInt64 (l ++ rest) = LOk v (Z.of_nat (length l))).
Proof. exact leb_roundtrip. Qed.
Print Assumptions C03_leb_roundtrip.

Theorem C03_leb_canonical_bound : forall v,
  (0 <= v < 2 ^ 32 -> exists l, EncodeUint32 v = Some l /\ bytes_ok l /\ (1 <= length l <= 5)%nat) /\
  (0 <= v < 2 ^ 64 -> exists l, EncodeUint64 v = Some l /\ bytes_ok l /\ (1 <= length l <= 10)%nat) /\
  (- 2 ^ 31 <= v < 2 ^ 31 -> exists l, EncodeInt32 v = Some l /\ bytes_ok l /\ (1 <= length l <= 5)%nat) /\
  (- 2 ^ 63 <= v < 2 ^ 63 -> exists l, EncodeInt64 v = Some l /\ bytes_ok l /\ (1 <= length l <= 10)%nat).
Proof. exact leb_canonical_bound. Qed.
Print Assumptions C03_leb_canonical_bound.

(* ---- DecodeModule: no hang ---- *)

(* For EVERY guard configuration and EVERY input the model never exhausts the fuel its loops derive from the
   remaining input (i.e. each iteration of the section loop, of every vector loop, of the name-subsection loop
   and of both passes over the local groups consumes at least one byte or ends the loop), and the number of
   such iterations is at most 4 * |input| + 4. Not counted: the inner `for j < num` append loop of decodeCode,
   whose iteration count is exactly the locals charge in [au] (see C03_alloc_amplification_remaining). *)
Theorem C03_decode_progress : forall cf bs,
  out_of_fuel (DecodeModule cf bs) = false /\ st (cost_of (DecodeModule cf bs)) <= 4 * len bs + 4.
Proof. exact decode_progress. Qed.
Print Assumptions C03_decode_progress.

(* ---- DecodeModule: allocation ---- *)
(* Configurations (coq/Wasm/Decode.v): [coded] follows /repo's working tree through one switch per finding;
   [found_at_7267a3c] is /repo when the findings below were made; [repaired L] has every patch of
   notes/fix-c03-{1,3,4,5}.patch and accepts at most L locals per function ([repaired (2^32-1)] is /repo once
   those patches are committed: the locals stay an open finding). *)

(* All inputs, the configuration compared with /repo on every run: the allocation requested at the sites
   guarded by commit 14ba147 (type, import, function, table, memory, global, element, code, data vectors and
   both element-init vectors) is linear. PARTIAL: it says nothing about [au] — export vector, name maps,
   byte buffers, locals. *)
Theorem C03_alloc_linear_partial : forall bs, ag (cost_of (DecodeModule coded bs)) <= 88 * len bs + 88.
Proof. exact alloc_linear_coded. Qed.
Print Assumptions C03_alloc_linear_partial.

(* With the guards in place everywhere (fixes 1, 3, 4; at most L locals per function) the WHOLE modelled
   allocation is linear. For L = 2^32-1 this is /repo with the patches: linear, but with the absurd constant
   that the unbounded locals leave. *)
Theorem C03_alloc_linear : forall L bs, 0 <= L ->
  ag (cost_of (DecodeModule (repaired L) bs)) + au (cost_of (DecodeModule (repaired L) bs)) <= (146 + L) * len bs + (146 + L).
Proof. exact alloc_linear_repaired. Qed.
Print Assumptions C03_alloc_linear.

(* before 14ba147: a 14-byte input requests 2^24 FunctionType elements; with the guards nothing *)
Theorem C03_alloc_amplification_before_fix :
  len in_type_2p24 = 14 /\ 80 * 2 ^ 24 <= ag (cost_of (DecodeModule before_fix in_type_2p24)) /\
  ag (cost_of (DecodeModule found_at_7267a3c in_type_2p24)) = 0 /\ au (cost_of (DecodeModule found_at_7267a3c in_type_2p24)) = 0.
Proof. exact (conj (proj1 amplification_before_fix) (conj (proj2 amplification_before_fix) guard_effective)). Qed.
Print Assumptions C03_alloc_amplification_before_fix.

(* /repo at 7267a3c: 15 bytes request a (2^32-1)-entry export vector and map; a VALID 30-byte module declares
   2^32-1 locals (allocated and filled one by one); 22 bytes request a (2^32-1)-entry name map; 20 bytes
   request a (2^32-1)-byte data buffer. *)
Theorem C03_alloc_amplification_remaining :
  (len in_export_max = 15 /\ 56 * (2 ^ 32 - 1) <= au (cost_of (DecodeModule found_at_7267a3c in_export_max))) /\
  (len in_locals_max = 30 /\ accepted (DecodeModule found_at_7267a3c in_locals_max) = true /\
     2 ^ 32 - 1 <= au (cost_of (DecodeModule found_at_7267a3c in_locals_max))) /\
  (len in_names_max = 22 /\ 24 * (2 ^ 32 - 1) <= au (cost_of (DecodeModule found_at_7267a3c in_names_max))) /\
  (len in_data_max = 20 /\ 2 ^ 32 - 1 <= au (cost_of (DecodeModule found_at_7267a3c in_data_max))).
Proof. exact amplification_remaining. Qed.
Print Assumptions C03_alloc_amplification_remaining.

(* with the patches: export, name map and data buffer request (almost) nothing for those inputs; the valid module
   with 2^32-1 locals is still accepted and still requests them (OPEN finding); a limit of 50000 rejects it *)
Theorem C03_alloc_after_fixes :
  au (cost_of (DecodeModule (repaired 4294967295) in_export_max)) = 0 /\
  au (cost_of (DecodeModule (repaired 4294967295) in_names_max)) <= 24 /\
  au (cost_of (DecodeModule (repaired 4294967295) in_data_max)) = 0 /\
  accepted (DecodeModule (repaired 4294967295) in_locals_max) = true /\
  2 ^ 32 - 1 <= au (cost_of (DecodeModule (repaired 4294967295) in_locals_max)) /\
  accepted (DecodeModule (repaired 50000) in_locals_max) = false /\ au (cost_of (DecodeModule (repaired 50000) in_locals_max)) = 0.
Proof. exact after_fixes. Qed.
Print Assumptions C03_alloc_after_fixes.

(* a custom section with an empty payload: rejected iff last on 7267a3c, accepted everywhere with fix 5 *)
Theorem C03_custom_empty_payload :
  accepted (DecodeModule found_at_7267a3c in_custom_empty_last) = false /\
  accepted (DecodeModule found_at_7267a3c in_custom_empty_mid) = true /\
  accepted (DecodeModule (repaired 4294967295) in_custom_empty_last) = true /\
  accepted (DecodeModule (repaired 4294967295) in_custom_empty_mid) = true.
Proof. exact custom_empty_payload. Qed.
Print Assumptions C03_custom_empty_payload.

(* ================================================================ type soundness of validation for W
   (added later; supersedes the "NOT proved" remark in the header as far as the REFERENCE semantics is concerned:
   func_validation.go itself is still tied by execution only)
   Wasm/Validate.v is an executable type checker for the instruction set of the reference semantics W
   (Wasm/Sem.v) over a typed mirror syntax ([erase] forgets the block types): value-type stack, label stack,
   locals/globals, loads/stores, structured control with parameters, br/br_if/br_table/return, call against the
   callee's signature, call_indirect against the type section; after an unconditional transfer only the end of
   the sequence is accepted (dead code is rejected: sound, stricter than the specification). [store_okb T s]:
   every function body of T checks in its instance's context, tables name existing functions, instance index
   maps are in range, globals hold values of their types, memories are within their bounds and hold bytes.
   Proofs/ValidateP.v proves preservation and progress by induction on the fuel (exec_sound / exec_typed). *)
From Coq Require Import ZArith List.
From Verif Require Import Wasm.Numerics Wasm.Sem Wasm.Validate Proofs.ValidateP.
Import ListNotations.

(* a validated store, host functions that respect their declared types, a history of calls with well-typed
   arguments: NO call of the history ends in TStuck (the reference semantics' "ill-formed situation": operand
   stack underflow, missing local/global/function/memory/table, ...), for every fuel, call depth bound and
   listener set; and the store reached is again a validated store *)
Theorem C03_validated_no_stuck :
  forall (T : tenv) (host : nat -> list Z -> hostres Z) (listened : nat -> bool) (maxdepth : nat)
         (s : store Spec) (calls : list (nat * list Z)) (fuel : nat),
  s_funcs s = map erase_func (t_funcs T) -> store_okb T s = true ->
  (forall fa h tp tr args, nth_error (t_funcs T) fa = Some (TFHost h tp tr) ->
     Forall2 (fun w v => 0 <= v < 2 ^ w) tp args ->
     match host h args with
     | HRet vs => Forall2 (fun w v => 0 <= v < 2 ^ w) tr vs
     | HReenter g gargs =>
         exists gi gtp gtl gb, nth_error (t_funcs T) g = Some (TFWasm gi gtp tr gtl gb) /\
                               Forall2 (fun w v => 0 <= v < 2 ^ w) gtp gargs
     | _ => True
     end) ->
  Forall (fun c => exists fd, nth_error (t_funcs T) (fst c) = Some fd /\
                              Forall2 (fun w v => 0 <= v < 2 ^ w) (fst (tsig fd)) (snd c)) calls ->
  let r := run_calls Spec host listened maxdepth fuel s calls in
  ~ In (RTrap TStuck) (snd r) /\
  s_funcs (fst r) = map erase_func (t_funcs T) /\ store_okb T (fst r) = true.
Proof. exact validated_no_stuck. Qed.
Print Assumptions C03_validated_no_stuck.

(* one export call: results are well-formed values of the declared result types (0 <= v < 2^w) *)
Theorem C03_validated_call_results_typed :
  forall (T : tenv) (host : nat -> list Z -> hostres Z) (listened : nat -> bool) (maxdepth : nat),
  host_ok host T ->
  forall fuel (s : store Spec) fa fd args,
  store_ok T s -> nth_error (t_funcs T) fa = Some fd -> Forall2 wfv (fst (tsig fd)) args ->
  store_ok T (fst (call_export Spec host listened maxdepth fuel s fa args)) /\
  match snd (call_export Spec host listened maxdepth fuel s fa args) with
  | RVals vs => Forall2 wfv (snd (tsig fd)) vs
  | RTrap t => t <> TStuck
  | RFuel => True
  end.
Proof. exact validated_call_typed. Qed.
Print Assumptions C03_validated_call_results_typed.

(* preservation and progress at the level of instruction sequences: from a validated store and a frame typed by
   the checker's input state (stack types [st], local types [lt]), whatever [exec] returns is typed by what the
   checker computed: fall-through with the output stack type (never after an unconditional transfer), a branch
   with the target label's types on top of the stack, a return with the function's result types on top; a trap
   is never TStuck; the store is again validated *)
Theorem C03_validated_exec_typed :
  forall (T : tenv) (host : nat -> list Z -> hostres Z) (listened : nat -> bool) (maxdepth : nat),
  host_ok host T ->
  forall fuel depth ii (s : store Spec) stk lcs lt rt L tis st res,
  store_ok T s -> check_seq T (the_inst Spec s ii) lt rt L tis (STy st) = Some res ->
  Forall2 wfv st stk -> Forall2 wfv lt lcs ->
  match exec Spec host listened maxdepth fuel depth ii s (Build_frame Spec stk lcs) (map erase tis) with
  | Normal s' f' =>
      store_ok T s' /\ match res with
                       | STy st' => Forall2 wfv st' (stack f') /\ Forall2 wfv lt (locals f')
                       | SBot => False end
  | Branch n s' f' =>
      store_ok T s' /\ (exists l, nth_error L n = Some l /\ Forall2 wfv l (firstn (length l) (stack f'))) /\
      Forall2 wfv lt (locals f')
  | Ret s' f' => store_ok T s' /\ Forall2 wfv rt (firstn (length rt) (stack f'))
  | Trap t s' => store_ok T s' /\ t <> TStuck
  | OutOfFuel => True
  end.
Proof. exact (fun T host listened maxdepth => exec_typed host listened maxdepth T). Qed.
Print Assumptions C03_validated_exec_typed.

(* the checker accepts a concrete multi-function program (loop, call, call_indirect, memory, globals, host call,
   br_if with a value, br_table) and rejects ill-typed code (i32.add on i64 operands, a br that owes its label a
   value, call_indirect without an index, a wrong result type, dead code) *)
Theorem C03_validator_accepts_and_rejects :
  valid_storeb ex_T ex_store = true /\
  check_seq ex_T ex_me [] [] [[]] [TConst 64 1; TConst 64 2; TBin (BInt 32 Add)] (STy []) = None /\
  check_seq ex_T ex_me [] [] [[]] [TBlock [] [32] [TBr 0]] (STy []) = None /\
  check_seq ex_T ex_me [] [] [[]] [TConst 32 7; TCallIndirect 0] (STy []) = None /\
  func_okb ex_T (s_insts ex_store) (TFWasm 0 [] [32] [] [TConst 64 1]) = false /\
  check_seq ex_T ex_me [] [] [[]] [TBr 0; TNop] (STy []) = None.
Proof. exact (conj ex_valid (conj (proj1 ex_rejects) (conj (proj1 (proj2 ex_rejects)) (conj (proj1 (proj2 (proj2 ex_rejects)))
         (conj (proj1 (proj2 (proj2 (proj2 ex_rejects)))) (proj1 (proj2 (proj2 (proj2 (proj2 ex_rejects)))))))))). Qed.
Print Assumptions C03_validator_accepts_and_rejects.
