(* C18 — the default module configuration exposes nothing of the host and runs reproducibly.
   Only statements, `exact <lemma>` and Print Assumptions live here.
   [mk_ctx] follows moduleConfig.toSysContext and internal/sys.NewContext; [wasi_step]/[trace] give ALL 46 functions of
   wasi_snapshot_preview1 (type [call]: args, environ, clock, random_get, every fd_ and path_ function, poll_oneoff,
   proc_exit, proc_raise, sched_yield, the four sock_ functions) their trace over a context, including the descriptor table
   ([c_fds]) and the exit state; the theorems quantify over all sequences of these calls;
   [R] is the byte stream of the fixed-seed random source (abstract: the theorems hold for every stream).
   Constants (fake epoch, 1 ms step, clock ids, errno values) are coq/Gen values folded from the working tree. *)
From Verif Require Import Lib.GoInt Gen.GenC18Platform Gen.GenC18Sys Gen.GenC18Wasip1 Sys.DefaultCtx Proofs.DefaultCtxP.
Open Scope Z_scope.

(* the context built for wazero.NewModuleConfig() does not depend on the host process at all: arguments, environment,
   working directory, stdin content, real clocks, entropy, directories, sockets *)
Theorem C18_default_ignores_host : forall h1 h2 : host_env, mk_ctx default_config h1 = mk_ctx default_config h2.
Proof. exact default_ignores_host. Qed.
Print Assumptions C18_default_ignores_host.

(* ... it is this context: no arguments, no environment, EOF stdin, discarded output, position 0 of the fixed stream,
   wall clock at 2022-01-01T00:00:00Z with 1 us resolution, monotonic clock at 0 with 1 ns resolution, no-op sleep and
   yield, no pre-opened directories, no listeners *)
Theorem C18_default_context : forall h, mk_ctx default_config h = Some default_ctx /\ hermetic default_ctx.
Proof. exact (fun h => conj (mk_ctx_default h) default_hermetic). Qed.
Print Assumptions C18_default_context.

(* for every call sequence, the complete trace (errno and result bytes of every call) and the final state are the
   same on any two hosts: the trace is a function of the sequence alone *)
Theorem C18_trace_reproducible : forall R ks h1 h2 c1 c2,
  mk_ctx default_config h1 = Some c1 -> mk_ctx default_config h2 = Some c2 ->
  trace R c1 ks = trace R c2 ks /\ final R c1 ks = final R c2 ks.
Proof. exact trace_reproducible. Qed.
Print Assumptions C18_trace_reproducible.

(* no call sequence makes a default instance touch the host: nothing is emitted to the host's stdout/stderr, no real
   sleep happens, and the context stays hermetic (fake clocks, fixed stream, EOF stdin, no files) *)
Theorem C18_no_host_effects : forall R ks,
  c_emitted (final R default_ctx ks) = [] /\ c_slept (final R default_ctx ks) = 0 /\ hermetic (final R default_ctx ks).
Proof. exact default_no_host_effects. Qed.
Print Assumptions C18_no_host_effects.

(* every instance starts from the same state whatever the host and the moment, and n default instances of one runtime,
   scheduled in ANY interleaving, each produce exactly the trace they produce alone *)
Theorem C18_fresh_per_instance : forall R n sched i h, (i < n)%nat ->
  mk_ctx default_config h = Some default_ctx /\
  proj i (run_multi R (repeat default_ctx n) sched) =
  trace R default_ctx (map snd (filter (fun e => Nat.eqb (fst e) i) sched)).
Proof. exact fresh_per_instance. Qed.
Print Assumptions C18_fresh_per_instance.

(* after any calls (the instance not having exited), of which kw read the realtime clock and km the monotonic clock, the
   next readings are 2022-01-01T00:00:00Z + kw ms and km ms (as 8 little-endian bytes), as long as the int64 counter does
   not overflow.  The wall clock is read by clock_time_get and by fd_/path_filestat_set_times with a "now" flag (the
   former only on an open descriptor): [count] threads the descriptor table through the calls *)
Theorem C18_clock_values : forall R ks p,
  let c := final R default_ctx ks in
  let kw := count reads_wall (Some [0; 1; 2]) ks in let km := count reads_mono (Some [0; 1; 2]) ks in
  tbl_after ks <> None ->
  fake_epoch + kw * ms < 2 ^ 63 -> km * ms < 2 ^ 63 ->
  snd (wasi_step R c (ClockTimeGet ClockIDRealtime p)) = (0, le_bytes 8 (1640995200 * 10 ^ 9 + kw * 10 ^ 6)) /\
  snd (wasi_step R c (ClockTimeGet ClockIDMonotonic p)) = (0, le_bytes 8 (km * 10 ^ 6)).
Proof. exact clock_values. Qed.
Print Assumptions C18_clock_values.

(* the descriptor table evolves as a function of the calls alone: after ANY call sequence the table of a default
   instance (None once it has exited) is [tbl_after ks], a fold over the calls in which only fd_close and proc_exit act;
   it only ever holds 0, 1, 2; and it never gains a descriptor (a closed descriptor stays closed; no file, directory or
   socket of the host is ever opened) *)
Theorem C18_descriptor_table : forall R ks,
  ctx_tbl (final R default_ctx ks) = tbl_after ks /\
  (forall fds, tbl_after ks = Some fds -> forall x, In x fds -> x = 0 \/ x = 1 \/ x = 2) /\
  (forall ks' fds fds', tbl_after ks = Some fds -> tbl_after (ks ++ ks') = Some fds' -> forall x, In x fds' -> In x fds).
Proof. exact table_function_of_calls. Qed.
Print Assumptions C18_descriptor_table.

(* no call of a default instance, after any history, falls outside the model: the answer is never the marker the model
   gives for descriptors it does not describe (pre-opened directories, sockets, host-backed stdio) — there are none *)
Theorem C18_model_total : forall R ks k, ascii_call k = true ->
  fst (snd (wasi_step R (final R default_ctx ks) k)) <> res_unmodelled.
Proof. exact default_total. Qed.
Print Assumptions C18_model_total.

(* poll_oneoff with ANY list of subscriptions over ANY descriptor table: when the call succeeds it reports one event per
   subscription — first those answered at once (clocks, fd_write, fd_read on a descriptor that is not open) in
   subscription order, then the deferred ones (fd_read on an open descriptor) in subscription order — so the event area
   is a function of the subscription list and the table alone (with C18_trace_reproducible and C18_descriptor_table: the
   same on every host, run and engine) *)
Theorem C18_poll_events_in_subscription_order : forall opn subs out sl,
  poll_result opn subs = (0, out, sl) -> subs <> [] ->
  let evs := map (sub_event opn) (filter (fun s => negb (sub_deferred opn s)) subs) ++
             map (sub_event opn) (filter (sub_deferred opn) subs) in
  length evs = length subs /\
  out = le_bytes 4 (Z.of_nat (length subs)) ++ concat evs ++ repeat 0 (32 * length subs - length (concat evs))%nat.
Proof. exact poll_events_in_subscription_order. Qed.
Print Assumptions C18_poll_events_in_subscription_order.

(* ... and when a deferred subscription exists but stdin itself has been closed, the call fails *)
Theorem C18_poll_stdin_closed : forall opn subs,
  opn FdStdin = false -> existsb (sub_deferred opn) subs = true -> fst (fst (poll_result opn subs)) <> 0.
Proof. exact poll_stdin_closed. Qed.
Print Assumptions C18_poll_stdin_closed.
