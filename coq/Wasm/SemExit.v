(* C06, closed modules: the reference semantics W (Wasm/Sem.v) has no notion of a closed module. This file wraps it
   (Sem.v is unchanged): an extended state = W's store + per-instance closed flags with the exit code that closed them.

   What wazero documents / does (api.Module.CloseWithExitCode, IsClosed; sys.ExitError; internal/wasm/module_instance.go):
   a host function that "exits" closes the module that CALLED it (first code wins: setExitCode is a compare-and-swap
   from 0) and panics with the exit error; the panic unwinds every guest and host frame of the chain, re-entrant
   api.Function.Call boundaries included, and the outermost Call returns the exit error with the code of that
   (innermost, last) exiting host call. Nothing else is closed. A closed instance loses its name. Calls to exports of
   a closed instance are outside the contract; the pinned implementation runs them (their functions stay alive because
   other instances may have imported them) and turns a normal return into the exit error of the instance
   (FailIfClosed in the deferred part of Call): the model does the same, and the theorems only use "never values".
   Calls of functions of a closed instance that come from OTHER instances (imports, shared table) are ordinary calls.

   Who called the exiting host function is not visible in W's outcome (Trap (TExit c) s'). It is read off the log:
   the host call is logged (EHost h args) before the host function runs and nothing logs a host call afterwards, so
   the exiting call is the LAST host event of s' (proved: Proofs/SemExitP.v exit_is_last_host_call); [who h] maps the
   host function's code to the calling instance. For linked programs the codes are made caller-specific by giving
   every importing module its own copy of each host function ([retag]: the import of host function k by the module at
   position p resolves to code 8*h + p), which is what an engine does too (the caller's module is an argument of the
   host function's trampoline). [tags_ok] checks on every store that the codes reachable from an instance name it.
   Executable definitions only. *)
From Coq Require Import ZArith List Bool.
From Verif Require Import Wasm.Numerics Wasm.Sem Wasm.Harness Rt.Linking Wasm.ListenerLink.
Import ListNotations.
Open Scope Z_scope.

Definition closedmap := list (nat * Z).          (* instance, the exit code that closed it *)

Fixpoint closed_code (cl : closedmap) (ii : nat) : option Z :=
  match cl with
  | [] => None
  | (j, c) :: r => if Nat.eqb j ii then Some c else closed_code r ii
  end.

(* CloseWithExitCode: the first code wins *)
Definition mark (cl : closedmap) (ii : nat) (c : Z) : closedmap :=
  match closed_code cl ii with Some _ => cl | None => (ii, c) :: cl end.

Section XGen.
Variable D : domain.
Notation V := (val D).
Variable host : nat -> list V -> hostres V.
Variable listened : nat -> bool.
Variable maxdepth : nat.
Variable who : nat -> nat.                       (* host function code -> the instance that calls it *)

Fixpoint last_host (l : list (event V)) : option (nat * list V) :=
  match l with
  | [] => None
  | e :: r =>
      match last_host r with
      | Some x => Some x
      | None => match e with EHost h a => Some (h, a) | _ => None end
      end
  end.

Record xstate := { x_s : store D; x_cl : closedmap }.

Definition exit_code_of (r : result D) : option Z :=
  match r with RTrap (TExit c) => Some c | _ => None end.

(* the instance closed by a call that ended in an exit: the caller of the last host call logged *)
Definition exit_marks (cl : closedmap) (s' : store D) (ex : option Z) : closedmap :=
  match ex with
  | Some c => match last_host (s_log s') with Some (h, _) => mark cl (who h) c | None => cl end
  | None => cl
  end.

Definition inst_of (s : store D) (fa : nat) : option nat :=
  match nth_error (s_funcs s) fa with Some (FWasm ii _ _ _ _) => Some ii | _ => None end.

(* what the embedder sees from a Call on an export of instance [callee] *)
Definition closed_result (cl : closedmap) (callee : option nat) (r : result D) : result D :=
  match r, callee with
  | RVals vs, Some ii => match closed_code cl ii with Some c => RTrap (TExit c) | None => r end
  | _, _ => r
  end.

Definition xcall (fuel : nat) (x : xstate) (fa : nat) (args : list V) : xstate * result D :=
  let '(s', r) := call_export D host listened maxdepth fuel (x_s x) fa args in
  let cl' := exit_marks (x_cl x) s' (exit_code_of r) in
  ({| x_s := s'; x_cl := cl' |}, closed_result cl' (inst_of (x_s x) fa) r).

Fixpoint xrun_calls (fuel : nat) (x : xstate) (calls : list (nat * list V)) : xstate * list (result D) :=
  match calls with
  | [] => (x, [])
  | (fa, args) :: r =>
      let '(x1, y) := xcall fuel x fa args in
      let '(x2, ys) := xrun_calls fuel x1 r in (x2, y :: ys)
  end.

(* not modelled: a host function that calls back (api.Function.Call) an export of an instance that is already closed
   (the nested Call would turn a normal return into that instance's exit error, which W's HReenter cannot express).
   [reenters_closed] recognises such calls on the events they logged; the correspondence run skips and counts them. *)
Definition reenters_closed (cl : closedmap) (s : store D) (evs : list (event V)) : bool :=
  existsb (fun e => match e with
                    | EHost h a => match host h a with
                                   | HReenter g _ => match inst_of s g with
                                                     | Some ii => match closed_code cl ii with Some _ => true | None => false end
                                                     | None => false end
                                   | _ => false end
                    | _ => false end) evs.

End XGen.

Arguments x_s {D} _. Arguments x_cl {D} _.

(* ================================================================ linked histories (Spec domain) *)
Definition NPOS : nat := 8.                      (* positions of a history: 0 the host module, then the instantiations *)

(* every importer gets its own copy of every host function: code 8*h + position of the importer *)
Fixpoint expand_one (h : nat) (tp tr : list Z) (p : nat) : list hostsig :=
  match p with
  | O => []
  | S q => expand_one h tp tr q ++ [((h * NPOS + q)%nat, tp, tr)]
  end.
Definition expand_hosts (hs : list hostsig) : list hostsig :=
  flat_map (fun x : hostsig => let '(h, tp, tr) := x in expand_one h tp tr NPOS) hs.

Definition retag_import (pos : nat) (i : import) : import :=
  match im_mod i, im_desc i with
  | O, IFunc _ => {| im_mod := O; im_name := im_name i * Z.of_nat NPOS + Z.of_nat pos; im_desc := im_desc i |}
  | _, _ => i
  end.
Definition retag (pos : nat) (m : modul) : modul :=
  {| md_types := md_types m; md_imports := map (retag_import pos) (md_imports m); md_funcs := md_funcs m; md_table := md_table m;
     md_mem := md_mem m; md_globals := md_globals m; md_exports := md_exports m; md_elems := md_elems m; md_datas := md_datas m;
     md_start := md_start m |}.

(* the host behaviours of ListenerLink.lk_host, on the caller-specific codes *)
Definition xk_host (hs : list hostsig) (h : nat) (args : list Z) : hostres Z := lk_host hs (Nat.div h NPOS) args.

Definition NOBODY : nat := Z.to_nat 1000000.
Definition who_pos (mm : list (option nat)) (h : nat) : nat :=
  match nth (Nat.modulo h NPOS) mm None with Some ii => ii | None => NOBODY end.

Definition untag_hlog (l : list (Z * list Z)) : list (Z * list Z) :=
  map (fun e => (fst e / Z.of_nat NPOS, snd e)) l.

(* the codes reachable from an instance's function index space name it, and no host function sits in a table *)
Definition tags_ok (s : store Spec) (mm : list (option nat)) : bool :=
  forallb (fun ii =>
    forallb (fun fa => match nth_error (s_funcs s) fa with
                       | Some (FHost h _ _) => Nat.eqb (who_pos mm h) ii
                       | _ => true end) (i_funcs (the_inst Spec s ii))) (seq 0 (length (s_insts s)))
  && forallb (fun t => forallb (fun e => match e with
                                         | Some fa => match nth_error (s_funcs s) fa with Some (FHost _ _ _) => false | _ => true end
                                         | None => true end) t) (s_tabs s).

Record xl := { xl_st : lstore; xl_mm : list (option nat); xl_cl : closedmap }.

(* a closed instance loses its name: it cannot be imported from any more, the name is free *)
Fixpoint unregister_closed (cl : closedmap) (mm : list (option nat)) (xs : list (option (list (Z * extern)))) : list (option (list (Z * extern))) :=
  match mm, xs with
  | Some ii :: mr, x :: xr => (match closed_code cl ii with Some _ => None | None => x end) :: unregister_closed cl mr xr
  | _ :: mr, x :: xr => x :: unregister_closed cl mr xr
  | _, _ => xs
  end.
Definition with_lsx (st : lstore) (xs : list (option (list (Z * extern)))) : lstore :=
  {| ls := ls st; ls_g := ls_g st; ls_t := ls_t st; ls_m := ls_m st; ls_x := xs |}.

Definition inst_exit (c : Z) : option Z :=
  let k := c - START_FAILED in
  if (7 <=? k) && ((k - 7) mod 100 =? 0) then Some ((k - 7) / 100) else None.

Definition closed_pos (x : xl) : list bool :=
  map (fun o => match o with Some ii => match closed_code (xl_cl x) ii with Some _ => true | None => false end | None => false end) (xl_mm x).
Definition registered_pos (x : xl) : list bool :=
  map (fun o => match o with Some _ => true | None => false end) (ls_x (xl_st x)).

(* per step: the result, the closed flag and the registration of every position afterwards, and whether the step is
   inside the model (see reenters_closed) *)
Record xstep := { xr_res : lres; xr_closed : list bool; xr_reg : list bool; xr_modelled : bool }.

Section XRun.
Variable hs : list hostsig.
Notation host := (xk_host hs).
Definition nolisten (fa : nat) : bool := false.

Definition xl_finish (st : lstore) (mm : list (option nat)) (cl : closedmap) : xl :=
  {| xl_st := with_lsx st (unregister_closed cl mm (ls_x st)); xl_mm := mm; xl_cl := cl |}.

Definition mk_step (x : xl) (r : lres) (ok : bool) : xstep :=
  {| xr_res := r; xr_closed := closed_pos x; xr_reg := registered_pos x; xr_modelled := ok |}.

Fixpoint xlrun (x : xl) (acts : list lact) : xl * list xstep :=
  match acts with
  | [] => (x, [])
  | LSkip :: r =>
      let x1 := {| xl_st := with_x (xl_st x) None; xl_mm := xl_mm x ++ [None]; xl_cl := xl_cl x |} in
      let '(x', rs) := xlrun x1 r in (x', mk_step x1 RSkip true :: rs)
  | LInst m starts :: r =>
      let st := xl_st x in
      let pos := length (xl_mm x) in
      let ii := length (s_insts (ls st)) in
      let n0 := length (s_log (ls st)) in
      let '(st1, c) := linst host nolisten st (retag pos m) starts in
      let allocated := Nat.ltb ii (length (s_insts (ls st1))) in
      let mm' := xl_mm x ++ [if allocated then Some ii else None] in
      let cl' := exit_marks Spec (who_pos mm') (xl_cl x) (ls st1) (inst_exit c) in
      let ok := negb (reenters_closed Spec host (xl_cl x) (ls st1) (skipn n0 (s_log (ls st1)))) in
      let x1 := xl_finish st1 mm' cl' in
      let '(x', rs) := xlrun x1 r in (x', mk_step x1 (RInst c) ok :: rs)
  | LCall mn fi args :: r =>
      let st := xl_st x in
      match nth mn (xl_mm x) None with
      | None => let '(x', rs) := xlrun x r in (x', mk_step x RBad true :: rs)
      | Some ii =>
          match nth_error (i_funcs (the_inst Spec (ls st) ii)) fi with
          | None => let '(x', rs) := xlrun x r in (x', mk_step x RBad true :: rs)
          | Some fa =>
              let n0 := length (s_log (ls st)) in
              let '(y, res) := xcall Spec host nolisten MAXDEPTH (who_pos (xl_mm x)) FUEL {| x_s := ls st; x_cl := xl_cl x |} fa args in
              let ok := negb (reenters_closed Spec host (xl_cl x) (x_s y) (skipn n0 (s_log (x_s y)))) in
              let x1 := xl_finish (with_ls st (x_s y)) (xl_mm x) (x_cl y) in
              let '(x', rs) := xlrun x1 r in (x', mk_step x1 (RCall res) ok :: rs)
          end
      end
  end.

Definition xl_init : xl :=
  {| xl_st := add_hosts empty_lstore (expand_hosts hs); xl_mm := [None]; xl_cl := [] |}.

End XRun.

(* ---- comparison with an engine's observations ---- *)
Record xobs := { xo_res : lobs; xo_closed : list (nat * bool); xo_named : list (nat * bool) }.

Record xcase := {
  xc_hosts : list hostsig;
  xc_acts : list lact;
  xc_obs : list xobs;
  xc_hlog : list (Z * list Z);
  xc_globals : list (nat * Z) }.

Fixpoint flags_agree (model : list bool) (o : list (nat * bool)) : bool :=
  match o with
  | [] => true
  | (p, b) :: r => Bool.eqb (nth p model false) b && flags_agree model r
  end.

Definition xstep_fuel (s : xstep) : bool :=
  match xr_res s with RCall RFuel => true | RInst c => c =? E_FUEL | _ => false end.

(* -1 agree; -3 out of fuel, -4 a step outside the model (re-entry into a closed instance): the case is skipped from there;
   3*i result of step i, 3*i+1 closed flags after step i, 3*i+2 name registrations after step i *)
Fixpoint first_xdiff (i : Z) (rs : list xstep) (os : list xobs) : Z :=
  match rs, os with
  | [], [] => -1
  | r :: rr, o :: oo =>
      if xstep_fuel r then -3 else
      if negb (xr_modelled r) then -4 else
      if negb (lres_match (xr_res r) (xo_res o)) then 3 * i else
      if negb (flags_agree (xr_closed r) (xo_closed o)) then 3 * i + 1 else
      if negb (flags_agree (xr_reg r) (xo_named o)) then 3 * i + 2 else
      first_xdiff (i + 1) rr oo
  | _, _ => 3 * i
  end.

(* 100000 host log, 100001 globals, 100002 the caller tags of the final store are inconsistent *)
Definition check_xcase (c : xcase) : Z :=
  let '(x, rs) := xlrun (xc_hosts c) (xl_init (xc_hosts c)) (xc_acts c) in
  let d := first_xdiff 0 rs (xc_obs c) in
  if negb (d =? -1) then d else
  let s := ls (xl_st x) in
  if negb (tags_ok s (xl_mm x)) then 100002 else
  if negb (hlog_eqb (untag_hlog (host_events (s_log s))) (xc_hlog c)) then 100000 else
  if negb (globals_agree s (xc_globals c)) then 100001 else -1.

Fixpoint xmismatches (i : Z) (cs : list xcase) : list (Z * Z) :=
  match cs with
  | [] => []
  | c :: r => let d := check_xcase c in
              if d =? -1 then xmismatches (i + 1) r else (i, d) :: xmismatches (i + 1) r
  end.
