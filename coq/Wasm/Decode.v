(* C03: model of binary.DecodeModule (/repo/internal/wasm/binary/*.go) — the decoder's control
   structure, its accept/reject decision and its resource use.

   * Input: the module bytes (Z in [0,256)). A decoder is a function from the remaining input to
     Ok value rest cost | Err cost | OutOfFuel.  OutOfFuel only exists because Coq loops need a
     bound; DecodeP proves it is unreachable (C03_decode_progress).
   * cost = (ag, au, st):
       ag  bytes requested by the `make` calls that commit 14ba147 guards with
           `uint64(vs) > uint64(r.Len())` (the vectors of the type, import, function, table, memory,
           global, element, code, data sections and the two element-init vectors);
       au  bytes requested by the count/size-driven `make` calls that commit 14ba147 left unguarded
           (findings 1-4 of C03; fixes 1, 3, 4 bound all of them but the locals):
           the export vector and its map, name-section maps, every `make([]byte, size)` that precedes an
           io.ReadFull (names, value types, data init, code body, custom data) and the locals vector
           `make([]ValueType, 0, sum)` (which the decoder then fills with `sum` appends: the inner
           `for j < num` loop of decodeCode runs exactly the number of iterations charged here);
       st  loop iterations: every vector loop, the section loop, the name-subsection loop and both
           passes of the locals loop (everything except the inner append loop just mentioned);
       hot bit set of the unguarded sites where a single request reached 1 MiB (used by the check to
           name the site of an observed amplification; no theorem is about it).
     Charges use the element sizes of the amd64 build (unsafe.Sizeof, compared with the binary by the
     harness): FunctionType 80, Import 88, Index 4, Table 24, Global 40, Export 32 (+ at least 24 per
     entry for the map), ElementSegment 72, Code 72, DataSegment 64, NameAssoc 24, NameMapAssoc 32.
   * cfg selects which guards exist: [coded] follows /repo's working tree (one boolean switch per finding,
     see below), [found_at_7267a3c] is the tree on which the findings were made, [before_fix] the tree
     before commit 14ba147, [repaired L] a decoder with every patch of notes/fix-c03-*.patch that also
     limits the locals of one function to L.
   * Fixed configuration: api.CoreFeaturesV2 (every RequireEnabled passes, threads off),
     memoryLimitPages = 65536, memoryCapacityFromMax = false, dwarfEnabled = true,
     storeCustomSections = false (what wazero.NewRuntimeConfig() gives CompileModule).
   * Under that configuration the accept/reject decision of DecodeModule is modelled completely:
     every check the Go code makes is present, including utf8.Valid. Sections may repeat and come in
     any order — the Go code does not check ordering (its TODO says so); only a second start
     section, a second "name" section and function/code count mismatch are rejected.
   memorySizer and Memory.Validate come from coq/Gen (go2coq, regenerated on every run).
   No proofs in this file. *)
From Verif Require Import Lib.GoInt Wasm.Leb Gen.GenWasm Gen.GenBinary.
Open Scope Z_scope.

Record cost := mkC { ag : Z; au : Z; st : Z; hot : Z }.
Definition c0 : cost := mkC 0 0 0 0.
Definition tick : cost := mkC 0 0 1 0.
Definition cadd (a b : cost) : cost := mkC (ag a + ag b) (au a + au b) (st a + st b) (Z.lor (hot a) (hot b)).

Inductive res (A : Type) : Type :=
| Ok (a : A) (rem : list Z) (c : cost)
| Err (c : cost)
| OutOfFuel.
Arguments Ok {A}. Arguments Err {A}. Arguments OutOfFuel {A}.

Definition dec (A : Type) : Type := list Z -> res A.
Definition len (bs : list Z) : Z := Z.of_nat (length bs).

Record cfg := mkCfg {
  g_vec : bool;        (* the twelve `vs > r.Len()` guards of commit 14ba147 *)
  g_export : bool;     (* the same guard in decodeExportSection              (notes/fix-c03-1.patch) *)
  g_names : bool;      (* name-section maps preallocate min(count, r.Len())   (notes/fix-c03-3.patch) *)
  g_bytes : bool;      (* size <= r.Len() before every make([]byte, size)     (notes/fix-c03-4.patch) *)
  fix_custom : bool;   (* decodeCustomSection uses io.ReadFull, not one Read  (notes/fix-c03-5.patch) *)
  locals_max : Z }.    (* largest accepted number of locals of one function *)

(* ONE SWITCH PER FINDING: set to true once the corresponding patch is committed in /repo. [coded] is the
   configuration the correspondence run compares with /repo's working tree. *)
Definition fix1_export_guard : bool := true.
Definition fix3_names_cap : bool := true.
Definition fix4_bytes_guard : bool := true.
Definition fix5_custom_readfull : bool := true.
Definition coded : cfg :=
  mkCfg true fix1_export_guard fix3_names_cap fix4_bytes_guard fix5_custom_readfull 4294967295.  (* `sum > math.MaxUint32` *)

Definition found_at_7267a3c : cfg := mkCfg true false false false false 4294967295.   (* /repo when the findings were made *)
Definition before_fix : cfg := mkCfg false false false false false 4294967295.         (* before commit 14ba147 *)
Definition repaired (L : Z) : cfg := mkCfg true true true true true L.                 (* all patches, at most L locals *)
(* every count/size-driven allocation outside the 14ba147 sites is bounded by the remaining input *)
Definition au_guarded (cf : cfg) : bool := g_export cf && g_names cf && g_bytes cf.

(* ---- combinators ---- *)
Definition ret {A} (a : A) : dec A := fun bs => Ok a bs c0.
Definition fail {A} : dec A := fun _ => Err c0.
Definition bind {A B} (d : dec A) (f : A -> dec B) : dec B := fun bs =>
  match d bs with
  | Ok a r c => match f a r with
                | Ok b r' c' => Ok b r' (cadd c c')
                | Err c' => Err (cadd c c')
                | OutOfFuel => OutOfFuel
                end
  | Err c => Err c
  | OutOfFuel => OutOfFuel
  end.

Definition rbyte : dec Z := fun bs => match bs with [] => Err c0 | b :: r => Ok b r c0 end.   (* r.ReadByte() *)

Definition of_lres (l : lres) (bs : list Z) : res (Z * Z) :=
  match l with LOk v n => Ok (v, n) (skipn (Z.to_nat n) bs) c0 | _ => Err c0 end.
Definition u32n : dec (Z * Z) := fun bs => of_lres (DecodeUint32 bs) bs.       (* value, bytesRead *)
Definition u32 : dec Z := bind u32n (fun p => ret (fst p)).
Definition s32 : dec Z := bind (fun bs => of_lres (DecodeInt32 bs) bs) (fun p => ret (fst p)).
Definition s64 : dec Z := bind (fun bs => of_lres (DecodeInt64 bs) bs) (fun p => ret (fst p)).
(* decodeDataCountSection: `if err != nil && err != io.EOF` — an EOF inside the number is accepted as 0 *)
Definition u32_eof_ok : dec Z := fun bs =>
  match DecodeUint32 bs with
  | LOk v n => Ok v (skipn (Z.to_nat n) bs) c0
  | LEof => Ok 0 [] c0
  | LOvf => Err c0
  end.

(* io.ReadFull(r, buf) with len(buf) = n *)
Definition take (n : Z) : dec (list Z) := fun bs =>
  if n <=? len bs then Ok (firstn (Z.to_nat n) bs) (skipn (Z.to_nat n) bs) c0 else Err c0.
Definition chg_g (z : Z) : dec unit := fun bs => Ok tt bs (mkC z 0 0 0).
(* [site] names the unguarded allocation site (1 export vector, 2 name-section map, 4 byte buffer,
   8 locals); it is recorded in [hot] when a single request reaches 256 KiB — for locals when 512 bytes
   per local do (the interpreter's compiler spends about 400 bytes per declared local downstream) *)
Definition chg_u (site z : Z) : dec unit := fun bs =>
  Ok tt bs (mkC 0 z 0 (if 262144 <=? (if site =? 8 then 512 * z else z) then site else 0)).
(* `if uint64(vs) > uint64(r.Len()) { return error }` when the guard exists *)
Definition guard (on : bool) (count : Z) : dec unit := fun bs =>
  if on && (len bs <? count) then Err c0 else Ok tt bs c0.
(* run d, then r.Seek back to where it started *)
Definition peek {A} (d : dec A) : dec A := fun bs =>
  match d bs with Ok a _ c => Ok a bs c | Err c => Err c | OutOfFuel => OutOfFuel end.

(* for i := 0; i < count; i++ { a = body(a) } *)
Fixpoint vec_go {A} (fuel : nat) (k : Z) (body : A -> dec A) (a : A) (bs : list Z) : res A :=
  if k <=? 0 then Ok a bs c0 else
  match fuel with
  | O => OutOfFuel
  | S f =>
    match body a bs with
    | Ok a' r c =>
      match vec_go f (k - 1) body a' r with
      | Ok a'' r' c' => Ok a'' r' (cadd (cadd tick c) c')
      | Err c' => Err (cadd (cadd tick c) c')
      | OutOfFuel => OutOfFuel
      end
    | Err c => Err (cadd tick c)
    | OutOfFuel => OutOfFuel
    end
  end.
Definition vec {A} (count : Z) (body : A -> dec A) (a : A) : dec A :=
  fun bs => vec_go (S (length bs)) count body a bs.

(* for { (a, continue) = body(a); if !continue { break } } — an iteration is counted in st when it goes
   on to another iteration or fails; the pass that ends the loop is not *)
Fixpoint iter_go {A} (fuel : nat) (body : A -> dec (A * bool)) (a : A) (bs : list Z) : res A :=
  match fuel with
  | O => OutOfFuel
  | S f =>
    match body a bs with
    | Ok (a', true) r c =>
      match iter_go f body a' r with
      | Ok a'' r' c' => Ok a'' r' (cadd (cadd tick c) c')
      | Err c' => Err (cadd (cadd tick c) c')
      | OutOfFuel => OutOfFuel
      end
    | Ok (a', false) r c => Ok a' r c
    | Err c => Err (cadd tick c)
    | OutOfFuel => OutOfFuel
    end
  end.
Definition iter {A} (body : A -> dec (A * bool)) (a : A) : dec A :=
  fun bs => iter_go (S (length bs)) body a bs.

(* `readBytes := sectionContentStart - r.Len(); if int(sectionSize) != readBytes { error }` *)
Definition sized {A} (size : Z) (d : dec A) : dec A := fun bs =>
  match d bs with
  | Ok a r c => if len bs - len r =? size then Ok a r c else Err c
  | e => e
  end.

(* ---- unicode/utf8.Valid (Go standard library) ---- *)
Definition cont (b : Z) : bool := (128 <=? b) && (b <=? 191).
Definition second3 (b0 b1 : Z) : bool :=
  if b0 =? 224 then (160 <=? b1) && (b1 <=? 191)
  else if b0 =? 237 then (128 <=? b1) && (b1 <=? 159)
  else cont b1.
Definition second4 (b0 b1 : Z) : bool :=
  if b0 =? 240 then (144 <=? b1) && (b1 <=? 191)
  else if b0 =? 244 then (128 <=? b1) && (b1 <=? 143)
  else cont b1.
Fixpoint utf8_valid (bs : list Z) : bool :=
  match bs with
  | [] => true
  | b0 :: r0 =>
    if b0 <? 128 then utf8_valid r0 else
    match r0 with
    | [] => false
    | b1 :: r1 =>
      if (194 <=? b0) && (b0 <=? 223) then cont b1 && utf8_valid r1 else
      match r1 with
      | [] => false
      | b2 :: r2 =>
        if (224 <=? b0) && (b0 <=? 239) then second3 b0 b1 && cont b2 && utf8_valid r2 else
        match r2 with
        | [] => false
        | b3 :: r3 =>
          if (240 <=? b0) && (b0 <=? 244) then second4 b0 b1 && cont b2 && cont b3 && utf8_valid r3
          else false
        end
      end
    end
  end.

Definition is_valtype (b : Z) : bool :=
  (b =? 0x7f) || (b =? 0x7e) || (b =? 0x7d) || (b =? 0x7c) || (b =? 0x70) || (b =? 0x6f) || (b =? 0x7b).

Record mstate := mkM { seen_name : bool; seen_start : bool; nfunc : Z; ncode : Z }.

Section Model.
Variable cf : cfg.

Notation "x <- d ;; e" := (bind d (fun x => e)) (at level 61, d at next level, right associativity).
Notation "d ;;; e" := (bind d (fun _ => e)) (at level 61, right associativity).

(* guarded vector (14ba147): guard; result := make([]T, vs); loop *)
Definition gvec {A} (E vs : Z) (body : A -> dec A) (a : A) : dec A :=
  guard (g_vec cf) vs ;;; chg_g (E * vs) ;;; vec vs body a.
(* the export vector: no guard on 7267a3c, the 14ba147 guard with fix 1 *)
Definition uvec {A} (site E vs : Z) (body : A -> dec A) (a : A) : dec A :=
  guard (g_export cf) vs ;;; chg_u site (E * vs) ;;; vec vs body a.
(* name-section maps: make(T, count) on 7267a3c; with fix 3 make(T, 0, min(count, r.Len())) and append *)
Definition cvec {A} (site E vs : Z) (body : A -> dec A) (a : A) : dec A := fun bs =>
  (chg_u site (E * (if g_names cf then Z.min vs (len bs) else vs)) ;;; vec vs body a) bs.
(* buf := make([]byte, n); io.ReadFull(r, buf) *)
Definition bytes_u (n : Z) : dec (list Z) :=
  guard (g_bytes cf) n ;;; chg_u 4 n ;;; take n.

(* value.go *)
Definition valtypes (num : Z) : dec (list Z) :=
  if num =? 0 then ret [] else
  l <- bytes_u num ;; if forallb is_valtype l then ret l else fail.

(* decodeUTF8: returns the name and size+sizeOfSize (uint32 arithmetic) *)
Definition utf8 : dec (list Z * Z) :=
  p <- u32n ;;
  if fst p =? 0 then ret ([], snd p) else
  buf <- bytes_u (fst p) ;;
  if utf8_valid buf then ret (buf, wrap 32 (fst p + snd p)) else fail.

(* function.go *)
Definition functype : dec unit :=
  b <- rbyte ;;
  if negb (b =? 0x60) then fail else
  pc <- u32 ;; valtypes pc ;;; rc <- u32 ;; valtypes rc ;;; ret tt.

Definition type_section : dec unit := vs <- u32 ;; gvec 80 vs (fun _ => functype) tt.

(* limits.go: (min, max?, shared) *)
Definition limits : dec (Z * option Z * bool) :=
  flag <- rbyte ;;
  if (flag =? 0) || (flag =? 2) then mn <- u32 ;; ret (mn, None, flag =? 2)
  else if (flag =? 1) || (flag =? 3) then mn <- u32 ;; mx <- u32 ;; ret (mn, Some mx, flag =? 3)
  else fail.

(* table.go (reference types enabled: any element type byte passes here) *)
Definition table : dec unit :=
  rbyte ;;; l <- limits ;;
  if 134217728 <? fst (fst l) then fail
  else if (match snd (fst l) with Some m => m <? fst (fst l) | None => false end) then fail
  else if snd l then fail else ret tt.

(* memory.go: threads are off, so a shared memory is refused; sizer + Validate from coq/Gen *)
Definition memory : dec unit :=
  l <- limits ;;
  if snd l then fail else
  let mx := snd (fst l) in
  let '(mn', cp, mx') := newMemorySizer 65536 false (fst (fst l))
                           (match mx with None => true | Some _ => false end)
                           (match mx with Some m => m | None => 0 end) in
  if is_nil (Memory_Validate cp mx' mn' 65536) then ret tt else fail.

(* global.go *)
Definition globaltype : dec unit :=
  vt <- rbyte ;; if negb (is_valtype vt) then fail else
  m <- rbyte ;; if (m =? 0) || (m =? 1) then ret tt else fail.

(* const_expr.go: returns (opcode, immediate) — the immediate only matters for ref.func / ref.null.
   ret.Data = make([]byte, bytes consumed) is not charged: it is bounded by what was read. *)
Definition constexpr : dec (Z * Z) :=
  op <- rbyte ;;
  r <- (if op =? 0x41 then v <- s32 ;; ret (op, v)
        else if op =? 0x42 then v <- s64 ;; ret (op, v)
        else if op =? 0x43 then take 4 ;;; ret (op, 0)
        else if op =? 0x44 then take 8 ;;; ret (op, 0)
        else if op =? 0x23 then v <- u32 ;; ret (op, v)
        else if op =? 0xd0 then t <- rbyte ;; if (t =? 0x70) || (t =? 0x6f) then ret (op, t) else fail
        else if op =? 0xd2 then v <- u32 ;; ret (op, v)
        else if op =? 0xfd then o2 <- rbyte ;; if negb (o2 =? 0x0c) then fail else take 16 ;;; ret (o2, 0)
        else fail) ;;
  e <- rbyte ;; if e =? 0x0b then ret r else fail.

Definition global : dec unit := globaltype ;;; constexpr ;;; ret tt.

(* import.go *)
Definition import : dec unit :=
  utf8 ;;; utf8 ;;; k <- rbyte ;;
  if k =? 0 then u32 ;;; ret tt
  else if k =? 1 then table
  else if k =? 2 then memory
  else if k =? 3 then globaltype
  else fail.

Definition import_section : dec unit := vs <- u32 ;; gvec 88 vs (fun _ => import) tt.
Definition function_section : dec Z := vs <- u32 ;; gvec 4 vs (fun _ => u32 ;;; ret tt) tt ;;; ret vs.
Definition table_section : dec unit := vs <- u32 ;; gvec 24 vs (fun _ => table) tt.
Definition memory_section : dec unit :=
  vs <- u32 ;; guard (g_vec cf) vs ;;;
  if 1 <? vs then fail else if vs =? 0 then ret tt else memory.
Definition global_section : dec unit := vs <- u32 ;; gvec 40 vs (fun _ => global) tt.

(* export.go + decodeExportSection: NO guard in HEAD; slice of 32-byte entries and a map with hint vs *)
Definition export : dec (list Z) :=
  p <- utf8 ;; k <- rbyte ;;
  if (0 <=? k) && (k <=? 3) then u32 ;;; ret (fst p) else fail.
Definition export_section : dec unit :=
  vs <- u32 ;;
  uvec 1 56 vs (fun seen => nm <- export ;; if existsb (zlist_eqb nm) seen then fail else ret (nm :: seen)) [] ;;;
  ret tt.

(* element.go *)
Definition init_vec : dec unit :=
  vs <- u32 ;; gvec 4 vs (fun _ => v <- u32 ;; if 134217728 <=? v then fail else ret tt) tt.
Definition cexpr_vec (et : Z) : dec unit :=
  vs <- u32 ;;
  gvec 4 vs (fun _ =>
    p <- constexpr ;;
    if fst p =? 0xd2 then (if negb (et =? 0x70) then fail else if 134217728 <=? snd p then fail else ret tt)
    else if fst p =? 0xd0 then (if negb (et =? snd p) then fail else ret tt)
    else if fst p =? 0x23 then ret tt
    else fail) tt.
Definition kind0 : dec unit := k <- rbyte ;; if k =? 0 then ret tt else fail.
Definition reftype : dec Z := t <- rbyte ;; if (t =? 0x70) || (t =? 0x6f) then ret t else fail.
Definition elem_segment : dec unit :=
  prefix <- u32 ;;
  if prefix =? 0 then constexpr ;;; init_vec
  else if prefix =? 1 then kind0 ;;; init_vec
  else if prefix =? 2 then u32 ;;; constexpr ;;; kind0 ;;; init_vec
  else if prefix =? 3 then kind0 ;;; init_vec
  else if prefix =? 4 then constexpr ;;; cexpr_vec 0x70
  else if prefix =? 5 then t <- reftype ;; cexpr_vec t
  else if prefix =? 6 then u32 ;;; constexpr ;;; t <- reftype ;; cexpr_vec t
  else if prefix =? 7 then t <- reftype ;; cexpr_vec t
  else fail.
Definition element_section : dec unit := vs <- u32 ;; gvec 72 vs (fun _ => elem_segment) tt.

(* code.go. Pass 1 sums the group counts and checks the types, the reader is rewound, the locals
   slice is made with capacity `sum`, pass 2 re-reads the groups (accounting `remaining`) and
   appends `num` types per group. *)
Definition local_group1 (sum : Z) : dec Z :=
  p <- u32n ;; t <- rbyte ;; if is_valtype t then ret (sum + fst p) else fail.
Definition local_group2 (remaining : Z) : dec Z :=
  p <- u32n ;;
  let rem' := remaining - (snd p + 1) in
  if rem' <? 0 then fail else rbyte ;;; ret rem'.
Definition code_rest (ls remaining : Z) : dec unit :=
  remaining' <- vec ls local_group2 remaining ;;
  body <- bytes_u remaining' ;;
  if (0 <? len body) && (last body 0 =? 0x0b) then ret tt else fail.
Definition code_tail (ls remaining : Z) (sum : Z) : dec unit :=
  if locals_max cf <? sum then fail else
  chg_u 8 sum ;;; code_rest ls remaining.
Definition code_entry : dec unit :=
  ss <- u32 ;; p <- u32n ;;
  let remaining := ss - snd p in
  if remaining <? 0 then fail else
  sum <- peek (vec (fst p) local_group1 0) ;;
  code_tail (fst p) remaining sum.
Definition code_section : dec Z := vs <- u32 ;; gvec 72 vs (fun _ => code_entry) tt ;;; ret vs.

(* data.go *)
Definition data_segment : dec unit :=
  prefix <- u32 ;;
  (if (prefix =? 0) || (prefix =? 2) then
     (if prefix =? 2 then d <- u32 ;; if negb (d =? 0) then fail else ret tt else ret tt) ;;;
     constexpr ;;; ret tt
   else if prefix =? 1 then ret tt
   else fail) ;;;
  vs <- u32 ;; bytes_u vs ;;; ret tt.
Definition data_section : dec unit := vs <- u32 ;; gvec 64 vs (fun _ => data_segment) tt.

(* names.go *)
Definition name_assoc : dec unit := u32 ;;; utf8 ;;; ret tt.
Definition function_names : dec unit := c <- u32 ;; cvec 2 24 c (fun _ => name_assoc) tt.
Definition local_names : dec unit :=
  c <- u32 ;;
  cvec 2 32 c (fun _ => u32 ;;; lc <- u32 ;; cvec 2 24 lc (fun _ => name_assoc) tt) tt.
(* for limit > 0 { id := ReadByte (EOF: return what we have); limit--; size := u32; limit -= bytesRead;
                   switch id {...}; limit -= size }   — uint64 arithmetic, sizes of subsections are not checked *)
Definition name_sub_body (limit : Z) : dec (Z * bool) :=
  id <- rbyte ;; p <- u32n ;;
  let limit1 := wrap 64 (wrap 64 (limit - 1) - snd p) in
  (if id =? 0 then utf8 ;;; ret tt
   else if id =? 1 then function_names
   else if id =? 2 then local_names
   else take (fst p) ;;; ret tt) ;;;
  ret (wrap 64 (limit1 - fst p), true).
Definition name_subsection (limit : Z) : dec (Z * bool) :=
  if limit <=? 0 then ret (limit, false) else
  fun bs =>
    match bs with
    | [] => Ok (limit, false) bs c0
    | _ :: _ => name_sub_body limit bs
    end.
Definition name_section (limit : Z) : dec unit := iter name_subsection limit ;;; ret tt.

(* decoder.go, case wasm.SectionIDCustom (dwarfEnabled: every non-"name" custom section is stored;
   on 7267a3c decodeCustomSection does ONE r.Read, which fails with io.EOF when the reader is at its end —
   even for an empty payload — and otherwise silently reads short; with fix 5 it is an io.ReadFull) *)
Definition read_once (limit : Z) : dec unit := fun bs =>
  match bs with
  | [] => Err c0
  | _ :: _ => Ok tt (skipn (Z.to_nat (Z.min limit (len bs))) bs) c0
  end.
Definition custom_data (limit : Z) : dec unit :=
  guard (g_bytes cf) limit ;;; chg_u 4 limit ;;;
  if fix_custom cf then take limit ;;; ret tt else read_once limit.
Definition custom_section (size : Z) (s : mstate) : dec mstate :=
  p <- utf8 ;;
  if size <? snd p then fail else
  let isname := zlist_eqb (fst p) [110; 97; 109; 101] in
  if isname && seen_name s then fail else
  let limit := wrap 32 (size - snd p) in
  if isname then name_section limit ;;; ret (mkM true (seen_start s) (nfunc s) (ncode s))
  else custom_data limit ;;; ret s.

Definition section_body (id size : Z) (s : mstate) : dec mstate :=
  if id =? 0 then custom_section size s
  else if id =? 1 then type_section ;;; ret s
  else if id =? 2 then import_section ;;; ret s
  else if id =? 3 then n <- function_section ;; ret (mkM (seen_name s) (seen_start s) n (ncode s))
  else if id =? 4 then table_section ;;; ret s
  else if id =? 5 then memory_section ;;; ret s
  else if id =? 6 then global_section ;;; ret s
  else if id =? 7 then export_section ;;; ret s
  else if id =? 8 then (if seen_start s then fail else u32 ;;; ret (mkM (seen_name s) true (nfunc s) (ncode s)))
  else if id =? 9 then element_section ;;; ret s
  else if id =? 10 then n <- code_section ;; ret (mkM (seen_name s) (seen_start s) (nfunc s) n)
  else if id =? 11 then data_section ;;; ret s
  else if id =? 12 then u32_eof_ok ;;; ret s
  else fail.

(* for { id := ReadByte (EOF: break); size := u32; decode; check size } *)
Definition section_step (s : mstate) : dec (mstate * bool) :=
  id <- rbyte ;; size <- u32 ;; s' <- sized size (section_body id size s) ;; ret (s', true).
Definition one_section (s : mstate) : dec (mstate * bool) :=
  fun bs =>
    match bs with
    | [] => Ok (s, false) bs c0
    | _ :: _ => section_step s bs
    end.

Definition header : dec unit :=
  m <- take 4 ;; if negb (zlist_eqb m [0; 0x61; 0x73; 0x6d]) then fail else
  v <- take 4 ;; if negb (zlist_eqb v [1; 0; 0; 0]) then fail else ret tt.

Definition DecodeModule : dec unit :=
  header ;;;
  s <- iter one_section (mkM false false 0 0) ;;
  if nfunc s =? ncode s then ret tt else fail.

End Model.

(* ---- observables and correspondence cases ---- *)
Definition accepted {A} (r : res A) : bool := match r with Ok _ _ _ => true | _ => false end.
Definition cost_of {A} (r : res A) : cost := match r with Ok _ _ c => c | Err c => c | OutOfFuel => c0 end.
Definition out_of_fuel {A} (r : res A) : bool := match r with OutOfFuel => true | _ => false end.

(* a case: module bytes, did binary.DecodeModule return a module, TotalAlloc delta of that call.
   codes: 1 accept/reject differs, 2 model ran out of fuel, 3 the implementation allocated less than
   the model charges (the charges are lower bounds of what the `make` calls request) *)
Definition dcase := (list Z * bool * Z)%type.
Definition check_dcase (c : dcase) : Z :=
  let '(bs, acc, alloc) := c in
  let r := DecodeModule coded bs in
  if out_of_fuel r then 2
  else if negb (Bool.eqb (accepted r) acc) then 1
  else if alloc <? ag (cost_of r) + au (cost_of r) then 3
  else 0.
Fixpoint dmismatches (i : Z) (cs : list dcase) : list (Z * Z) :=
  match cs with
  | [] => []
  | c :: r => let d := check_dcase c in
              if d =? 0 then dmismatches (i + 1) r else (i, d) :: dmismatches (i + 1) r
  end.
(* the element sizes the charges assume, in the order FunctionType Import Index Table Global Export
   ElementSegment Code DataSegment NameAssoc NameMapAssoc *)
Definition elem_sizes : list Z := [80; 88; 4; 24; 40; 32; 72; 72; 64; 24; 32].
