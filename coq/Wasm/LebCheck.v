(* C03: support for the exhaustive LEB128 correspondence run. The harness evaluates the real
   internal/leb128 decoders on every byte string of length <= 2 and reports, per function and
   first byte, a rolling checksum over the 257 results ([b0], [b0;0] .. [b0;255]); the same
   checksums are computed here from the model (coq/Wasm/Leb.v) by vm_compute and compared.
   The checksum is (h * 1000003 + code) mod (2^31-1) with code = 1 (EOF), 2 (overflow) or
   3*bytesRead + 97 * ((value mod 2^64) mod (2^31-1)). Definitions only. *)
From Verif Require Import Lib.GoInt Wasm.Leb.
Open Scope Z_scope.

Definition hashP : Z := 2147483647.
Definition lcode (r : lres) : Z :=
  match r with
  | LOk v n => 3 * n + 97 * ((v mod 18446744073709551616) mod hashP)
  | LEof => 1
  | LOvf => 2
  end.
Definition hstep (h c : Z) : Z := (h * 1000003 + c) mod hashP.

Fixpoint zrange_from (k : nat) (start : Z) : list Z :=
  match k with O => [] | S k' => start :: zrange_from k' (start + 1) end.
Definition bytes256 : list Z := zrange_from 256 0.

Definition leb_row (f b0 : Z) : Z :=
  fold_left (fun h b1 => hstep h (lcode (run_dec f [b0; b1]))) bytes256 (hstep 0 (lcode (run_dec f [b0]))).
Definition leb_rows (f : Z) : list Z := map (leb_row f) bytes256.
Definition leb_empty (f : Z) : Z := lcode (run_dec f []).

(* indices of the rows whose checksum differs from the observed one; -1 stands for the empty string *)
Fixpoint rows_diff (i : Z) (model obs : list Z) : list Z :=
  match model, obs with
  | m :: mr, o :: or => if m =? o then rows_diff (i + 1) mr or else i :: rows_diff (i + 1) mr or
  | [], [] => []
  | _, _ => [i]
  end.
Definition leb_rows_mismatch (f : Z) (obs : list Z) (obs_empty : Z) : list Z :=
  (if leb_empty f =? obs_empty then [] else [-1]) ++ rows_diff 0 (leb_rows f) obs.
