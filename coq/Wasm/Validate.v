(* A type system for the instruction set of the reference semantics W (Wasm/Sem.v): an executable
   type checker over value widths (32 | 64) in the style of the specification's validation algorithm
   (value-type stack + label stack), for a TYPED MIRROR [tinstr] of Sem.v's [instr]: Sem.v's Block/Loop/If
   only carry arities, the mirror carries the parameter / result types; [erase] forgets them.

   Unreachable code: after an unconditional transfer (br, br_table, return, unreachable) the checker is in
   state [SBot]; [SBot] is accepted at the end of a block / function body for any result type, and every
   further instruction in the same sequence is REJECTED (no stack-polymorphic typing of dead code; the
   generator harness/common/gen.go never emits an instruction after an unconditional transfer inside a
   sequence). The checker is therefore sound and slightly stricter than the specification's.

   Types are Sem.v's widths; stack types list the TOP of the stack first (like Sem.v's stacks), function
   and block signatures are in declaration order (like FWasm/FHost/i_types). No proofs in this file. *)
From Coq Require Import ZArith List Bool.
From Verif Require Import Wasm.Numerics Wasm.Sem.
Import ListNotations.
Open Scope Z_scope.

(* ---------------------------------------------------------------- typed mirror syntax *)
Inductive tinstr :=
| TConst (w : Z) (c : Z)
| TUn (o : unop) | TBin (o : binop)
| TDrop | TSelect | TNop | TUnreachable
| TLocalGet (i : nat) | TLocalSet (i : nat) | TLocalTee (i : nat)
| TGlobalGet (i : nat) | TGlobalSet (i : nat)
| TLoad (w : Z) (n : nat) (sx : bool) (off : Z)
| TStore (n : nat) (off : Z)
| TMemorySize | TMemoryGrow
| TBlock (tp tr : list Z) (body : list tinstr)
| TLoop (tp tr : list Z) (body : list tinstr)
| TIf (tp tr : list Z) (t e : list tinstr)
| TBr (n : nat) | TBrIf (n : nat) | TBrTable (ls : list nat) (d : nat)
| TReturn
| TCall (f : nat)
| TCallIndirect (ty : nat).

Fixpoint erase (i : tinstr) : instr :=
  match i with
  | TConst w c => Const w c
  | TUn o => Un o | TBin o => Bin o
  | TDrop => Drop | TSelect => Select | TNop => Nop | TUnreachable => Unreachable
  | TLocalGet k => LocalGet k | TLocalSet k => LocalSet k | TLocalTee k => LocalTee k
  | TGlobalGet k => GlobalGet k | TGlobalSet k => GlobalSet k
  | TLoad w n sx off => Load w n sx off
  | TStore n off => Store n off
  | TMemorySize => MemorySize | TMemoryGrow => MemoryGrow
  | TBlock tp tr b => Block (length tp) (length tr) (map erase b)
  | TLoop tp tr b => Loop (length tp) (length tr) (map erase b)
  | TIf tp tr t e => If (length tp) (length tr) (map erase t) (map erase e)
  | TBr n => Br n | TBrIf n => BrIf n | TBrTable ls d => BrTable ls d
  | TReturn => Return
  | TCall f => Call f
  | TCallIndirect ty => CallIndirect ty
  end.

(* functions: [tl] are the types of the locals beyond the parameters (Sem.v: their number) *)
Inductive tfuncdef :=
| TFWasm (ii : nat) (tp tr tl : list Z) (body : list tinstr)
| TFHost (h : nat) (tp tr : list Z).

Definition erase_func (f : tfuncdef) : funcdef :=
  match f with
  | TFWasm ii tp tr tl b => FWasm ii tp tr (length tl) (map erase b)
  | TFHost h tp tr => FHost h tp tr
  end.

Definition tsig (f : tfuncdef) : list Z * list Z :=
  match f with TFWasm _ tp tr _ _ | TFHost _ tp tr => (tp, tr) end.

(* the static environment of a store: typed functions (by store address), the types of the store's
   globals (by store address), the number of memories *)
Record tenv := { t_funcs : list tfuncdef; t_gt : list Z; t_nmems : nat }.

(* ---------------------------------------------------------------- operator types *)
Definition wok (w : Z) : bool := (w =? 32) || (w =? 64).

Definition vun (o : unop) : bool :=
  match o with
  | UInt w Extend32S => w =? 64
  | UInt w _ | UEqz w => wok w
  | UWrap | UExtS | UExtU => true
  end.
Definition vbin (o : binop) : bool := match o with BInt w _ | BRel w _ => wok w end.
Definition uin (o : unop) : Z := match o with UInt w _ | UEqz w => w | UWrap => 64 | UExtS | UExtU => 32 end.
Definition uout (o : unop) : Z := match o with UInt w _ => w | UEqz _ | UWrap => 32 | UExtS | UExtU => 64 end.
Definition b_in (o : binop) : Z := match o with BInt w _ | BRel w _ => w end.
Definition b_out (o : binop) : Z := match o with BInt w _ => w | BRel _ _ => 32 end.

(* ---------------------------------------------------------------- the checker *)
Inductive sty := STy (t : list Z) | SBot.

(* [l] is a prefix of the stack type [st] *)
Definition prefixb (l st : list Z) : bool := list_eqb (firstn (length l) st) l.
(* the state at the end of a sequence is acceptable for the expected stack type *)
Definition res_ok (r : sty) (want : list Z) : bool :=
  match r with SBot => true | STy t => list_eqb t want end.
Definition nbytes_ok (n : nat) (w : Z) : bool :=
  (Nat.eqb n 1 || Nat.eqb n 2 || Nat.eqb n 4 || Nat.eqb n 8) && (8 * Z.of_nat n <=? w).

Section Seq.
Variable chk : list (list Z) -> tinstr -> list Z -> option sty.
Fixpoint check_seq_with (L : list (list Z)) (l : list tinstr) (st : sty) {struct l} : option sty :=
  match l with
  | [] => Some st
  | i :: r =>
      match st with
      | SBot => None                                   (* dead code is rejected *)
      | STy t => match chk L i t with Some st' => check_seq_with L r st' | None => None end
      end
  end.
End Seq.

Section Check.
Variable T : tenv.
Variable me : inst.            (* the instance the code runs in *)
Variable lt : list Z.          (* types of the locals (parameters first) *)
Variable rt : list Z.          (* result types of the function, top of stack first *)

Definition has_mem : bool :=
  match i_mem me with Some ma => Nat.ltb ma (t_nmems T) | None => false end.

Definition label_ok (L : list (list Z)) (st : list Z) (n : nat) : bool :=
  match nth_error L n with Some l => prefixb l st | None => false end.

(* L: label stack, innermost first; each entry is the stack type a branch to it must provide (top first):
   the results of a block / if, the parameters of a loop; the outermost entry is the function's [rt] *)
Fixpoint check_instr (L : list (list Z)) (i : tinstr) (st : list Z) {struct i} : option sty :=
  match i with
  | TConst w c => if wok w then Some (STy (w :: st)) else None
  | TUn o =>
      match st with
      | t :: r => if vun o && (t =? uin o) then Some (STy (uout o :: r)) else None
      | _ => None end
  | TBin o =>
      match st with
      | t2 :: t1 :: r => if vbin o && (t2 =? b_in o) && (t1 =? b_in o) then Some (STy (b_out o :: r)) else None
      | _ => None end
  | TDrop => match st with _ :: r => Some (STy r) | _ => None end
  | TSelect =>
      match st with
      | c :: t2 :: t1 :: r => if (c =? 32) && (t2 =? t1) then Some (STy (t1 :: r)) else None
      | _ => None end
  | TNop => Some (STy st)
  | TUnreachable => Some SBot
  | TLocalGet k => match nth_error lt k with Some t => Some (STy (t :: st)) | None => None end
  | TLocalSet k =>
      match st, nth_error lt k with
      | t :: r, Some t' => if t =? t' then Some (STy r) else None
      | _, _ => None end
  | TLocalTee k =>
      match st, nth_error lt k with
      | t :: r, Some t' => if t =? t' then Some (STy (t :: r)) else None
      | _, _ => None end
  | TGlobalGet k =>
      match nth_error (i_globals me) k with
      | Some ga => match nth_error (t_gt T) ga with Some t => Some (STy (t :: st)) | None => None end
      | None => None end
  | TGlobalSet k =>
      match st, nth_error (i_globals me) k with
      | t :: r, Some ga =>
          match nth_error (t_gt T) ga with Some t' => if t =? t' then Some (STy r) else None | None => None end
      | _, _ => None end
  | TLoad w n sx off =>
      match st with
      | a :: r => if has_mem && wok w && nbytes_ok n w && (a =? 32) && (0 <=? off) then Some (STy (w :: r)) else None
      | _ => None end
  | TStore n off =>
      match st with
      | t :: a :: r => if has_mem && wok t && nbytes_ok n t && (a =? 32) && (0 <=? off) then Some (STy r) else None
      | _ => None end
  | TMemorySize => if has_mem then Some (STy (32 :: st)) else None
  | TMemoryGrow =>
      match st with
      | d :: r => if has_mem && (d =? 32) then Some (STy (32 :: r)) else None
      | _ => None end
  | TBlock tp tr body =>
      if forallb wok tp && forallb wok tr && prefixb (rev tp) st then
        match check_seq_with check_instr (rev tr :: L) body (STy (rev tp)) with
        | Some r => if res_ok r (rev tr) then Some (STy (rev tr ++ skipn (length tp) st)) else None
        | None => None end
      else None
  | TLoop tp tr body =>
      if forallb wok tp && forallb wok tr && prefixb (rev tp) st then
        match check_seq_with check_instr (rev tp :: L) body (STy (rev tp)) with
        | Some r => if res_ok r (rev tr) then Some (STy (rev tr ++ skipn (length tp) st)) else None
        | None => None end
      else None
  | TIf tp tr t e =>
      match st with
      | c :: st' =>
          if (c =? 32) && forallb wok tp && forallb wok tr && prefixb (rev tp) st' then
            match check_seq_with check_instr (rev tr :: L) t (STy (rev tp)),
                  check_seq_with check_instr (rev tr :: L) e (STy (rev tp)) with
            | Some r1, Some r2 =>
                if res_ok r1 (rev tr) && res_ok r2 (rev tr) then Some (STy (rev tr ++ skipn (length tp) st')) else None
            | _, _ => None end
          else None
      | _ => None end
  | TBr n => if label_ok L st n then Some SBot else None
  | TBrIf n =>
      match st with
      | c :: r => if (c =? 32) && label_ok L r n then Some (STy r) else None
      | _ => None end
  | TBrTable ls d =>
      match st with
      | c :: r => if (c =? 32) && label_ok L r d && forallb (label_ok L r) ls then Some SBot else None
      | _ => None end
  | TReturn => if prefixb rt st then Some SBot else None
  | TCall k =>
      match nth_error (i_funcs me) k with
      | Some fa =>
          match nth_error (t_funcs T) fa with
          | Some fd =>
              let tp := fst (tsig fd) in let tr := snd (tsig fd) in
              if prefixb (rev tp) st then Some (STy (rev tr ++ skipn (length tp) st)) else None
          | None => None end
      | None => None end
  | TCallIndirect ty =>
      match st, i_tab me, nth_error (i_types me) ty with
      | c :: st', Some _, Some (tp, tr) =>
          if (c =? 32) && forallb wok tp && forallb wok tr && prefixb (rev tp) st'
          then Some (STy (rev tr ++ skipn (length tp) st')) else None
      | _, _, _ => None end
  end.

Definition check_seq := check_seq_with check_instr.
End Check.

(* ---------------------------------------------------------------- functions and stores *)
Definition dflt_inst : inst := {| i_funcs := []; i_globals := []; i_mem := None; i_tab := None; i_types := [] |}.

(* a function: its instance exists, its types are value types, its body checks in its instance's context
   with the locals [tp ++ tl], the single label [rev tr], and ends with exactly the results (or in dead code) *)
Definition func_okb (T : tenv) (insts : list inst) (f : tfuncdef) : bool :=
  match f with
  | TFWasm ci tp tr tl body =>
      Nat.ltb ci (length insts) && forallb wok tp && forallb wok tr && forallb wok tl &&
      match check_seq T (nth ci insts dflt_inst) (tp ++ tl) (rev tr) [rev tr] body (STy []) with
      | Some r => res_ok r (rev tr)
      | None => false end
  | TFHost _ tp tr => forallb wok tp && forallb wok tr
  end.

(* tables refer to existing functions *)
Definition tab_okb (nf : nat) (tab : list (option nat)) : bool :=
  forallb (fun e => match e with Some fa => Nat.ltb fa nf | None => true end) tab.

Definition wfvb (w v : Z) : bool := (0 <=? v) && (v <? 2 ^ w).
Fixpoint forall2b {A B} (p : A -> B -> bool) (a : list A) (b : list B) : bool :=
  match a, b with
  | [], [] => true
  | x :: a', y :: b' => p x y && forall2b p a' b'
  | _, _ => false
  end.

(* a memory: length within its bound, bound within the 4 GiB address space, cells hold bytes *)
Definition mem_okb (m : memory) : bool :=
  (0 <=? mlen m) && (mlen m <=? mmax m * 65536) && (mmax m <=? 65536) &&
  forallb (fun kv => (0 <=? snd kv) && (snd kv <? 256)) (mdata m).

(* instance index maps are in range *)
Definition inst_okb (T : tenv) (ntabs : nat) (i : inst) : bool :=
  forallb (fun fa => Nat.ltb fa (length (t_funcs T))) (i_funcs i) &&
  forallb (fun ga => Nat.ltb ga (length (t_gt T))) (i_globals i) &&
  match i_mem i with Some ma => Nat.ltb ma (t_nmems T) | None => true end &&
  match i_tab i with Some ta => Nat.ltb ta ntabs | None => true end &&
  forallb (fun ty => forallb wok (fst ty) && forallb wok (snd ty)) (i_types i).

(* everything about a store except "its code is the erasure of T's functions" *)
Definition store_okb (T : tenv) (s : store Spec) : bool :=
  forallb (func_okb T (s_insts s)) (t_funcs T) &&
  forallb (tab_okb (length (t_funcs T))) (s_tabs s) &&
  forallb wok (t_gt T) &&
  forall2b wfvb (t_gt T) (s_globals s) &&
  Nat.eqb (length (s_mems s)) (t_nmems T) &&
  forallb mem_okb (s_mems s) &&
  forallb (inst_okb T (length (s_tabs s))) (s_insts s).

(* ---- syntactic equality of code, used to compare an erased typed program with an untyped one ---- *)
Definition unop_eqb (a b : unop) : bool :=
  match a, b with
  | UInt w o, UInt w' o' =>
      (w =? w') && match o, o' with
                   | Clz, Clz | Ctz, Ctz | Popcnt, Popcnt | Extend8S, Extend8S | Extend16S, Extend16S | Extend32S, Extend32S => true
                   | _, _ => false end
  | UEqz w, UEqz w' => w =? w'
  | UWrap, UWrap | UExtS, UExtS | UExtU, UExtU => true
  | _, _ => false
  end.
Definition ibinop_idx (o : ibinop) : Z :=
  match o with Add => 0 | Sub => 1 | Mul => 2 | DivS => 3 | DivU => 4 | RemS => 5 | RemU => 6 | And => 7 | Or => 8 | Xor => 9
             | Shl => 10 | ShrS => 11 | ShrU => 12 | Rotl => 13 | Rotr => 14 end.
Definition irelop_idx (o : irelop) : Z :=
  match o with Eq => 0 | Ne => 1 | LtS => 2 | LtU => 3 | GtS => 4 | GtU => 5 | LeS => 6 | LeU => 7 | GeS => 8 | GeU => 9 end.
Definition binop_eqb (a b : binop) : bool :=
  match a, b with
  | BInt w o, BInt w' o' => (w =? w') && (ibinop_idx o =? ibinop_idx o')
  | BRel w o, BRel w' o' => (w =? w') && (irelop_idx o =? irelop_idx o')
  | _, _ => false
  end.
Fixpoint natlist_eqb (a b : list nat) : bool :=
  match a, b with
  | [], [] => true
  | x :: a', y :: b' => Nat.eqb x y && natlist_eqb a' b'
  | _, _ => false
  end.
Section SeqEq.
Variable eqi : instr -> instr -> bool.
Fixpoint seq_eqb_with (a b : list instr) {struct a} : bool :=
  match a, b with
  | [], [] => true
  | x :: a', y :: b' => eqi x y && seq_eqb_with a' b'
  | _, _ => false
  end.
End SeqEq.
Fixpoint instr_eqb (a b : instr) {struct a} : bool :=
  match a, b with
  | Const w c, Const w' c' => (w =? w') && (modN w c =? modN w' c')
  | Un o, Un o' => unop_eqb o o'
  | Bin o, Bin o' => binop_eqb o o'
  | Drop, Drop | Select, Select | Nop, Nop | Unreachable, Unreachable | MemorySize, MemorySize | MemoryGrow, MemoryGrow
  | Return, Return => true
  | LocalGet k, LocalGet k' | LocalSet k, LocalSet k' | LocalTee k, LocalTee k'
  | GlobalGet k, GlobalGet k' | GlobalSet k, GlobalSet k' | Br k, Br k' | BrIf k, BrIf k' | Call k, Call k'
  | CallIndirect k, CallIndirect k' => Nat.eqb k k'
  | Load w n sx off, Load w' n' sx' off' => (w =? w') && Nat.eqb n n' && Bool.eqb sx sx' && (off =? off')
  | Store n off, Store n' off' => Nat.eqb n n' && (off =? off')
  | Block np nr b, Block np' nr' b' | Loop np nr b, Loop np' nr' b' =>
      Nat.eqb np np' && Nat.eqb nr nr' && seq_eqb_with instr_eqb b b'
  | If np nr t e, If np' nr' t' e' =>
      Nat.eqb np np' && Nat.eqb nr nr' && seq_eqb_with instr_eqb t t' && seq_eqb_with instr_eqb e e'
  | BrTable ls d, BrTable ls' d' => natlist_eqb ls ls' && Nat.eqb d d'
  | _, _ => false
  end.
Definition funcdef_eqb (a b : funcdef) : bool :=
  match a, b with
  | FWasm ii tp tr nl b, FWasm ii' tp' tr' nl' b' =>
      Nat.eqb ii ii' && list_eqb tp tp' && list_eqb tr tr' && Nat.eqb nl nl' && seq_eqb_with instr_eqb b b'
  | FHost h tp tr, FHost h' tp' tr' => Nat.eqb h h' && list_eqb tp tp' && list_eqb tr tr'
  | _, _ => false
  end.

(* the checker as run by the correspondence harness: the store's code is (syntactically, constants modulo their
   width) the erasure of T's functions, and the store is well-formed for T *)
Definition valid_storeb (T : tenv) (s : store Spec) : bool :=
  forall2b funcdef_eqb (map erase_func (t_funcs T)) (s_funcs s) && store_okb T s.

(* harness entry: typed functions + a store as printed by harness/common (single instance, globals typed
   [gt], memories counted from the store). 0 accepted; 3001 code differs from the erasure; 3000 rejected *)
Definition validate_case (tfs : list tfuncdef) (gt : list Z) (s : store Spec) : Z :=
  let T := {| t_funcs := tfs; t_gt := gt; t_nmems := length (s_mems s) |} in
  if negb (forall2b funcdef_eqb (map erase_func tfs) (s_funcs s)) then 3001
  else if store_okb T s then 0 else 3000.
