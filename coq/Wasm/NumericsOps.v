(* Opcode table of the numeric instructions on the SPEC side and the comparison of recorded
   observations against it (used by checks/c05.py). Operation identifiers: the opcode byte for
   0x45..0xC4, 0xFC00+k for the saturating truncations 0xFC k, 0xFD000+k for vector instruction 0xFD k.
   Operands and results are bit patterns (unsigned Z). No proofs in this file. *)
From Coq Require Import ZArith Bool List Uint63.
From Verif Require Import Wasm.Numerics Wasm.NumericsF Wasm.NumericsV.
Import ListNotations.
Open Scope Z_scope.

(* what the specification allows as the outcome of one instruction *)
Inductive res :=
| RBits (v : Z)                       (* exactly this bit pattern *)
| RTrap (k : Z)                       (* 1 integer divide by zero, 2 integer overflow, 3 invalid conversion to integer *)
| RNan (w : Z) (canon : bool)         (* a NaN of width w: canonical (either sign) if canon, else any arithmetic NaN *)
| RLanes (w : Z) (l : list res)       (* vector of lanes of width w, lane 0 first, each RBits or RNan *)
| RNone.                              (* operation not modelled *)

Definition arg (n : nat) (l : list Z) : Z := nth n l 0.

Definition irel_of (k : Z) : option irelop :=
  match k with
  | 0 => Some Eq | 1 => Some Ne | 2 => Some LtS | 3 => Some LtU | 4 => Some GtS | 5 => Some GtU
  | 6 => Some LeS | 7 => Some LeU | 8 => Some GeS | 9 => Some GeU | _ => None
  end.
Definition ibin_of (k : Z) : option ibinop :=
  match k with
  | 0 => Some Add | 1 => Some Sub | 2 => Some Mul | 3 => Some DivS | 4 => Some DivU | 5 => Some RemS | 6 => Some RemU
  | 7 => Some And | 8 => Some Or | 9 => Some Xor | 10 => Some Shl | 11 => Some ShrS | 12 => Some ShrU
  | 13 => Some Rotl | 14 => Some Rotr | _ => None
  end.
Definition iun_of (k : Z) : option iunop :=
  match k with 0 => Some Clz | 1 => Some Ctz | 2 => Some Popcnt | _ => None end.

Definition between (lo x hi : Z) : bool := (lo <=? x) && (x <=? hi).

Definition rel_res (N k a b : Z) : res :=
  match irel_of k with Some o => RBits (eval_irelop N o a b) | None => RNone end.
Definition un_res (N k a : Z) : res :=
  match iun_of k with Some o => RBits (eval_iunop N o a) | None => RNone end.
(* a trapping division: /0 is "integer divide by zero", the only other trap (MIN / -1) is "integer overflow" *)
Definition bin_res (N k a b : Z) : res :=
  match ibin_of k with
  | Some o => match eval_ibinop N o a b with Some v => RBits v | None => RTrap (if b =? 0 then 1 else 2) end
  | None => RNone
  end.

(* scalar integer instructions *)
Definition spec_int (op : Z) (args : list Z) : res :=
  let a := arg 0 args in let b := arg 1 args in
  if op =? 0x45 then RBits (ieqz 32 a)
  else if between 0x46 op 0x4f then rel_res 32 (op - 0x46) a b
  else if op =? 0x50 then RBits (ieqz 64 a)
  else if between 0x51 op 0x5a then rel_res 64 (op - 0x51) a b
  else if between 0x67 op 0x69 then un_res 32 (op - 0x67) a
  else if between 0x6a op 0x78 then bin_res 32 (op - 0x6a) a b
  else if between 0x79 op 0x7b then un_res 64 (op - 0x79) a
  else if between 0x7c op 0x8a then bin_res 64 (op - 0x7c) a b
  else if op =? 0xa7 then RBits (wrap_i64 a)
  else if op =? 0xac then RBits (extend_i32_s a)
  else if op =? 0xad then RBits (extend_i32_u a)
  else if op =? 0xc0 then RBits (eval_iunop 32 Extend8S a)
  else if op =? 0xc1 then RBits (eval_iunop 32 Extend16S a)
  else if op =? 0xc2 then RBits (eval_iunop 64 Extend8S a)
  else if op =? 0xc3 then RBits (eval_iunop 64 Extend16S a)
  else if op =? 0xc4 then RBits (eval_iunop 64 Extend32S a)
  else RNone.

(* ---- scalar float instructions ---- *)
Definition frel_of (k : Z) : option frelop :=
  match k with 0 => Some FEq | 1 => Some FNe | 2 => Some FLt | 3 => Some FGt | 4 => Some FLe | 5 => Some FGe | _ => None end.
Definition fun_of (k : Z) : option funop :=
  match k with
  | 0 => Some FAbs | 1 => Some FNeg | 2 => Some FCeil | 3 => Some FFloor | 4 => Some FTrunc | 5 => Some FNearest | 6 => Some FSqrt
  | _ => None
  end.
Definition fbin_of (k : Z) : option fbinop :=
  match k with
  | 0 => Some FAdd | 1 => Some FSub | 2 => Some FMul | 3 => Some FDiv | 4 => Some FMin | 5 => Some FMax | 6 => Some FCopysign
  | _ => None
  end.

(* a float result: exact bits, or - when the specified value is a NaN - the NaN class the operands allow *)
Definition fres (w : Z) (operands : list Z) (v : Z) : res :=
  if f_is_nan w v then RNan w (nan_canon_required w operands) else RBits v.

Definition frel_res (w k a b : Z) : res :=
  match frel_of k with Some o => RBits (eval_frelop w o a b) | None => RNone end.
Definition fun_res (w k a : Z) : res :=
  match fun_of k with
  | Some FAbs => RBits (eval_funop w FAbs a)
  | Some FNeg => RBits (eval_funop w FNeg a)
  | Some o => fres w [a] (eval_funop w o a)
  | None => RNone
  end.
Definition fbin_res (w k a b : Z) : res :=
  match fbin_of k with
  | Some FCopysign => RBits (eval_fbinop w FCopysign a b)
  | Some o => fres w [a; b] (eval_fbinop w o a b)
  | None => RNone
  end.
Definition trunc_res (signed : bool) (w N a : Z) : res :=
  let '(mw, ew) := fmt w in
  match f_to_int signed mw ew N a with Some v => RBits v | None => RTrap (f_trunc_trap mw ew a) end.
Definition sat_res (signed : bool) (w N a : Z) : res :=
  let '(mw, ew) := fmt w in RBits (f_to_int_sat signed mw ew N a).

Definition spec_float (op : Z) (args : list Z) : res :=
  let a := arg 0 args in let b := arg 1 args in
  if between 0x5b op 0x60 then frel_res 32 (op - 0x5b) a b
  else if between 0x61 op 0x66 then frel_res 64 (op - 0x61) a b
  else if between 0x8b op 0x91 then fun_res 32 (op - 0x8b) a
  else if between 0x92 op 0x98 then fbin_res 32 (op - 0x92) a b
  else if between 0x99 op 0x9f then fun_res 64 (op - 0x99) a
  else if between 0xa0 op 0xa6 then fbin_res 64 (op - 0xa0) a b
  else if op =? 0xa8 then trunc_res true 32 32 a
  else if op =? 0xa9 then trunc_res false 32 32 a
  else if op =? 0xaa then trunc_res true 64 32 a
  else if op =? 0xab then trunc_res false 64 32 a
  else if op =? 0xae then trunc_res true 32 64 a
  else if op =? 0xaf then trunc_res false 32 64 a
  else if op =? 0xb0 then trunc_res true 64 64 a
  else if op =? 0xb1 then trunc_res false 64 64 a
  else if op =? 0xb2 then RBits (f32_convert true 32 a)
  else if op =? 0xb3 then RBits (f32_convert false 32 a)
  else if op =? 0xb4 then RBits (f32_convert true 64 a)
  else if op =? 0xb5 then RBits (f32_convert false 64 a)
  else if op =? 0xb6 then (if f_is_nan 64 a then RNan 32 (nan_canon_required 64 [a]) else RBits (f32_demote a))
  else if op =? 0xb7 then RBits (f64_convert true 32 a)
  else if op =? 0xb8 then RBits (f64_convert false 32 a)
  else if op =? 0xb9 then RBits (f64_convert true 64 a)
  else if op =? 0xba then RBits (f64_convert false 64 a)
  else if op =? 0xbb then (if f_is_nan 32 a then RNan 64 (nan_canon_required 32 [a]) else RBits (f64_promote a))
  else if between 0xbc op 0xbf then RBits a
  else if op =? 0xfc00 then sat_res true 32 32 a
  else if op =? 0xfc01 then sat_res false 32 32 a
  else if op =? 0xfc02 then sat_res true 64 32 a
  else if op =? 0xfc03 then sat_res false 64 32 a
  else if op =? 0xfc04 then sat_res true 32 64 a
  else if op =? 0xfc05 then sat_res false 32 64 a
  else if op =? 0xfc06 then sat_res true 64 64 a
  else if op =? 0xfc07 then sat_res false 64 64 a
  else RNone.

(* ---- vector instructions (k = second opcode byte after 0xFD) ---- *)
Definition flanes1 (w : Z) (f : Z -> Z) (a : Z) : res :=
  RLanes w (map (fun x => fres w [x] (f x)) (lanes w a)).
Definition flanes2 (w : Z) (f : Z -> Z -> Z) (a b : Z) : res :=
  RLanes w (map2 (fun x y => fres w [x; y] (f x y)) (lanes w a) (lanes w b)).
Definition demote_lane (x : Z) : res := if f_is_nan 64 x then RNan 32 (nan_canon_required 64 [x]) else RBits (f32_demote x).
Definition promote_lane (x : Z) : res := if f_is_nan 32 x then RNan 64 (nan_canon_required 32 [x]) else RBits (f64_promote x).

(* the integer operators share one layout at bases 0x60 (i8x16), 0x80 (i16x8), 0xa0 (i32x4), 0xc0 (i64x2) *)
Definition int_family (w j a b : Z) : res :=
  match j with
  | 0 => RBits (v_abs w a) | 1 => RBits (v_neg w a)
  | 3 => RBits (v_all_true w a) | 4 => RBits (v_bitmask w a)
  | 5 => RBits (v_narrow_s w a b) | 6 => RBits (v_narrow_u w a b)
  | 7 => RBits (v_extend true false (w / 2) a) | 8 => RBits (v_extend true true (w / 2) a)
  | 9 => RBits (v_extend false false (w / 2) a) | 10 => RBits (v_extend false true (w / 2) a)
  | 11 => RBits (v_shl w a b) | 12 => RBits (v_shr_s w a b) | 13 => RBits (v_shr_u w a b)
  | 14 => RBits (v_add w a b) | 15 => RBits (v_add_sat_s w a b) | 16 => RBits (v_add_sat_u w a b)
  | 17 => RBits (v_sub w a b) | 18 => RBits (v_sub_sat_s w a b) | 19 => RBits (v_sub_sat_u w a b)
  | 21 => RBits (v_mul w a b)
  | 22 => RBits (v_min_s w a b) | 23 => RBits (v_min_u w a b) | 24 => RBits (v_max_s w a b) | 25 => RBits (v_max_u w a b)
  | 27 => RBits (v_avgr_u w a b)
  | 28 => RBits (v_extmul true false (w / 2) a b) | 29 => RBits (v_extmul true true (w / 2) a b)
  | 30 => RBits (v_extmul false false (w / 2) a b) | 31 => RBits (v_extmul false true (w / 2) a b)
  | _ => RNone
  end.

(* f32x4 at 0xe0.., f64x2 at 0xec..: abs neg - sqrt add sub mul div min max pmin pmax *)
Definition float_family (w j a b : Z) : res :=
  let '(mw, ew) := fmt w in
  match j with
  | 0 => RBits (lanewise1 w (f_abs mw ew) a) | 1 => RBits (lanewise1 w (f_neg mw ew) a)
  | 3 => flanes1 w (eval_funop w FSqrt) a
  | 4 => flanes2 w (eval_fbinop w FAdd) a b | 5 => flanes2 w (eval_fbinop w FSub) a b
  | 6 => flanes2 w (eval_fbinop w FMul) a b | 7 => flanes2 w (eval_fbinop w FDiv) a b
  | 8 => flanes2 w (eval_fbinop w FMin) a b | 9 => flanes2 w (eval_fbinop w FMax) a b
  | 10 => RBits (lanewise2 w (f_pmin mw ew) a b) | 11 => RBits (lanewise2 w (f_pmax mw ew) a b)
  | _ => RNone
  end.

Definition cmp_res (w k a b : Z) : res :=
  match irel_of k with Some o => RBits (v_cmp w o a b) | None => RNone end.
Definition fcmp_res (w k a b : Z) : res :=
  match frel_of k with Some o => RBits (v_fcmp w o a b) | None => RNone end.
Definition i64_rel_of (k : Z) : option irelop :=
  match k with 0 => Some Eq | 1 => Some Ne | 2 => Some LtS | 3 => Some GtS | 4 => Some LeS | 5 => Some GeS | _ => None end.

Definition spec_simd (k imm : Z) (args : list Z) : res :=
  let a := arg 0 args in let b := arg 1 args in let c := arg 2 args in
  if k =? 0x0d then RBits (v_shuffle imm a b)
  else if k =? 0x0e then RBits (v_swizzle a b)
  else if k =? 0x0f then RBits (v_splat 8 a)
  else if k =? 0x10 then RBits (v_splat 16 a)
  else if (k =? 0x11) || (k =? 0x13) then RBits (v_splat 32 a)
  else if (k =? 0x12) || (k =? 0x14) then RBits (v_splat 64 a)
  else if k =? 0x15 then RBits (v_extract_s 8 imm a)
  else if k =? 0x16 then RBits (v_extract_u 8 imm a)
  else if k =? 0x17 then RBits (v_replace 8 imm a b)
  else if k =? 0x18 then RBits (v_extract_s 16 imm a)
  else if k =? 0x19 then RBits (v_extract_u 16 imm a)
  else if k =? 0x1a then RBits (v_replace 16 imm a b)
  else if (k =? 0x1b) || (k =? 0x1f) then RBits (v_extract_u 32 imm a)
  else if (k =? 0x1c) || (k =? 0x20) then RBits (v_replace 32 imm a b)
  else if (k =? 0x1d) || (k =? 0x21) then RBits (v_extract_u 64 imm a)
  else if (k =? 0x1e) || (k =? 0x22) then RBits (v_replace 64 imm a b)
  else if between 0x23 k 0x2c then cmp_res 8 (k - 0x23) a b
  else if between 0x2d k 0x36 then cmp_res 16 (k - 0x2d) a b
  else if between 0x37 k 0x40 then cmp_res 32 (k - 0x37) a b
  else if between 0x41 k 0x46 then fcmp_res 32 (k - 0x41) a b
  else if between 0x47 k 0x4c then fcmp_res 64 (k - 0x47) a b
  else if k =? 0x4d then RBits (v_not a)
  else if k =? 0x4e then RBits (v_and a b)
  else if k =? 0x4f then RBits (v_andnot a b)
  else if k =? 0x50 then RBits (v_or a b)
  else if k =? 0x51 then RBits (v_xor a b)
  else if k =? 0x52 then RBits (v_bitselect a b c)
  else if k =? 0x53 then RBits (v_any_true a)
  else if k =? 0x5e then RLanes 32 (map demote_lane (lanes 64 a) ++ [RBits 0; RBits 0])
  else if k =? 0x5f then RLanes 64 (map promote_lane (firstn 2 (lanes 32 a)))
  else if k =? 0x62 then RBits (v_popcnt 8 a)
  else if k =? 0x67 then flanes1 32 (eval_funop 32 FCeil) a
  else if k =? 0x68 then flanes1 32 (eval_funop 32 FFloor) a
  else if k =? 0x69 then flanes1 32 (eval_funop 32 FTrunc) a
  else if k =? 0x6a then flanes1 32 (eval_funop 32 FNearest) a
  else if k =? 0x74 then flanes1 64 (eval_funop 64 FCeil) a
  else if k =? 0x75 then flanes1 64 (eval_funop 64 FFloor) a
  else if k =? 0x7a then flanes1 64 (eval_funop 64 FTrunc) a
  else if k =? 0x94 then flanes1 64 (eval_funop 64 FNearest) a
  else if k =? 0x7c then RBits (v_extadd_pairwise true 8 a)
  else if k =? 0x7d then RBits (v_extadd_pairwise false 8 a)
  else if k =? 0x7e then RBits (v_extadd_pairwise true 16 a)
  else if k =? 0x7f then RBits (v_extadd_pairwise false 16 a)
  else if k =? 0x82 then RBits (v_q15mulr_sat_s a b)
  else if k =? 0xba then RBits (v_dot a b)
  else if between 0xd6 k 0xdb then match i64_rel_of (k - 0xd6) with Some o => RBits (v_cmp 64 o a b) | None => RNone end
  else if between 0x60 k 0x7f then int_family 8 (k - 0x60) a b
  else if between 0x80 k 0x9f then int_family 16 (k - 0x80) a b
  else if between 0xa0 k 0xbf then int_family 32 (k - 0xa0) a b
  else if between 0xc0 k 0xdf then int_family 64 (k - 0xc0) a b
  else if between 0xe0 k 0xeb then float_family 32 (k - 0xe0) a b
  else if between 0xec k 0xf7 then float_family 64 (k - 0xec) a b
  else if k =? 0xf8 then RBits (lanewise1 32 (f_to_int_sat true 23 8 32) a)
  else if k =? 0xf9 then RBits (lanewise1 32 (f_to_int_sat false 23 8 32) a)
  else if k =? 0xfa then RBits (lanewise1 32 (f32_convert true 32) a)
  else if k =? 0xfb then RBits (lanewise1 32 (f32_convert false 32) a)
  else if k =? 0xfc then RBits (join_lanes 32 (map (f_to_int_sat true 52 11 32) (lanes 64 a)))
  else if k =? 0xfd then RBits (join_lanes 32 (map (f_to_int_sat false 52 11 32) (lanes 64 a)))
  else if k =? 0xfe then RBits (join_lanes 64 (map (f64_convert true 32) (firstn 2 (lanes 32 a))))
  else if k =? 0xff then RBits (join_lanes 64 (map (f64_convert false 32) (firstn 2 (lanes 32 a))))
  else RNone.

Fixpoint lanes_ok (ok : res -> Z -> bool) (rs : list res) (os : list Z) : bool :=
  match rs, os with
  | [], [] => true
  | r :: rs', o :: os' => ok r o && lanes_ok ok rs' os'
  | _, _ => false
  end.

Definition lane_ok (r : res) (o : Z) : bool :=
  match r with
  | RBits v => o =? v
  | RNan w c => if c then f_is_canon_nan w o else f_is_arith_nan w o
  | _ => false
  end.

(* does observation o (bit pattern, or -k for trap kind k) satisfy the specified outcome r *)
Definition res_ok (r : res) (o : Z) : bool :=
  match r with
  | RBits v => o =? v
  | RTrap k => o =? - k
  | RNan w c => lane_ok r o
  | RLanes w l => (0 <=? o) && lanes_ok lane_ok l (split_lanes (length l) w o)
  | RNone => false
  end.

Definition spec_op (op imm : Z) (args : list Z) : res :=
  if between 0xfd000 op 0xfd0ff then spec_simd (op - 0xfd000) imm args
  else match spec_int op args with
       | RNone => spec_float op args
       | r => r
       end.

(* a case: operation, immediate, operand bit patterns, the distinct observations recorded for it *)
Definition case := (Z * Z * list Z * list Z)%type.

Fixpoint bad_obs (r : res) (os : list Z) (j : Z) : list Z :=
  match os with
  | [] => []
  | o :: os' => if res_ok r o then bad_obs r os' (j + 1) else j :: bad_obs r os' (j + 1)
  end.

(* (case index, observation index) of every observation the specification does not allow *)
Fixpoint mismatches (i : Z) (cs : list case) : list (Z * Z) :=
  match cs with
  | [] => []
  | (op, imm, args, os) :: cs' =>
      map (fun j => (i, j)) (bad_obs (spec_op op imm args) os 0) ++ mismatches (i + 1) cs'
  end.

(* ---- compact case files: big Z literals are slow to parse (about 1 ms each), primitive 63-bit integers are not.
   A value is a tag t followed by its payload: t = 0..3 -> t limbs of 62 bits, least significant first; t = 9 -> minus the next
   integer. A case is: op, value imm, number of operands, operand values, number of observations, observation values. ---- *)
Definition zi (x : int) : Z := Uint63.to_Z x.

Fixpoint limbs (n : nat) (l : list int) : Z * list int :=
  match n with
  | O => (0, l)
  | S n' => match l with
            | [] => (0, [])
            | x :: l' => let '(v, r) := limbs n' l' in (zi x + 2 ^ 62 * v, r)
            end
  end.
Definition get_val (l : list int) : Z * list int :=
  match l with
  | [] => (0, [])
  | t :: l' => if zi t =? 9 then match l' with k :: r => (- zi k, r) | [] => (0, []) end
               else limbs (Z.to_nat (zi t)) l'
  end.
Fixpoint get_vals (n : nat) (l : list int) : list Z * list int :=
  match n with
  | O => ([], l)
  | S n' => let '(v, r) := get_val l in let '(vs, r') := get_vals n' r in (v :: vs, r')
  end.
Fixpoint decode (fuel : nat) (l : list int) : list case :=
  match fuel with
  | O => []
  | S f =>
    match l with
    | [] => []
    | op :: l1 =>
      let '(imm, l2) := get_val l1 in
      match l2 with
      | [] => []
      | na :: l3 =>
        let '(args, l4) := get_vals (Z.to_nat (zi na)) l3 in
        match l4 with
        | [] => []
        | no :: l5 => let '(obs, l6) := get_vals (Z.to_nat (zi no)) l5 in (zi op, imm, args, obs) :: decode f l6
        end
      end
    end
  end.
Definition mismatches_enc (enc : list int) : list (Z * Z) := mismatches 0 (decode (length enc) enc).
(* the same over a literal cut into chunks (each chunk holds whole cases) *)
Definition mismatches_chunks (encs : list (list int)) : list (Z * Z) :=
  mismatches 0 (flat_map (fun enc => decode (length enc) enc) encs).
