(* Opcode table of the numeric instructions on the SPEC side and the comparison of recorded
   observations against it (used by checks/c05.py). Operation identifiers: the opcode byte for
   0x45..0xC4, 0xFC00+k for the saturating truncations 0xFC k, 0xFD000+k for vector instruction 0xFD k.
   Operands and results are bit patterns (unsigned Z). No proofs in this file. *)
From Coq Require Import ZArith Bool List Uint63.
From Verif Require Import Wasm.Numerics.
Import ListNotations.
Open Scope Z_scope.

(* what the specification allows as the outcome of one instruction *)
Inductive res :=
| RBits (v : Z)                       (* exactly this bit pattern *)
| RTrap (k : Z)                       (* 1 integer divide by zero, 2 integer overflow, 3 invalid conversion to integer *)
| RNan (w : Z) (canon : bool)         (* a NaN of width w: canonical (either sign) if canon, else any arithmetic NaN *)
| RLanes (w : Z) (l : list res)       (* vector of lanes of width w, lane 0 first, each RBits or RNan *)
| RNone.                              (* operation not modelled *)

Definition arg (n : nat) (l : list Z) : Z := nth n l 0.

Definition irel_of (k : Z) : option irelop :=
  match k with
  | 0 => Some Eq | 1 => Some Ne | 2 => Some LtS | 3 => Some LtU | 4 => Some GtS | 5 => Some GtU
  | 6 => Some LeS | 7 => Some LeU | 8 => Some GeS | 9 => Some GeU | _ => None
  end.
Definition ibin_of (k : Z) : option ibinop :=
  match k with
  | 0 => Some Add | 1 => Some Sub | 2 => Some Mul | 3 => Some DivS | 4 => Some DivU | 5 => Some RemS | 6 => Some RemU
  | 7 => Some And | 8 => Some Or | 9 => Some Xor | 10 => Some Shl | 11 => Some ShrS | 12 => Some ShrU
  | 13 => Some Rotl | 14 => Some Rotr | _ => None
  end.
Definition iun_of (k : Z) : option iunop :=
  match k with 0 => Some Clz | 1 => Some Ctz | 2 => Some Popcnt | _ => None end.

Definition between (lo x hi : Z) : bool := (lo <=? x) && (x <=? hi).

Definition rel_res (N k a b : Z) : res :=
  match irel_of k with Some o => RBits (eval_irelop N o a b) | None => RNone end.
Definition un_res (N k a : Z) : res :=
  match iun_of k with Some o => RBits (eval_iunop N o a) | None => RNone end.
(* a trapping division: /0 is "integer divide by zero", the only other trap (MIN / -1) is "integer overflow" *)
Definition bin_res (N k a b : Z) : res :=
  match ibin_of k with
  | Some o => match eval_ibinop N o a b with Some v => RBits v | None => RTrap (if b =? 0 then 1 else 2) end
  | None => RNone
  end.

(* scalar integer instructions *)
Definition spec_int (op : Z) (args : list Z) : res :=
  let a := arg 0 args in let b := arg 1 args in
  if op =? 0x45 then RBits (ieqz 32 a)
  else if between 0x46 op 0x4f then rel_res 32 (op - 0x46) a b
  else if op =? 0x50 then RBits (ieqz 64 a)
  else if between 0x51 op 0x5a then rel_res 64 (op - 0x51) a b
  else if between 0x67 op 0x69 then un_res 32 (op - 0x67) a
  else if between 0x6a op 0x78 then bin_res 32 (op - 0x6a) a b
  else if between 0x79 op 0x7b then un_res 64 (op - 0x79) a
  else if between 0x7c op 0x8a then bin_res 64 (op - 0x7c) a b
  else if op =? 0xa7 then RBits (wrap_i64 a)
  else if op =? 0xac then RBits (extend_i32_s a)
  else if op =? 0xad then RBits (extend_i32_u a)
  else if op =? 0xc0 then RBits (eval_iunop 32 Extend8S a)
  else if op =? 0xc1 then RBits (eval_iunop 32 Extend16S a)
  else if op =? 0xc2 then RBits (eval_iunop 64 Extend8S a)
  else if op =? 0xc3 then RBits (eval_iunop 64 Extend16S a)
  else if op =? 0xc4 then RBits (eval_iunop 64 Extend32S a)
  else RNone.

(* ---- NaN classes on bit patterns (w = 32 or 64) ---- *)
Definition mant_bits (w : Z) : Z := if w =? 32 then 23 else 52.
Definition f_is_nan (w x : Z) : bool :=
  let mw := mant_bits w in
  (((x / 2 ^ mw) mod 2 ^ (w - 1 - mw)) =? 2 ^ (w - 1 - mw) - 1) && negb (x mod 2 ^ mw =? 0).
(* canonical NaN: payload is exactly the most significant mantissa bit; sign free *)
Definition f_is_canon_nan (w x : Z) : bool :=
  let mw := mant_bits w in f_is_nan w x && (x mod 2 ^ mw =? 2 ^ (mw - 1)).
(* arithmetic NaN: most significant mantissa bit set *)
Definition f_is_arith_nan (w x : Z) : bool :=
  let mw := mant_bits w in f_is_nan w x && (2 ^ (mw - 1) <=? x mod 2 ^ mw).

(* lanes of a vector, lane 0 = least significant *)
Fixpoint split_lanes (n : nat) (w v : Z) : list Z :=
  match n with
  | O => []
  | S n' => v mod 2 ^ w :: split_lanes n' w (v / 2 ^ w)
  end.

Fixpoint lanes_ok (ok : res -> Z -> bool) (rs : list res) (os : list Z) : bool :=
  match rs, os with
  | [], [] => true
  | r :: rs', o :: os' => ok r o && lanes_ok ok rs' os'
  | _, _ => false
  end.

Definition lane_ok (r : res) (o : Z) : bool :=
  match r with
  | RBits v => o =? v
  | RNan w c => if c then f_is_canon_nan w o else f_is_arith_nan w o
  | _ => false
  end.

(* does observation o (bit pattern, or -k for trap kind k) satisfy the specified outcome r *)
Definition res_ok (r : res) (o : Z) : bool :=
  match r with
  | RBits v => o =? v
  | RTrap k => o =? - k
  | RNan w c => lane_ok r o
  | RLanes w l => (0 <=? o) && lanes_ok lane_ok l (split_lanes (length l) w o)
  | RNone => false
  end.

Definition spec_op (op imm : Z) (args : list Z) : res := spec_int op args.

(* a case: operation, immediate, operand bit patterns, the distinct observations recorded for it *)
Definition case := (Z * Z * list Z * list Z)%type.

Fixpoint bad_obs (r : res) (os : list Z) (j : Z) : list Z :=
  match os with
  | [] => []
  | o :: os' => if res_ok r o then bad_obs r os' (j + 1) else j :: bad_obs r os' (j + 1)
  end.

(* (case index, observation index) of every observation the specification does not allow *)
Fixpoint mismatches (i : Z) (cs : list case) : list (Z * Z) :=
  match cs with
  | [] => []
  | (op, imm, args, os) :: cs' =>
      map (fun j => (i, j)) (bad_obs (spec_op op imm args) os 0) ++ mismatches (i + 1) cs'
  end.

(* ---- compact case files: big Z literals are slow to parse (about 1 ms each), primitive 63-bit integers are not.
   A value is a tag t followed by its payload: t = 0..3 -> t limbs of 62 bits, least significant first; t = 9 -> minus the next
   integer. A case is: op, value imm, number of operands, operand values, number of observations, observation values. ---- *)
Definition zi (x : int) : Z := Uint63.to_Z x.

Fixpoint limbs (n : nat) (l : list int) : Z * list int :=
  match n with
  | O => (0, l)
  | S n' => match l with
            | [] => (0, [])
            | x :: l' => let '(v, r) := limbs n' l' in (zi x + 2 ^ 62 * v, r)
            end
  end.
Definition get_val (l : list int) : Z * list int :=
  match l with
  | [] => (0, [])
  | t :: l' => if zi t =? 9 then match l' with k :: r => (- zi k, r) | [] => (0, []) end
               else limbs (Z.to_nat (zi t)) l'
  end.
Fixpoint get_vals (n : nat) (l : list int) : list Z * list int :=
  match n with
  | O => ([], l)
  | S n' => let '(v, r) := get_val l in let '(vs, r') := get_vals n' r in (v :: vs, r')
  end.
Fixpoint decode (fuel : nat) (l : list int) : list case :=
  match fuel with
  | O => []
  | S f =>
    match l with
    | [] => []
    | op :: l1 =>
      let '(imm, l2) := get_val l1 in
      match l2 with
      | [] => []
      | na :: l3 =>
        let '(args, l4) := get_vals (Z.to_nat (zi na)) l3 in
        match l4 with
        | [] => []
        | no :: l5 => let '(obs, l6) := get_vals (Z.to_nat (zi no)) l5 in (zi op, imm, args, obs) :: decode f l6
        end
      end
    end
  end.
Definition mismatches_enc (enc : list int) : list (Z * Z) := mismatches 0 (decode (length enc) enc).
