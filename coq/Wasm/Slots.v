(* The value discipline of wazero's interpreter as a value domain for the reference semantics W:
   every value lives in an untyped 64-bit slot (val := Z), i32 values in zero-extended slots, and every
   scalar integer operator is what internal/engine/interpreter does for it:

     wasm opcode --(compiler.go: lower_OpcodeX, REGENERATED)--> unionOperation{Kind,B1,B2,B3}
                 --(interpreter.go: exec_op / exec_operationKindX, REGENERATED)--> effect on the slot stack

   Both tables live in coq/Gen/GenInterp.v, written by go2coq (stack-effect mode) from the working tree on
   every run; nothing about the operators is transcribed by hand here. This file only says which wasm
   opcode a constructor of Sem.v's unop/binop stands for. No proofs in this file. *)
From Coq Require Import ZArith List Bool.
From Verif Require Import Lib.GoInt Lib.GoBits Lib.StackEff Wasm.Numerics Wasm.Sem Gen.GenInterp.
Import ListNotations.
Open Scope Z_scope.

Definition pick (w : Z) (l32 l64 : lowered) : option lowered :=
  if w =? 32 then Some l32 else if w =? 64 then Some l64 else None.

(* Sem.v constructor -> wasm opcode -> what compiler.go emits for it *)
Definition lower_un (o : unop) : option lowered :=
  match o with
  | UInt w Clz => pick w lower_OpcodeI32Clz lower_OpcodeI64Clz
  | UInt w Ctz => pick w lower_OpcodeI32Ctz lower_OpcodeI64Ctz
  | UInt w Popcnt => pick w lower_OpcodeI32Popcnt lower_OpcodeI64Popcnt
  | UInt w Extend8S => pick w lower_OpcodeI32Extend8S lower_OpcodeI64Extend8S
  | UInt w Extend16S => pick w lower_OpcodeI32Extend16S lower_OpcodeI64Extend16S
  | UInt w Extend32S => if w =? 64 then Some lower_OpcodeI64Extend32S else None   (* no i32.extend32_s *)
  | UEqz w => pick w lower_OpcodeI32Eqz lower_OpcodeI64Eqz
  | UWrap => Some lower_OpcodeI32WrapI64
  | UExtS => Some lower_OpcodeI64ExtendI32S
  | UExtU => Some lower_OpcodeI64ExtendI32U
  end.

Definition lower_bin (o : binop) : option lowered :=
  match o with
  | BInt w Add => pick w lower_OpcodeI32Add lower_OpcodeI64Add
  | BInt w Sub => pick w lower_OpcodeI32Sub lower_OpcodeI64Sub
  | BInt w Mul => pick w lower_OpcodeI32Mul lower_OpcodeI64Mul
  | BInt w DivS => pick w lower_OpcodeI32DivS lower_OpcodeI64DivS
  | BInt w DivU => pick w lower_OpcodeI32DivU lower_OpcodeI64DivU
  | BInt w RemS => pick w lower_OpcodeI32RemS lower_OpcodeI64RemS
  | BInt w RemU => pick w lower_OpcodeI32RemU lower_OpcodeI64RemU
  | BInt w And => pick w lower_OpcodeI32And lower_OpcodeI64And
  | BInt w Or => pick w lower_OpcodeI32Or lower_OpcodeI64Or
  | BInt w Xor => pick w lower_OpcodeI32Xor lower_OpcodeI64Xor
  | BInt w Shl => pick w lower_OpcodeI32Shl lower_OpcodeI64Shl
  | BInt w ShrS => pick w lower_OpcodeI32ShrS lower_OpcodeI64ShrS
  | BInt w ShrU => pick w lower_OpcodeI32ShrU lower_OpcodeI64ShrU
  | BInt w Rotl => pick w lower_OpcodeI32Rotl lower_OpcodeI64Rotl
  | BInt w Rotr => pick w lower_OpcodeI32Rotr lower_OpcodeI64Rotr
  | BRel w Eq => pick w lower_OpcodeI32Eq lower_OpcodeI64Eq
  | BRel w Ne => pick w lower_OpcodeI32Ne lower_OpcodeI64Ne
  | BRel w LtS => pick w lower_OpcodeI32LtS lower_OpcodeI64LtS
  | BRel w LtU => pick w lower_OpcodeI32LtU lower_OpcodeI64LtU
  | BRel w GtS => pick w lower_OpcodeI32GtS lower_OpcodeI64GtS
  | BRel w GtU => pick w lower_OpcodeI32GtU lower_OpcodeI64GtU
  | BRel w LeS => pick w lower_OpcodeI32LeS lower_OpcodeI64LeS
  | BRel w LeU => pick w lower_OpcodeI32LeU lower_OpcodeI64LeU
  | BRel w GeS => pick w lower_OpcodeI32GeS lower_OpcodeI64GeS
  | BRel w GeU => pick w lower_OpcodeI32GeU lower_OpcodeI64GeU
  end.

(* run the interpreter's case body on a stack holding exactly the operands (first popped = head) *)
Definition slot_un_eff (o : unop) (x : Z) : effect :=
  match lower_un o with Some l => exec_op l [x] | None => EOpaque end.
Definition slot_bin_eff (o : binop) (x y : Z) : effect :=
  match lower_bin o with Some l => exec_op l [y; x] | None => EOpaque end.

(* W's domain record wants total functions: a unary operator yields a value, a binary one a value or a
   trap. Every other outcome (no such opcode, float path, Go panic, wrong stack shape) is mapped to a
   default here; C01_slot_ops_refine shows that it does not occur on operands that are well-formed for the
   operator, which is all the machine theorem uses. *)
Definition slot_un (o : unop) (x : Z) : Z :=
  match slot_un_eff o x with Eff [r] => r | _ => 0 end.
Definition slot_bin (o : binop) (x y : Z) : option Z :=
  match slot_bin_eff o x y with Eff [r] => Some r | _ => None end.

(* constants are stored zero-extended (ConstI32: U1 = uint64(uint32(c))); conditions are tested on the
   whole slot (BrIf: `ce.popValue() > 0`, Select: `c == 0`), memory.grow takes uint32(v) *)
Definition Slot : domain :=
  {| val := Z; of_const := fun w c => wrap w c; d_un := slot_un; d_bin := slot_bin;
     truthy := fun s => negb (s =? 0); to_u32 := fun s => wrap 32 s; to_bits := fun s => s;
     of_bits := fun _ b => b |}.

(* Slot, Spec and SpecG (below) differ in their operators only: each is (convertible to) an instance of *)
Definition zdom (un : unop -> Z -> Z) (bin : binop -> Z -> Z -> option Z) : domain :=
  {| val := Z; of_const := fun w c => modN w c; d_un := un; d_bin := bin;
     truthy := fun x => negb (x =? 0); to_u32 := fun x => modN 32 x; to_bits := fun x => x; of_bits := fun _ b => b |}.

(* ---- what "well-formed for the operator" means: the widths of operands and results ---- *)
Definition wf (w x : Z) : Prop := 0 <= x < 2 ^ w.
Definition wfb (w x : Z) : bool := (0 <=? x) && (x <? 2 ^ w).

Definition width_ok (w : Z) : bool := (w =? 32) || (w =? 64).
Definition valid_un (o : unop) : bool :=
  match o with
  | UInt w Extend32S => w =? 64
  | UInt w _ | UEqz w => width_ok w
  | UWrap | UExtS | UExtU => true
  end.
Definition valid_bin (o : binop) : bool :=
  match o with BInt w _ | BRel w _ => width_ok w end.

Definition un_in (o : unop) : Z :=
  match o with UInt w _ | UEqz w => w | UWrap => 64 | UExtS | UExtU => 32 end.
Definition un_out (o : unop) : Z :=
  match o with UInt w _ => w | UEqz _ | UWrap => 32 | UExtS | UExtU => 64 end.
Definition bin_in (o : binop) : Z := match o with BInt w _ | BRel w _ => w end.
Definition bin_out (o : binop) : Z := match o with BInt w _ => w | BRel _ _ => 32 end.

(* ---- the specification, made total outside its domain ----
   The specification's operators are defined on operands of the operator's type only; a validated program
   never applies them to anything else. [SpecG] is [Spec] with that left open: on an operator that is not
   a wasm opcode, or on an operand that is not a value of the operand type, it is *unspecified*, and any
   total choice is a legitimate completion; we take the implementation's. On well-typed applications it
   is the specification, literally (SlotsP.specg_un_on_wf / specg_bin_on_wf). *)
Definition specg_un (o : unop) (x : Z) : Z :=
  if valid_un o && wfb (un_in o) x then spec_un o x else slot_un o x.
Definition specg_bin (o : binop) (x y : Z) : option Z :=
  if valid_bin o && wfb (bin_in o) x && wfb (bin_in o) y then spec_bin o x y else slot_bin o x y.
Definition SpecG : domain :=
  {| val := Z; of_const := fun w c => modN w c; d_un := specg_un; d_bin := specg_bin;
     truthy := fun x => negb (x =? 0); to_u32 := fun x => modN 32 x; to_bits := fun x => x; of_bits := fun _ b => b |}.

(* stores of two domains whose values are integers, compared field by field *)
Definition store_eq {D1 D2 : domain} (cv : val D1 -> val D2 -> Prop) (s1 : store D1) (s2 : store D2) : Prop :=
  s_funcs s1 = s_funcs s2 /\ s_insts s1 = s_insts s2 /\ s_tabs s1 = s_tabs s2 /\ s_mems s1 = s_mems s2 /\
  Forall2 cv (s_globals s1) (s_globals s2) /\
  Forall2 (fun e1 e2 =>
    match e1, e2 with
    | EHost h a, EHost k b => h = k /\ Forall2 cv a b
    | EBefore f a, EBefore g b => f = g /\ Forall2 cv a b
    | EAfter f a, EAfter g b => f = g /\ Forall2 cv a b
    | EAbort f, EAbort g => f = g
    | _, _ => False
    end) (s_log s1) (s_log s2).
