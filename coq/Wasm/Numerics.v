(* WebAssembly integer numerics (spec side), written from the core specification's definitions,
   NOT from wazero's code. Values of iN are represented by their unsigned value 0 <= z < 2^N.
   Used by the reference semantics (Wasm/Sem.v) and by C05/C01. No proofs in this file. *)
From Coq Require Import ZArith Bool List.
Import ListNotations.
Open Scope Z_scope.

Definition modN (N z : Z) : Z := z mod 2 ^ N.
(* signed interpretation *)
Definition sgn (N x : Z) : Z := if x <? 2 ^ (N - 1) then x else x - 2 ^ N.

Definition iadd N a b := modN N (a + b).
Definition isub N a b := modN N (a - b).
Definition imul N a b := modN N (a * b).

(* None = trap *)
Definition idiv_u (N a b : Z) : option Z := if b =? 0 then None else Some (a / b).
Definition irem_u (N a b : Z) : option Z := if b =? 0 then None else Some (a mod b).
Definition idiv_s (N a b : Z) : option Z :=
  if b =? 0 then None
  else let q := Z.quot (sgn N a) (sgn N b) in
       if q =? 2 ^ (N - 1) then None else Some (modN N q).
Definition irem_s (N a b : Z) : option Z :=
  if b =? 0 then None else Some (modN N (Z.rem (sgn N a) (sgn N b))).

Definition iand (N a b : Z) := Z.land a b.
Definition ior (N a b : Z) := Z.lor a b.
Definition ixor (N a b : Z) := Z.lxor a b.

Definition ishl N a b := modN N (a * 2 ^ (b mod N)).
Definition ishr_u N a b := a / 2 ^ (b mod N).
Definition ishr_s N a b := modN N (sgn N a / 2 ^ (b mod N)).
Definition irotl N a b := let k := b mod N in modN N (a * 2 ^ k) + a / 2 ^ (N - k).
Definition irotr N a b := let k := b mod N in a / 2 ^ k + modN N (a * 2 ^ (N - k)).

Definition iclz N a := if a =? 0 then N else N - 1 - Z.log2 a.
Fixpoint ctz_fuel (f : nat) (a : Z) : Z :=
  match f with
  | O => 0
  | S f' => if Z.odd a then 0 else 1 + ctz_fuel f' (a / 2)
  end.
Definition ictz N a := if a =? 0 then N else ctz_fuel (Z.to_nat N) a.
Fixpoint popcnt_fuel (f : nat) (a : Z) : Z :=
  match f with
  | O => 0
  | S f' => (if Z.odd a then 1 else 0) + popcnt_fuel f' (a / 2)
  end.
Definition ipopcnt N a := popcnt_fuel (Z.to_nat N) a.

Definition b2z (b : bool) : Z := if b then 1 else 0.
Definition ieqz (N a : Z) := b2z (a =? 0).
Definition ieq (N a b : Z) := b2z (a =? b).
Definition ine (N a b : Z) := b2z (negb (a =? b)).
Definition ilt_u (N a b : Z) := b2z (a <? b).
Definition ilt_s N a b := b2z (sgn N a <? sgn N b).
Definition igt_u (N a b : Z) := b2z (b <? a).
Definition igt_s N a b := b2z (sgn N b <? sgn N a).
Definition ile_u (N a b : Z) := b2z (a <=? b).
Definition ile_s N a b := b2z (sgn N a <=? sgn N b).
Definition ige_u (N a b : Z) := b2z (b <=? a).
Definition ige_s N a b := b2z (sgn N b <=? sgn N a).

(* sign-extension operators iN.extendM_s *)
Definition iextend_s (M N a : Z) := modN N (sgn M (modN M a)).
Definition wrap_i64 (a : Z) := modN 32 a.
Definition extend_i32_s (a : Z) := modN 64 (sgn 32 a).
Definition extend_i32_u (a : Z) := a.

(* ---- operator syntax shared by the reference semantics and the slot machine ---- *)
Inductive iunop := Clz | Ctz | Popcnt | Extend8S | Extend16S | Extend32S.
Inductive ibinop := Add | Sub | Mul | DivS | DivU | RemS | RemU | And | Or | Xor | Shl | ShrS | ShrU | Rotl | Rotr.
Inductive irelop := Eq | Ne | LtS | LtU | GtS | GtU | LeS | LeU | GeS | GeU.

Definition eval_iunop (N : Z) (o : iunop) (a : Z) : Z :=
  match o with
  | Clz => iclz N a | Ctz => ictz N a | Popcnt => ipopcnt N a
  | Extend8S => iextend_s 8 N a | Extend16S => iextend_s 16 N a | Extend32S => iextend_s 32 N a
  end.

Definition eval_ibinop (N : Z) (o : ibinop) (a b : Z) : option Z :=
  match o with
  | Add => Some (iadd N a b) | Sub => Some (isub N a b) | Mul => Some (imul N a b)
  | DivS => idiv_s N a b | DivU => idiv_u N a b | RemS => irem_s N a b | RemU => irem_u N a b
  | And => Some (iand N a b) | Or => Some (ior N a b) | Xor => Some (ixor N a b)
  | Shl => Some (ishl N a b) | ShrS => Some (ishr_s N a b) | ShrU => Some (ishr_u N a b)
  | Rotl => Some (irotl N a b) | Rotr => Some (irotr N a b)
  end.

Definition eval_irelop (N : Z) (o : irelop) (a b : Z) : Z :=
  match o with
  | Eq => ieq N a b | Ne => ine N a b
  | LtS => ilt_s N a b | LtU => ilt_u N a b | GtS => igt_s N a b | GtU => igt_u N a b
  | LeS => ile_s N a b | LeU => ile_u N a b | GeS => ige_s N a b | GeU => ige_u N a b
  end.
