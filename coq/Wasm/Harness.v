(* Executable glue between the reference semantics and the correspondence harnesses: the standard
   deterministic host function (mirrors harness/common/run.go StdHost), projections of outcomes,
   and comparison of a model run with the observations of an engine. No proofs in this file. *)
From Coq Require Import ZArith List Bool.
From Verif Require Import Wasm.Numerics Wasm.Sem.
Import ListNotations.
Open Scope Z_scope.

Fixpoint sumz (l : list Z) : Z := match l with [] => 0 | x :: r => x + sumz r end.

Fixpoint std_results (base : Z) (i : Z) (ws : list Z) : list Z :=
  match ws with [] => [] | w :: r => modN w (base + i) :: std_results base (i + 1) r end.

(* hres: result widths of host function h *)
Definition std_host (hres : nat -> list Z) (h : nat) (args : list Z) : hostres Z :=
  HRet (std_results (modN 64 (sumz args) + 7 * Z.of_nat h + 1) 0 (hres h)).

Definition hres_of (l : list (list Z)) (h : nat) : list Z := nth h l [].

(* observation of one call as the harness reports it *)
Inductive obs := ORes (vs : list Z) | OTrap (k : Z) | OAny. (* OAny: values or an exit (call on a module closed by an earlier exit) *)
(* trap classes: 1 unreachable, 2 integer division, 3 out of bounds, 4 indirect call, 5 exhaustion,
   6 host panic, 7 exit, 0 other *)
Definition trap_code (t : trapk) : Z :=
  match t with
  | TUnreachable => 1 | TDiv => 2 | TOob => 3 | TIndirect => 4 | TExhaust => 5
  | THostPanic _ => 6 | TExit c => 7 + 100 * c | TStuck => 99
  end.

Fixpoint zlist_eqb (a b : list Z) : bool :=
  match a, b with
  | [], [] => true
  | x :: a', y :: b' => (x =? y) && zlist_eqb a' b'
  | _, _ => false
  end.

Definition obs_match (r : result Spec) (o : obs) : bool :=
  match r, o with
  | RVals vs, ORes ws => zlist_eqb vs ws
  | RTrap t, OTrap k => trap_code t =? k
  | RVals _, OAny => true
  | RTrap (TExit _), OAny => true
  | _, _ => false
  end.

Fixpoint has_fuel_out (rs : list (result Spec)) : bool :=
  match rs with [] => false | RFuel :: _ => true | _ :: r => has_fuel_out r end.

Fixpoint first_obs_diff (i : Z) (rs : list (result Spec)) (os : list obs) : Z :=
  match rs, os with
  | [], [] => -1
  | r :: rr, o :: oo => if obs_match r o then first_obs_diff (i + 1) rr oo else i
  | _, _ => i
  end.

(* host-call log: (h, args) *)
Fixpoint host_events (l : list (event Z)) : list (Z * list Z) :=
  match l with
  | [] => []
  | EHost h args :: r => (Z.of_nat h, args) :: host_events r
  | _ :: r => host_events r
  end.
Fixpoint hlog_eqb (a b : list (Z * list Z)) : bool :=
  match a, b with
  | [], [] => true
  | (h, x) :: a', (k, y) :: b' => (h =? k) && zlist_eqb x y && hlog_eqb a' b'
  | _, _ => false
  end.

(* sparse memory equality: model cells vs the engine's non-zero bytes *)
Fixpoint lookup (d : list (Z * Z)) (a : Z) : Z :=
  match d with [] => 0 | (k, v) :: r => if k =? a then v else lookup r a end.
Definition mem_agree (model : list (Z * Z)) (impl : list (Z * Z)) : bool :=
  forallb (fun kv => rd model (fst kv) =? lookup impl (fst kv)) model &&
  forallb (fun kv => rd model (fst kv) =? snd kv) impl.

(* listener events, flattened: kind (0 before, 1 after, 2 abort), function, values *)
Fixpoint listener_events (l : list (event Z)) : list (Z * Z * list Z) :=
  match l with
  | [] => []
  | EBefore f a :: r => (0, Z.of_nat f, a) :: listener_events r
  | EAfter f a :: r => (1, Z.of_nat f, a) :: listener_events r
  | EAbort f :: r => (2, Z.of_nat f, []) :: listener_events r
  | EHost _ _ :: r => listener_events r
  end.
Fixpoint lev_eqb (a b : list (Z * Z * list Z)) : bool :=
  match a, b with
  | [], [] => true
  | (k, f, x) :: a', (k', f', y) :: b' => (k =? k') && (f =? f') && zlist_eqb x y && lev_eqb a' b'
  | _, _ => false
  end.

(* a differential case: store, host result widths, calls, and what an engine observed *)
Record dcase := {
  d_store : store Spec;
  d_hres : list (list Z);
  d_calls : list (nat * list Z);
  d_obs : list obs;
  d_hlog : list (Z * list Z);
  d_globals : list Z;
  d_mem : list (Z * Z);         (* non-zero bytes of memory 0 *)
  d_pages : Z }.

Definition FUEL : nat := Z.to_nat 300000.
Definition MAXDEPTH : nat := Z.to_nat 400.

(* -1 agree; -3 model ran out of fuel (case skipped); i >= 0 index of the first differing call;
   1000 host log, 1001 globals, 1002 memory, 1003 pages *)
Definition check_dcase (c : dcase) : Z :=
  let '(s, rs) := run_calls Spec (std_host (hres_of (d_hres c))) (fun _ => false) MAXDEPTH FUEL (d_store c) (d_calls c) in
  if has_fuel_out rs then -3 else
  let d := first_obs_diff 0 rs (d_obs c) in
  if negb (d =? -1) then d else
  if negb (hlog_eqb (host_events (s_log s)) (d_hlog c)) then 1000 else
  if negb (zlist_eqb (s_globals s) (d_globals c)) then 1001 else
  match s_mems s with
  | m :: _ => if negb (mem_agree (mdata m) (d_mem c)) then 1002
              else if negb (mlen m / 65536 =? d_pages c) then 1003 else -1
  | [] => -1
  end.

Fixpoint dmismatches (i : Z) (cs : list dcase) : list (Z * Z) :=
  match cs with
  | [] => []
  | c :: r => let d := check_dcase c in
              if d =? -1 then dmismatches (i + 1) r else (i, d) :: dmismatches (i + 1) r
  end.

(* ---- listener cases (C20): the same differential case run with a listener set, plus the observed events ---- *)
Record lcase := { l_case : dcase; l_mask : list bool; l_events : list (Z * Z * list Z) }.

(* -1 agree; -3 out of fuel; i >= 0 first differing call; 2000 event stream; other codes as check_dcase *)
Definition check_lcase (lc : lcase) : Z :=
  let c := l_case lc in
  let '(s, rs) := run_calls Spec (std_host (hres_of (d_hres c))) (fun fa => nth fa (l_mask lc) false) MAXDEPTH FUEL (d_store c) (d_calls c) in
  if has_fuel_out rs then -3 else
  let d := first_obs_diff 0 rs (d_obs c) in
  if negb (d =? -1) then d else
  if negb (lev_eqb (listener_events (s_log s)) (l_events lc)) then 2000 else
  if negb (hlog_eqb (host_events (s_log s)) (d_hlog c)) then 1000 else
  if negb (zlist_eqb (s_globals s) (d_globals c)) then 1001 else -1.

Fixpoint lmismatches (i : Z) (cs : list lcase) : list (Z * Z) :=
  match cs with
  | [] => []
  | c :: r => let d := check_lcase c in
              if d =? -1 then lmismatches (i + 1) r else (i, d) :: lmismatches (i + 1) r
  end.

(* ---- failure cases (C06): host functions that panic (h = 10), exit (h = 11), re-enter the guest (h = 12) or propagate the exit of another instance (h = 13) ---- *)
Definition fail_host (hres : nat -> list Z) (reent : nat) (h : nat) (args : list Z) : hostres Z :=
  match h with
  | 10%nat => if (hd 0 args) mod 2 =? 0 then HPanic (hd 0 args) else HRet []
  | 11%nat => if (hd 0 args) mod 4 =? 0 then HExit (hd 0 args) else HRet []
  | 12%nat => HReenter reent args
  | 13%nat => if (hd 0 args) mod 4 =? 0 then HExit (hd 0 args) else HRet []   (* exit of a nested helper instance, propagated by the host: same error, the caller's module stays open *)
  | _ => std_host hres h args
  end.

Record fcase := { f_case : dcase; f_reent : nat }.

Definition check_fcase (fc : fcase) : Z :=
  let c := f_case fc in
  let '(s, rs) := run_calls Spec (fail_host (hres_of (d_hres c)) (f_reent fc)) (fun _ => false) MAXDEPTH FUEL (d_store c) (d_calls c) in
  if has_fuel_out rs then -3 else
  let d := first_obs_diff 0 rs (d_obs c) in
  if negb (d =? -1) then d else
  if negb (hlog_eqb (host_events (s_log s)) (d_hlog c)) then 1000 else
  if negb (zlist_eqb (s_globals s) (d_globals c)) then 1001 else
  match s_mems s with
  | m :: _ => if negb (mem_agree (mdata m) (d_mem c)) then 1002
              else if negb (mlen m / 65536 =? d_pages c) then 1003 else -1
  | [] => -1
  end.

Fixpoint fmismatches (i : Z) (cs : list fcase) : list (Z * Z) :=
  match cs with
  | [] => []
  | c :: r => let d := check_fcase c in
              if d =? -1 then fmismatches (i + 1) r else (i, d) :: fmismatches (i + 1) r
  end.
