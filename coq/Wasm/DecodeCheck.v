(* C03: support for the DecodeModule correspondence run. The check passes module bytes packed seven
   to a primitive 63-bit integer (fast to parse); they are unpacked here and the model of
   coq/Wasm/Decode.v is evaluated on them by vm_compute. Primitive integers are used ONLY in this
   file (input transport); no theorem depends on it. Definitions only. *)
From Coq Require Import Uint63.
From Verif Require Import Lib.GoInt Wasm.Leb Wasm.Decode.
Open Scope Z_scope.

Fixpoint small (k : nat) (i : int) : Z :=
  match k with
  | O => 0
  | S k' => Z.double (small k' (Uint63.lsr i 1)) + (if Uint63.eqb (Uint63.land i 1) 0 then 0 else 1)
  end.
(* the n (<= 7) bytes packed big-endian in w *)
Fixpoint word_bytes (n : nat) (w : int) (acc : list Z) : list Z :=
  match n with
  | O => acc
  | S n' => word_bytes n' (Uint63.lsr w 8) (small 8 (Uint63.land w 255) :: acc)
  end.
Fixpoint unpack (n : Z) (ws : list int) : list Z :=
  match ws with
  | nil => nil
  | w :: r => word_bytes (Z.to_nat (Z.min 7 n)) w nil ++ unpack (n - 7) r
  end.

(* a case: length, packed bytes, did binary.DecodeModule accept, TotalAlloc delta (-1: not observed,
   the child died); result per case: 256 * hot + 16 * (model accepts) + code, code as check_dcase
   (0 agree, 1 accept/reject differs, 2 model out of fuel, 3 allocated less than the model charges) *)
Definition pcase := (Z * list int * bool * Z)%type.
Definition eval_pcase (c : pcase) : Z :=
  let '(n, ws, acc, alloc) := c in
  let bs := unpack n ws in
  let r := DecodeModule coded bs in
  let code := if out_of_fuel r then 2
              else if alloc <? 0 then 0
              else if negb (Bool.eqb (accepted r) acc) then 1
              else if alloc <? ag (cost_of r) + au (cost_of r) then 3 else 0 in
  256 * hot (cost_of r) + (if accepted r then 16 else 0) + code.
Definition eval_pcases (cs : list pcase) : list Z := map eval_pcase cs.
