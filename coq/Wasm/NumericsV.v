(* WebAssembly vector (v128) numerics, spec side. A v128 value is the unsigned integer 0 <= v < 2^128 of its
   little-endian bytes; lane 0 is the least significant. Every operator is DEFINED as the lane-wise application
   of a scalar definition (Numerics.v / NumericsF.v) through split_lanes / join_lanes. No proofs in this file. *)
From Coq Require Import ZArith Bool List.
From Verif Require Import Wasm.Numerics Wasm.NumericsF.
Import ListNotations.
Open Scope Z_scope.

(* ---- lanes ---- *)
(* lane i of v is (v / 2^(w*i)) mod 2^w; written with land / shiftr (= mod / div by 2^w, see
   Proofs: split_lanes_spec) because Z.modulo on 128-bit numbers is slow under vm_compute *)
Fixpoint split_lanes (n : nat) (w v : Z) : list Z :=
  match n with
  | O => []
  | S n' => Z.land v (Z.ones w) :: split_lanes n' w (Z.shiftr v w)
  end.
Fixpoint join_lanes (w : Z) (l : list Z) : Z :=
  match l with
  | [] => 0
  | x :: r => modN w x + 2 ^ w * join_lanes w r
  end.
Definition nlanes (w : Z) : nat := Z.to_nat (128 / w).
Definition lanes (w v : Z) : list Z := split_lanes (nlanes w) w v.

Fixpoint map2 {A B C} (f : A -> B -> C) (l1 : list A) (l2 : list B) : list C :=
  match l1, l2 with
  | a :: r1, b :: r2 => f a b :: map2 f r1 r2
  | _, _ => []
  end.

Definition lanewise1 (w : Z) (f : Z -> Z) (a : Z) : Z := join_lanes w (map f (lanes w a)).
Definition lanewise2 (w : Z) (f : Z -> Z -> Z) (a b : Z) : Z := join_lanes w (map2 f (lanes w a) (lanes w b)).
Definition lanewise3 (w : Z) (f : Z -> Z -> Z -> Z) (a b c : Z) : Z :=
  join_lanes w (map2 (fun x yz => f x (fst yz) (snd yz)) (lanes w a) (combine (lanes w b) (lanes w c))).

(* ---- scalar lane operators that the scalar instruction set does not already name ---- *)
Definition sat_s (N x : Z) : Z := modN N (if x <? - 2 ^ (N - 1) then - 2 ^ (N - 1) else if 2 ^ (N - 1) - 1 <? x then 2 ^ (N - 1) - 1 else x).
Definition sat_u (N x : Z) : Z := if x <? 0 then 0 else if 2 ^ N - 1 <? x then 2 ^ N - 1 else x.

Definition ineg N a := isub N 0 a.
Definition iabs N a := if sgn N a <? 0 then modN N (- sgn N a) else a.
Definition imin_s N a b := if sgn N a <? sgn N b then a else b.
Definition imin_u (N a b : Z) := if a <? b then a else b.
Definition imax_s N a b := if sgn N b <? sgn N a then a else b.
Definition imax_u (N a b : Z) := if b <? a then a else b.
Definition iavgr_u (N a b : Z) := (a + b + 1) / 2.
Definition iadd_sat_s N a b := sat_s N (sgn N a + sgn N b).
Definition iadd_sat_u N a b := sat_u N (a + b).
Definition isub_sat_s N a b := sat_s N (sgn N a - sgn N b).
Definition isub_sat_u N a b := sat_u N (a - b).
Definition iq15mulr_sat_s a b := sat_s 16 ((sgn 16 a * sgn 16 b + 2 ^ 14) / 2 ^ 15).
Definition inot N a := 2 ^ N - 1 - a.
Definition iandnot N a b := iand N a (inot N b).
Definition ibitselect N a b c := ior N (iand N a c) (iand N b (inot N c)).
(* lane comparison results are all ones / all zeros *)
Definition mask_of (N b : Z) : Z := b * (2 ^ N - 1).
Definition icmp N (o : irelop) a b := mask_of N (eval_irelop N o a b).
Definition fcmp w (o : frelop) a b := mask_of w (eval_frelop w o a b).

(* ---- lane-wise integer operators; w is the lane width ---- *)
Definition v_add w := lanewise2 w (iadd w).
Definition v_sub w := lanewise2 w (isub w).
Definition v_mul w := lanewise2 w (imul w).
Definition v_neg w := lanewise1 w (ineg w).
Definition v_abs w := lanewise1 w (iabs w).
Definition v_min_s w := lanewise2 w (imin_s w).
Definition v_min_u w := lanewise2 w (imin_u w).
Definition v_max_s w := lanewise2 w (imax_s w).
Definition v_max_u w := lanewise2 w (imax_u w).
Definition v_avgr_u w := lanewise2 w (iavgr_u w).
Definition v_add_sat_s w := lanewise2 w (iadd_sat_s w).
Definition v_add_sat_u w := lanewise2 w (iadd_sat_u w).
Definition v_sub_sat_s w := lanewise2 w (isub_sat_s w).
Definition v_sub_sat_u w := lanewise2 w (isub_sat_u w).
Definition v_popcnt w := lanewise1 w (ipopcnt w).
Definition v_q15mulr_sat_s := lanewise2 16 iq15mulr_sat_s.
(* the shift count is one i32 for all lanes, taken modulo the lane width by the scalar operator *)
Definition v_shl w a s := lanewise1 w (fun x => ishl w x s) a.
Definition v_shr_s w a s := lanewise1 w (fun x => ishr_s w x s) a.
Definition v_shr_u w a s := lanewise1 w (fun x => ishr_u w x s) a.
Definition v_cmp w o := lanewise2 w (icmp w o).
Definition v_fcmp w o := lanewise2 w (fcmp w o).
(* bitwise operators are lane-wise at any width; 64 is used *)
Definition v_not := lanewise1 64 (inot 64).
Definition v_and := lanewise2 64 (iand 64).
Definition v_or := lanewise2 64 (ior 64).
Definition v_xor := lanewise2 64 (ixor 64).
Definition v_andnot := lanewise2 64 (iandnot 64).
Definition v_bitselect := lanewise3 64 (ibitselect 64).

Definition v_any_true (a : Z) : Z := b2z (negb (forallb (fun x => x =? 0) (lanes 8 a))).
Definition v_all_true (w a : Z) : Z := b2z (forallb (fun x => negb (x =? 0)) (lanes w a)).
(* bit i of the result is the sign bit of lane i *)
Fixpoint bitmask_of (w : Z) (l : list Z) : Z :=
  match l with [] => 0 | x :: r => x / 2 ^ (w - 1) + 2 * bitmask_of w r end.
Definition v_bitmask (w a : Z) : Z := bitmask_of w (lanes w a).

(* ---- lane construction and movement ---- *)
Definition v_splat (w x : Z) : Z := join_lanes w (repeat x (nlanes w)).
Definition v_extract_u (w i a : Z) : Z := nth (Z.to_nat i) (lanes w a) 0.
(* extract_lane_s exists for 8- and 16-bit lanes and sign-extends to i32 *)
Definition v_extract_s (w i a : Z) : Z := iextend_s w 32 (v_extract_u w i a).
Fixpoint set_nth (n : nat) (x : Z) (l : list Z) : list Z :=
  match l with
  | [] => []
  | y :: r => match n with O => x :: r | S n' => y :: set_nth n' x r end
  end.
Definition v_replace (w i a x : Z) : Z := join_lanes w (set_nth (Z.to_nat i) x (lanes w a)).
Definition v_swizzle (a s : Z) : Z :=
  join_lanes 8 (map (fun i => if i <? 16 then nth (Z.to_nat i) (lanes 8 a) 0 else 0) (lanes 8 s)).
(* imm: the 16 lane indices (< 32) packed like a v128 *)
Definition v_shuffle (imm a b : Z) : Z :=
  join_lanes 8 (map (fun i => nth (Z.to_nat i) (lanes 8 a ++ lanes 8 b) 0) (lanes 8 imm)).

(* ---- width-changing operators; w is the NARROW lane width ---- *)
Definition v_narrow_s (w a b : Z) : Z := join_lanes w (map (fun x => sat_s w (sgn (2 * w) x)) (lanes (2 * w) a ++ lanes (2 * w) b)).
Definition v_narrow_u (w a b : Z) : Z := join_lanes w (map (fun x => sat_u w (sgn (2 * w) x)) (lanes (2 * w) a ++ lanes (2 * w) b)).
Definition low_half (w a : Z) : list Z := firstn (nlanes (2 * w)) (lanes w a).
Definition high_half (w a : Z) : list Z := skipn (nlanes (2 * w)) (lanes w a).
Definition half (high : bool) (w a : Z) : list Z := if high then high_half w a else low_half w a.
Definition ext (signed : bool) (w x : Z) : Z := if signed then iextend_s w (2 * w) x else x.
Definition v_extend (signed high : bool) (w a : Z) : Z := join_lanes (2 * w) (map (ext signed w) (half high w a)).
Definition v_extmul (signed high : bool) (w a b : Z) : Z :=
  join_lanes (2 * w) (map2 (fun x y => imul (2 * w) (ext signed w x) (ext signed w y)) (half high w a) (half high w b)).
Fixpoint pairs (l : list Z) : list (Z * Z) :=
  match l with x :: y :: r => (x, y) :: pairs r | _ => [] end.
Definition v_extadd_pairwise (signed : bool) (w a : Z) : Z :=
  join_lanes (2 * w) (map (fun p => iadd (2 * w) (ext signed w (fst p)) (ext signed w (snd p))) (pairs (lanes w a))).
Definition v_dot (a b : Z) : Z :=
  join_lanes 32 (map (fun p => iadd 32 (fst p) (snd p))
                     (pairs (map2 (fun x y => imul 32 (ext true 16 x) (ext true 16 y)) (lanes 16 a) (lanes 16 b)))).
