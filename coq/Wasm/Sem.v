(* Reference semantics W: a definitional interpreter (explicit fuel) for the WebAssembly subset the
   program generator emits, over a store with several instances (shared memories/tables/globals by
   store address), logging host calls and function-listener events. Written from the specification,
   not from wazero's engines. Parameterised by the value domain (typed spec values vs. the
   interpreter's 64-bit slots: C01). No proofs in this file. *)
From Coq Require Import ZArith List Bool.
From Verif Require Import Wasm.Numerics.
Import ListNotations.
Open Scope Z_scope.

(* ---------------------------------------------------------------- syntax *)
Inductive unop :=
| UInt (w : Z) (o : iunop) | UEqz (w : Z) | UWrap | UExtS | UExtU.
Inductive binop :=
| BInt (w : Z) (o : ibinop) | BRel (w : Z) (o : irelop).

Inductive instr :=
| Const (w : Z) (c : Z)                    (* iN.const / fN.const as bit pattern; w = 32 | 64 *)
| Un (o : unop) | Bin (o : binop)
| Drop | Select | Nop | Unreachable
| LocalGet (i : nat) | LocalSet (i : nat) | LocalTee (i : nat)
| GlobalGet (i : nat) | GlobalSet (i : nat)
| Load (w : Z) (n : nat) (sx : bool) (off : Z)   (* result width w, n bytes, sign-extend *)
| Store (n : nat) (off : Z)
| MemorySize | MemoryGrow
| Block (np nr : nat) (body : list instr)
| Loop (np nr : nat) (body : list instr)
| If (np nr : nat) (t e : list instr)
| Br (n : nat) | BrIf (n : nat) | BrTable (ls : list nat) (d : nat)
| Return
| Call (f : nat)
| CallIndirect (ty : nat) .

(* ---------------------------------------------------------------- value domain *)
Record domain := {
  val : Type;
  of_const : Z -> Z -> val;                       (* width, bits *)
  d_un : unop -> val -> val;
  d_bin : binop -> val -> val -> option val;      (* None = trap (integer division) *)
  truthy : val -> bool;                           (* i32 condition *)
  to_u32 : val -> Z;                              (* address, table index, grow delta *)
  to_bits : val -> Z;                             (* raw bits for stores / observation (width given by context) *)
  of_bits : Z -> Z -> val;                        (* width, already-extended bits: loads, memory.size, host results *)
}.

Inductive trapk := TUnreachable | TDiv | TOob | TIndirect | TExhaust | TStuck | THostPanic (code : Z) | TExit (code : Z).

(* ---------------------------------------------------------------- store *)
Record inst := { i_funcs : list nat; i_globals : list nat; i_mem : option nat; i_tab : option nat;
                 i_types : list (list Z * list Z) }. (* type section: parameter / result widths *)

Inductive funcdef :=
| FWasm (ii : nat) (tp tr : list Z) (nlocals : nat) (body : list instr)   (* parameter / result widths *)
| FHost (h : nat) (tp tr : list Z).

Record memory := { mlen : Z; mmax : Z (* pages bound *); mdata : list (Z * Z) }.

Inductive event {V : Type} :=
| EHost (h : nat) (args : list V)
| EBefore (f : nat) (args : list V)
| EAfter (f : nat) (res : list V)
| EAbort (f : nat).
Arguments event : clear implicits.

(* what a host function does: return values, panic, exit, or call back a function (re-entrancy) *)
Inductive hostres {V : Type} :=
| HRet (vs : list V) | HPanic (code : Z) | HExit (code : Z) | HReenter (f : nat) (args : list V).
Arguments hostres : clear implicits.

Section Exec.
Variable D : domain.
Notation V := (val D).

Record store := { s_funcs : list funcdef; s_insts : list inst; s_globals : list V; s_mems : list memory;
                  s_tabs : list (list (option nat)); s_log : list (event V) }.

Variable host : nat -> list V -> hostres V.
Variable listened : nat -> bool.                    (* store function addresses with a listener *)
Variable maxdepth : nat.

Fixpoint list_eqb (a b : list Z) : bool :=
  match a, b with
  | [], [] => true
  | x :: a', y :: b' => (x =? y) && list_eqb a' b'
  | _, _ => false
  end.

Definition upd {A} (l : list A) (i : nat) (x : A) : list A :=
  if Nat.ltb i (length l) then firstn i l ++ x :: skipn (S i) l else l.

Fixpoint rd (d : list (Z * Z)) (a : Z) : Z :=
  match d with [] => 0 | (k, v) :: r => if k =? a then v else rd r a end.
Fixpoint rd_le (d : list (Z * Z)) (a : Z) (n : nat) : Z :=
  match n with O => 0 | S k => rd d a + 256 * rd_le d (a + 1) k end.
Fixpoint wr_le (d : list (Z * Z)) (a : Z) (n : nat) (v : Z) : list (Z * Z) :=
  match n with O => d | S k => (a, v mod 256) :: wr_le d (a + 1) k (v / 256) end.

Definition sext (n : nat) (w v : Z) : Z := modN w (sgn (8 * Z.of_nat n) v).

(* frame-local state *)
Record frame := { stack : list V; locals : list V }.

Definition set_log (s : store) (l : list (event V)) : store :=
  {| s_funcs := s_funcs s; s_insts := s_insts s; s_globals := s_globals s; s_mems := s_mems s; s_tabs := s_tabs s; s_log := l |}.
Definition add_log (s : store) (e : event V) : store := set_log s (s_log s ++ [e]).
Definition set_globals (s : store) (g : list V) : store :=
  {| s_funcs := s_funcs s; s_insts := s_insts s; s_globals := g; s_mems := s_mems s; s_tabs := s_tabs s; s_log := s_log s |}.
Definition set_mems (s : store) (m : list memory) : store :=
  {| s_funcs := s_funcs s; s_insts := s_insts s; s_globals := s_globals s; s_mems := m; s_tabs := s_tabs s; s_log := s_log s |}.

Inductive out :=
| Normal (s : store) (f : frame)
| Branch (n : nat) (s : store) (f : frame)
| Ret (s : store) (f : frame)
| Trap (t : trapk) (s : store)
| OutOfFuel.

Definition the_inst (s : store) (ii : nat) : inst :=
  nth ii (s_insts s) {| i_funcs := []; i_globals := []; i_mem := None; i_tab := None; i_types := [] |}.

Definition setstack (f : frame) (stk : list V) : frame := {| stack := stk; locals := locals f |}.

Definition zeros (n : nat) : list V := repeat (of_const D 64 0) n.

(* instructions without control flow or calls: one step on (store, frame) *)
Inductive sres := SOk (s : store) (f : frame) | STrap (t : trapk) | SNot.

Definition the_mem (s : store) (ii : nat) : option (nat * memory) :=
  match i_mem (the_inst s ii) with
  | Some ma => match nth_error (s_mems s) ma with Some m => Some (ma, m) | None => None end
  | None => None
  end.

Definition step_simple (ii : nat) (s : store) (f : frame) (i : instr) : sres :=
  let me := the_inst s ii in
  match i, stack f with
  | Nop, _ => SOk s f
  | Unreachable, _ => STrap TUnreachable
  | Const w c, stk => SOk s (setstack f (of_const D w c :: stk))
  | Un o, x :: stk => SOk s (setstack f (d_un D o x :: stk))
  | Bin o, y :: x :: stk =>
      match d_bin D o x y with
      | Some v => SOk s (setstack f (v :: stk))
      | None => STrap TDiv
      end
  | Drop, _ :: stk => SOk s (setstack f stk)
  | Select, c :: b :: a :: stk => SOk s (setstack f ((if truthy D c then a else b) :: stk))
  | LocalGet k, stk =>
      match nth_error (locals f) k with
      | Some v => SOk s (setstack f (v :: stk)) | None => STrap TStuck end
  | LocalSet k, v :: stk => SOk s {| stack := stk; locals := upd (locals f) k v |}
  | LocalTee k, v :: stk => SOk s {| stack := v :: stk; locals := upd (locals f) k v |}
  | GlobalGet k, stk =>
      match nth_error (i_globals me) k with
      | Some ga => match nth_error (s_globals s) ga with
                   | Some v => SOk s (setstack f (v :: stk)) | None => STrap TStuck end
      | None => STrap TStuck end
  | GlobalSet k, v :: stk =>
      match nth_error (i_globals me) k with
      | Some ga => SOk (set_globals s (upd (s_globals s) ga v)) (setstack f stk)
      | None => STrap TStuck end
  | Load w n sx off, a :: stk =>
      match the_mem s ii with
      | Some (ma, m) =>
          let ea := to_u32 D a + off in
          if ea + Z.of_nat n <=? mlen m then
            let raw := rd_le (mdata m) ea n in
            SOk s (setstack f (of_bits D w (if sx then sext n w raw else raw) :: stk))
          else STrap TOob
      | None => STrap TStuck end
  | Store n off, v :: a :: stk =>
      match the_mem s ii with
      | Some (ma, m) =>
          let ea := to_u32 D a + off in
          if ea + Z.of_nat n <=? mlen m then
            let m' := {| mlen := mlen m; mmax := mmax m; mdata := wr_le (mdata m) ea n (to_bits D v) |} in
            SOk (set_mems s (upd (s_mems s) ma m')) (setstack f stk)
          else STrap TOob
      | None => STrap TStuck end
  | MemorySize, stk =>
      match the_mem s ii with
      | Some (ma, m) => SOk s (setstack f (of_bits D 32 (mlen m / 65536) :: stk))
      | None => STrap TStuck end
  | MemoryGrow, d :: stk =>
      match the_mem s ii with
      | Some (ma, m) =>
          let cur := mlen m / 65536 in
          let dz := to_u32 D d in
          if cur + dz <=? mmax m then
            let m' := {| mlen := (cur + dz) * 65536; mmax := mmax m; mdata := mdata m |} in
            SOk (set_mems s (upd (s_mems s) ma m')) (setstack f (of_bits D 32 cur :: stk))
          else SOk s (setstack f (of_bits D 32 (2 ^ 32 - 1) :: stk))
      | None => STrap TStuck end
  | (Block _ _ _ | Loop _ _ _ | If _ _ _ _ | Br _ | BrIf _ | BrTable _ _ | Return | Call _ | CallIndirect _), _ => SNot
  | _, _ => STrap TStuck
  end.

(* invoke: call of store function [fa] with [args] at call depth [depth]; [ex] is the interpreter for
   function bodies (exec with the remaining fuel). Results are returned in declaration order. *)
Inductive ires := IOk (s : store) (vs : list V) | ITrap (t : trapk) (s : store) | IFuel.

Definition run_body (ex : nat -> nat -> store -> frame -> list instr -> out)
           (depth ci : nat) (s : store) (args : list V) (nr nl : nat) (body : list instr) : ires :=
  match ex depth ci s {| stack := []; locals := args ++ zeros nl |} body with
  | Normal s' f' | Ret s' f' | Branch _ s' f' => IOk s' (rev (firstn nr (stack f')))
  | Trap t s' => ITrap t s'
  | OutOfFuel => IFuel
  end.

(* listener bracketing around a call *)
Definition bracket (fa : nat) (args : list V) (s : store) (k : store -> ires) : ires :=
  if listened fa then
    match k (add_log s (EBefore fa args)) with
    | IOk s' vs => IOk (add_log s' (EAfter fa vs)) vs
    | ITrap t s' => ITrap t (add_log s' (EAbort fa))
    | IFuel => IFuel
    end
  else k s.

Definition invoke_with (ex : nat -> nat -> store -> frame -> list instr -> out)
           (depth : nat) (s : store) (fa : nat) (args : list V) : ires :=
  bracket fa args s (fun s0 =>
    if Nat.ltb maxdepth depth then ITrap TExhaust s0 else
    match nth_error (s_funcs s0) fa with
    | None => ITrap TStuck s0
    | Some (FWasm ci tp tr nl body) => run_body ex (S depth) ci s0 args (length tr) nl body
    | Some (FHost h tp tr) =>
        let s1 := add_log s0 (EHost h args) in
        match host h args with
        | HRet vs => IOk s1 vs
        | HPanic c => ITrap (THostPanic c) s1
        | HExit c => ITrap (TExit c) s1
        | HReenter g gargs =>
            (* the host calls back a guest function and returns its results *)
            match nth_error (s_funcs s1) g with
            | Some (FWasm ci gtp gtr gnl gbody) =>
                bracket g gargs s1 (fun s2 => run_body ex (S (S depth)) ci s2 gargs (length gtr) gnl gbody)
            | _ => ITrap TStuck s1
            end
        end
    end).

(* exec: instruction sequences of the function running in instance [ii] at call depth [depth]. *)
Fixpoint exec (fuel : nat) (depth : nat) (ii : nat) (s : store) (f : frame) (is : list instr) {struct fuel} : out :=
  match fuel with
  | O => OutOfFuel
  | S fu =>
    let invoke := invoke_with (exec fu) depth in
    match is with
    | [] => Normal s f
    | i :: rest =>
      let continue s' f' := exec fu depth ii s' f' rest in
      let me := the_inst s ii in
      let block_like (np nr : nat) (body : list instr) (stk : list V) (loopbody : option (list instr)) :=
        match exec fu depth ii s {| stack := firstn np stk; locals := locals f |} body with
        | Normal s' f' => continue s' {| stack := firstn nr (stack f') ++ skipn np stk; locals := locals f' |}
        | Branch O s' f' =>
            match loopbody with
            | None => continue s' {| stack := firstn nr (stack f') ++ skipn np stk; locals := locals f' |}
            | Some lb => exec fu depth ii s' {| stack := firstn np (stack f') ++ skipn np stk; locals := locals f' |}
                              (Loop np nr lb :: rest)
            end
        | Branch (S n) s' f' => Branch n s' f'
        | o => o
        end in
      match step_simple ii s f i with
      | SOk s' f' => continue s' f'
      | STrap t => Trap t s
      | SNot =>
      match i, stack f with
      | Block np nr body, stk => block_like np nr body stk None
      | Loop np nr body, stk => block_like np nr body stk (Some body)
      | If np nr t e, c :: stk =>
          match exec fu depth ii s {| stack := firstn np stk; locals := locals f |} (if truthy D c then t else e) with
          | Normal s' f' | Branch O s' f' =>
              continue s' {| stack := firstn nr (stack f') ++ skipn np stk; locals := locals f' |}
          | Branch (S n) s' f' => Branch n s' f'
          | o => o
          end
      | Br n, _ => Branch n s f
      | BrIf n, c :: stk => if truthy D c then Branch n s (setstack f stk) else continue s (setstack f stk)
      | BrTable ls d, c :: stk =>
          let idx := to_u32 D c in
          Branch (if idx <? Z.of_nat (length ls) then nth (Z.to_nat idx) ls d else d) s (setstack f stk)
      | Return, _ => Ret s f
      | Call k, stk =>
          match nth_error (i_funcs me) k with
          | None => Trap TStuck s
          | Some fa =>
              let np := match nth_error (s_funcs s) fa with
                        | Some (FWasm _ tp _ _ _) | Some (FHost _ tp _) => length tp | None => O end in
              match invoke s fa (rev (firstn np stk)) with
              | IOk s' vs => continue s' (setstack f (rev vs ++ skipn np stk))
              | ITrap t s' => Trap t s'
              | IFuel => OutOfFuel
              end
          end
      | CallIndirect ty, c :: stk =>
          match i_tab me with
          | None => Trap TStuck s
          | Some ta =>
              let tab := nth ta (s_tabs s) [] in
              let idx := to_u32 D c in
              match (if idx <? Z.of_nat (length tab) then nth_error tab (Z.to_nat idx) else None) with
              | None | Some None => Trap TIndirect s
              | Some (Some fa) =>
                  let want := nth ty (i_types me) ([], []) in
                  let have := match nth_error (s_funcs s) fa with
                              | Some (FWasm _ tp tr _ _) | Some (FHost _ tp tr) => Some (tp, tr) | None => None end in
                  match have with
                  | Some (tp, tr) =>
                      let np := length tp in
                      if list_eqb tp (fst want) && list_eqb tr (snd want) then
                        match invoke s fa (rev (firstn np stk)) with
                        | IOk s' vs => continue s' (setstack f (rev vs ++ skipn np stk))
                        | ITrap t s' => Trap t s'
                        | IFuel => OutOfFuel
                        end
                      else Trap TIndirect s
                  | None => Trap TStuck s
                  end
              end
          end
      | _, _ => Trap TStuck s
      end
      end
    end
  end.

(* calling an exported function from the host: a one-instruction driver frame in the callee's instance *)
Inductive result := RVals (vs : list V) | RTrap (t : trapk) | RFuel.

Definition call_export (fuel : nat) (s : store) (fa : nat) (args : list V) : store * result :=
  let '(ii, np, nr) := match nth_error (s_funcs s) fa with
                       | Some (FWasm ii tp tr _ _) => (ii, length tp, length tr)
                       | Some (FHost _ tp tr) => (O, length tp, length tr) | None => (O, O, O) end in
  (* a synthetic instance whose function 0 is fa *)
  let drv := {| i_funcs := [fa]; i_globals := []; i_mem := None; i_tab := None; i_types := [] |} in
  let s1 := {| s_funcs := s_funcs s; s_insts := s_insts s ++ [drv]; s_globals := s_globals s; s_mems := s_mems s;
               s_tabs := s_tabs s; s_log := s_log s |} in
  let strip s' := {| s_funcs := s_funcs s'; s_insts := firstn (length (s_insts s)) (s_insts s'); s_globals := s_globals s';
                     s_mems := s_mems s'; s_tabs := s_tabs s'; s_log := s_log s' |} in
  match exec fuel O (length (s_insts s)) s1 {| stack := rev args; locals := [] |} [Call O] with
  | Normal s' f' | Ret s' f' | Branch _ s' f' => (strip s', RVals (rev (firstn nr (stack f'))))
  | Trap t s' => (strip s', RTrap t)
  | OutOfFuel => (s, RFuel)
  end.

(* a history of export calls on one store *)
Fixpoint run_calls (fuel : nat) (s : store) (calls : list (nat * list V)) : store * list result :=
  match calls with
  | [] => (s, [])
  | (fa, args) :: r =>
      let '(s1, x) := call_export fuel s fa args in
      let '(s2, xs) := run_calls fuel s1 r in (s2, x :: xs)
  end.

End Exec.

Arguments stack {D} _. Arguments locals {D} _.
Arguments Normal {D} _ _. Arguments Branch {D} _ _ _. Arguments Ret {D} _ _. Arguments Trap {D} _ _. Arguments OutOfFuel {D}.
Arguments s_funcs {D} _. Arguments s_insts {D} _. Arguments s_globals {D} _. Arguments s_mems {D} _.
Arguments s_tabs {D} _. Arguments s_log {D} _.
Arguments IOk {D} _ _. Arguments ITrap {D} _ _. Arguments IFuel {D}.
Arguments SOk {D} _ _. Arguments STrap {D} _. Arguments SNot {D}.
Arguments RVals {D} _. Arguments RTrap {D} _. Arguments RFuel {D}.

(* ---------------------------------------------------------------- the specification domain *)
Definition spec_un (o : unop) (x : Z) : Z :=
  match o with
  | UInt w u => eval_iunop w u x
  | UEqz w => ieqz w x
  | UWrap => wrap_i64 x
  | UExtS => extend_i32_s x
  | UExtU => extend_i32_u x
  end.
Definition spec_bin (o : binop) (x y : Z) : option Z :=
  match o with
  | BInt w b => eval_ibinop w b x y
  | BRel w r => Some (eval_irelop w r x y)
  end.
Definition Spec : domain :=
  {| val := Z; of_const := fun w c => modN w c; d_un := spec_un; d_bin := spec_bin;
     truthy := fun x => negb (x =? 0); to_u32 := fun x => modN 32 x; to_bits := fun x => x; of_bits := fun _ b => b |}.
