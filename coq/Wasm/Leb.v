(* C03: model of /repo/internal/leb128/leb128.go on byte lists (bytes are Z in [0,256)).
   Every function follows the Go control flow statement by statement: loop bounds, the
   accumulation `ret |= (b & 0x7f) << shift` in the Go type of `ret` (so wrap-around at the
   5th/10th byte is explicit), the sign extension and the overflow checks exactly as coded.
   The Decode* (io.ByteReader) and Load* ([]byte) variants share one body in Go
   (decodeUint32/decodeInt32/decodeInt64 over a `nextByte`), hence one model each; the model's
   byte list is the reader's remaining input resp. the buffer.
   tools/go2coq has no loops and no slices, and leb128.go has no loop-free helper besides the
   two wrappers EncodeInt32/EncodeUint32 (conversions), so everything here is transcribed by
   hand and tied to the code by the correspondence run of checks/c03.py (all byte strings of
   length <= 2, boundary and random strings up to 11 bytes; encoders on boundary/random values).
   No proofs in this file. *)
From Verif Require Import Lib.GoInt.
Open Scope Z_scope.

(* result of a decoder: value and bytes read | io.EOF (input ended inside the number) | errOverflowNN *)
Inductive lres := LOk (v n : Z) | LEof | LOvf.

(* ---- unsigned: decodeUint32 (DecodeUint32, LoadUint32) and LoadUint64 ----
   for i := 0; i < maxVarintLen; i++ { b := next; if b < 0x80 { if i == last && chk(b) {overflow}; return ret | b<<s, i+1 };
                                        ret |= (b & 0x7f) << s; s += 7 }; return overflow
   [fuel] is the number of iterations left (maxVarintLen32 = 5, maxVarintLen64 = 10). *)
Fixpoint decU (w last : Z) (chk : Z -> bool) (fuel : nat) (bs : list Z) (i s ret : Z) : lres :=
  match fuel with
  | O => LOvf
  | S f =>
    match bs with
    | [] => LEof
    | b :: r =>
      if b <? 128 then
        if (i =? last) && chk b then LOvf
        else LOk (Z.lor ret (shlv w b s)) (i + 1)
      else decU w last chk f r (i + 1) (wrap w (s + 7)) (Z.lor ret (shlv w (Z.land b 127) s))
    end
  end.

(* i == maxVarintLen32-1 && (b&0xf0) > 0 *)
Definition DecodeUint32 (bs : list Z) : lres := decU 32 4 (fun b => 0 <? Z.land b 240) 5 bs 0 0 0.
(* i == maxVarintLen64-1 && b > 1 ; the leading `bufLen == 0 -> EOF` coincides with the loop's EOF *)
Definition LoadUint64 (bs : list Z) : lres := decU 64 9 (fun b => 1 <? b) 10 bs 0 0 0.

(* ---- signed: decodeInt32 (DecodeInt32, LoadInt32) and decodeInt64 (DecodeInt64, LoadInt64) ----
   for { b := next; ret |= (intW(b) & 0x7f) << shift; shift += 7; bytesRead++
         if b&0x80 == 0 { if shift < W && b&0x40 != 0 { ret |= ^0 << shift }
                          if bytesRead > max -> overflow
                          unused := b & umask
                          if bytesRead == max && ret < 0 && unused != umask -> overflow
                          if bytesRead == max && ret >= 0 && unused != 0 -> overflow
                          return } }
   The Go loop has NO bound on the number of continuation bytes it reads: the recursion is on the
   input itself. `x << shift` with shift >= W is 0 in Go (sshlv). *)
Fixpoint decS (w maxlen umask : Z) (bs : list Z) (ret shift n : Z) : lres :=
  match bs with
  | [] => LEof
  | b :: r =>
    let ret := Z.lor ret (sshlv w (Z.land b 127) shift) in
    let shift := shift + 7 in
    let n := n + 1 in
    if Z.land b 128 =? 0 then
      let ret := if (shift <? w) && negb (Z.land b 64 =? 0) then Z.lor ret (sshlv w (-1) shift) else ret in
      if maxlen <? n then LOvf
      else if (n =? maxlen) && (ret <? 0) && negb (Z.land b umask =? umask) then LOvf
      else if (n =? maxlen) && (0 <=? ret) && negb (Z.land b umask =? 0) then LOvf
      else LOk ret n
    else decS w maxlen umask r ret shift n
  end.

Definition DecodeInt32 (bs : list Z) : lres := decS 32 5 48 bs 0 0 0.    (* unused := b & 0b00110000 *)
Definition DecodeInt64 (bs : list Z) : lres := decS 64 10 62 bs 0 0 0.   (* unused := b & 0b00111110 *)

(* ---- DecodeInt33AsInt64 (block types) ----
   for shift < 35 { rb := ReadByte; b = int64(rb); ret |= (b & ^0x80) << shift; shift += 7; bytesRead++; if b&0x80 == 0 {break} }
   if shift < 33 && b&0x40 == 0x40 { ret |= (2^33-1) << shift }
   ret &= 2^33-1 ; if ret & 2^32 > 0 { ret -= 2^33 } ; overflow checks with unused := b & 0b00100000 .
   Note (as coded): after five continuation bytes the loop simply ends and the value is returned. *)
Definition fin33 (ret shift n b : Z) : lres :=
  let ret := if (shift <? 33) && (Z.land b 64 =? 64) then Z.lor ret (sshlv 64 8589934591 shift) else ret in
  let ret := Z.land ret 8589934591 in
  let ret := if 0 <? Z.land ret 4294967296 then ret - 8589934592 else ret in
  if 5 <? n then LOvf
  else if (n =? 5) && (ret <? 0) && negb (Z.land b 32 =? 32) then LOvf
  else if (n =? 5) && (0 <=? ret) && negb (Z.land b 32 =? 0) then LOvf
  else LOk ret n.

Fixpoint dec33 (fuel : nat) (bs : list Z) (ret shift n b : Z) : lres :=
  match fuel with
  | O => fin33 ret shift n b                     (* shift reached 35 *)
  | S f =>
    match bs with
    | [] => LEof
    | rb :: r =>
      let ret := Z.lor ret (sshlv 64 (Z.land rb (Z.lnot 128)) shift) in
      if Z.land rb 128 =? 0 then fin33 ret (shift + 7) (n + 1) rb
      else dec33 f r ret (shift + 7) (n + 1) rb
    end
  end.

Definition DecodeInt33AsInt64 (bs : list Z) : lres := dec33 5 bs 0 0 0 0.

(* ---- encoders ----
   EncodeUint64: for { b := uint8(value & 0x7f); value >>= 7; if value != 0 { b |= 0x80 }; buf = append(buf, b); if b&0x80 == 0 { return } }
   The Go loops are unbounded; [fuel] bounds the iterations and None stands for "did not
   terminate within fuel" (never silently totalised; LebP proves it does not happen in range). *)
Fixpoint encU (fuel : nat) (v : Z) : option (list Z) :=
  match fuel with
  | O => None
  | S f =>
    let b := Z.land v 127 in
    let v' := shr v 7 in
    let b := if negb (v' =? 0) then Z.lor b 128 else b in
    if Z.land b 128 =? 0 then Some [b]
    else match encU f v' with Some l => Some (b :: l) | None => None end
  end.

Definition EncodeUint64 (v : Z) : option (list Z) := encU 10 v.
Definition EncodeUint32 (v : Z) : option (list Z) := EncodeUint64 v.        (* EncodeUint64(uint64(value)) *)

(* EncodeInt64: for { b := uint8(value & 0x7f); s := uint8(value & 0x40); value >>= 7 (arithmetic)
                      if (value != -1 || s == 0) && (value != 0 || s != 0) { b |= 0x80 }; append; if b&0x80 == 0 {break} } *)
Fixpoint encS (fuel : nat) (v : Z) : option (list Z) :=
  match fuel with
  | O => None
  | S f =>
    let b := Z.land v 127 in
    let s := Z.land v 64 in
    let v' := shr v 7 in
    let b := if (negb (v' =? -1) || (s =? 0)) && (negb (v' =? 0) || negb (s =? 0)) then Z.lor b 128 else b in
    if Z.land b 128 =? 0 then Some [b]
    else match encS f v' with Some l => Some (b :: l) | None => None end
  end.

Definition EncodeInt64 (v : Z) : option (list Z) := encS 10 v.
Definition EncodeInt32 (v : Z) : option (list Z) := EncodeInt64 v.          (* EncodeInt64(int64(value)) *)

(* ---- correspondence cases (checks/c03.py) ----
   decoder case: (function, input bytes, observed class, observed value, observed bytesRead)
     function: 0 DecodeUint32  1 LoadUint32  2 LoadUint64  3 DecodeInt32  4 LoadInt32  5 DecodeInt33AsInt64  6 DecodeInt64  7 LoadInt64
     class: 0 ok, 1 EOF, 2 overflow
   encoder case: (function, value, observed bytes): 10 EncodeUint32  11 EncodeUint64  12 EncodeInt32  13 EncodeInt64 *)
Definition run_dec (f : Z) (bs : list Z) : lres :=
  if (f =? 0) || (f =? 1) then DecodeUint32 bs
  else if f =? 2 then LoadUint64 bs
  else if (f =? 3) || (f =? 4) then DecodeInt32 bs
  else if f =? 5 then DecodeInt33AsInt64 bs
  else DecodeInt64 bs.

Definition run_enc (f : Z) (v : Z) : option (list Z) :=
  if f =? 10 then EncodeUint32 v else if f =? 11 then EncodeUint64 v
  else if f =? 12 then EncodeInt32 v else EncodeInt64 v.

Definition lres_eqb (a : lres) (cls v n : Z) : bool :=
  match a with
  | LOk v' n' => (cls =? 0) && (v =? v') && (n =? n')
  | LEof => cls =? 1
  | LOvf => cls =? 2
  end.

Fixpoint zlist_eqb (a b : list Z) : bool :=
  match a, b with
  | [], [] => true
  | x :: a', y :: b' => (x =? y) && zlist_eqb a' b'
  | _, _ => false
  end.

Inductive lcase :=
| CDec (f : Z) (bs : list Z) (cls v n : Z)
| CEnc (f : Z) (v : Z) (out : list Z).

Definition check_lcase (c : lcase) : bool :=
  match c with
  | CDec f bs cls v n => lres_eqb (run_dec f bs) cls v n
  | CEnc f v out => match run_enc f v with Some l => zlist_eqb l out | None => false end
  end.

Fixpoint lmismatches (i : Z) (cs : list lcase) : list (Z * Z) :=
  match cs with
  | [] => []
  | c :: r => if check_lcase c then lmismatches (i + 1) r else (i, 0) :: lmismatches (i + 1) r
  end.
