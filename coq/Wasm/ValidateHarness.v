(* Glue for the correspondence runs: a differential case (Wasm/Harness.v) together with the TYPED mirror of its
   program (harness/c01t: decoded from the module bytes the engines execute). The case is first validated by the
   checker of Wasm/Validate.v against the case's own store, then run as before. No proofs in this file. *)
From Coq Require Import ZArith List Bool.
From Verif Require Import Wasm.Numerics Wasm.Sem Wasm.Harness Wasm.Validate.
Import ListNotations.
Open Scope Z_scope.

Record vcase := { v_case : dcase; v_funcs : list tfuncdef; v_gt : list Z }.

(* 3001: the store's code is not the erasure of the typed functions; 3000: the checker rejects the program;
   otherwise the code of check_dcase *)
Definition check_vcase (c : vcase) : Z :=
  let v := validate_case (v_funcs c) (v_gt c) (d_store (v_case c)) in
  if v =? 0 then check_dcase (v_case c) else v.

Fixpoint vmismatches (i : Z) (cs : list vcase) : list (Z * Z) :=
  match cs with
  | [] => []
  | c :: r => let d := check_vcase c in
              if d =? -1 then vmismatches (i + 1) r else (i, d) :: vmismatches (i + 1) r
  end.
