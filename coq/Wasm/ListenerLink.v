(* C20, linked programs: a history of instantiations (Rt/Linking.v [instantiate], whose start function is run by W
   with the listener set), post-instantiation start functions (_start / WithStartFunctions) and export calls on the
   multi-instance store of W, with a host module whose functions return, panic, exit or call the guest back.
   The events W logs along the history are compared with the ones a recording FunctionListenerFactory saw on an
   engine. Executable definitions only. *)
From Coq Require Import ZArith List Bool.
From Verif Require Import Wasm.Numerics Wasm.Sem Wasm.Harness Rt.Linking.
Import ListNotations.
Open Scope Z_scope.

(* ---- the host module: (model code h, parameter widths, result widths); exported under the names 0, 1, ... ---- *)
Definition hostsig := (nat * list Z * list Z)%type.

Fixpoint hres_al (l : list hostsig) (h : nat) : list Z :=
  match l with
  | [] => []
  | (k, _, tr) :: r => if Nat.eqb k h then tr else hres_al r h
  end.

(* kinds (h mod 8): 2 panics and 3 exits when its second argument is divisible by 3, 4 calls back the function at
   store address h / 8 with its own arguments, the others return the standard values *)
Definition lk_host (hs : list hostsig) (h : nat) (args : list Z) : hostres Z :=
  let x := nth 1 args 0 in
  let std := std_host (hres_al hs) h args in
  match Nat.modulo h 8 with
  | 2%nat => if x mod 3 =? 0 then HPanic x else std
  | 3%nat => if x mod 3 =? 0 then HExit (x mod 5 + 1) else std
  | 4%nat => HReenter (Nat.div h 8) args
  | _ => std
  end.

Fixpoint host_exports (base k : nat) (hs : list hostsig) : list (Z * extern) :=
  match hs with
  | [] => []
  | _ :: r => (Z.of_nat k, EFunc (base + k)) :: host_exports base (S k) r
  end.

Definition add_hosts (st : lstore) (hs : list hostsig) : lstore :=
  let s := ls st in
  let s' := Build_store Spec (s_funcs s ++ map (fun x : hostsig => let '(h, tp, tr) := x in FHost h tp tr) hs)
                        (s_insts s) (s_globals s) (s_mems s) (s_tabs s) (s_log s) in
  with_x (with_ls st s') (Some (host_exports (length (s_funcs s)) O hs)).

(* ---- the history ---- *)
Inductive lact :=
| LInst (m : modul) (starts : list nat)       (* instantiate, then call these functions (module index space) without arguments *)
| LCall (mn fi : nat) (args : list Z)         (* function fi (module index space) of the mn-th instantiation *)
| LSkip.                                      (* an instantiation that was not attempted: occupies its position *)

Inductive lres := RInst (code : Z) | RCall (r : result Spec) | RSkip | RBad.

Record lprog := { p_hosts : list hostsig; p_acts : list lact }.

Definition LIMIT : Z := 65536.

Section Run.
Variable host : nat -> list Z -> hostres Z.
Variable listened : nat -> bool.

Definition lk_start (s : store Spec) (fa : nat) : store Spec * Z :=
  match call_export Spec host listened MAXDEPTH FUEL s fa [] with
  | (s', RVals _) => (s', 0)
  | (s', RTrap _) => (s', 1)
  | (s', RFuel) => (s', 2)
  end.

Definition without_start (m : modul) : modul :=
  {| md_types := md_types m; md_imports := md_imports m; md_funcs := md_funcs m; md_table := md_table m; md_mem := md_mem m;
     md_globals := md_globals m; md_exports := md_exports m; md_elems := md_elems m; md_datas := md_datas m; md_start := None |}.

(* the trap that ended the start function: the same call on the same store, recomputed to read its class
   ([instantiate] keeps "failed" only) *)
Definition start_trap (st : lstore) (m : modul) : Z :=
  let ii := length (s_insts (ls st)) in
  let '(st0, _) := instantiate (fun s _ => (s, 0)) LIMIT st (without_start m) in
  match md_start m with
  | Some f =>
      let fa := nth f (i_funcs (the_inst Spec (ls st0) ii)) O in
      match call_export Spec host listened MAXDEPTH FUEL (ls st0) fa [] with
      | (_, RTrap t) => trap_code t
      | _ => -1
      end
  | None => -1
  end.

Definition START_FAILED : Z := 100000.

Definition unregister_last (st : lstore) : lstore :=
  {| ls := ls st; ls_g := ls_g st; ls_t := ls_t st; ls_m := ls_m st; ls_x := removelast (ls_x st) ++ [None] |}.

(* runtime.go InstantiateModule: the start functions of the configuration, in order; the first failure closes the module *)
Fixpoint run_starts (st : lstore) (ii : nat) (starts : list nat) : lstore * Z :=
  match starts with
  | [] => (st, 0)
  | fi :: r =>
      let fa := nth fi (i_funcs (the_inst Spec (ls st) ii)) O in
      match call_export Spec host listened MAXDEPTH FUEL (ls st) fa [] with
      | (s', RVals _) => run_starts (with_ls st s') ii r
      | (s', RTrap t) => (unregister_last (with_ls st s'), START_FAILED + trap_code t)
      | (_, RFuel) => (st, E_FUEL)
      end
  end.

Definition linst (st : lstore) (m : modul) (starts : list nat) : lstore * Z :=
  let ii := length (s_insts (ls st)) in
  let '(st1, c) := instantiate lk_start LIMIT st m in
  if c =? E_START then (st1, START_FAILED + start_trap st m)
  else if negb (c =? 0) then (st1, c)
  else run_starts st1 ii starts.

(* mm: instance index per position of the history's instantiations (position 0 is the host module) *)
Fixpoint lrun (st : lstore) (mm : list (option nat)) (acts : list lact) : lstore * list lres :=
  match acts with
  | [] => (st, [])
  | LSkip :: r =>
      let '(st', rs) := lrun (with_x st None) (mm ++ [None]) r in (st', RSkip :: rs)
  | LInst m starts :: r =>
      let ii := length (s_insts (ls st)) in
      let '(st1, c) := linst st m starts in
      let allocated := Nat.ltb ii (length (s_insts (ls st1))) in
      let '(st', rs) := lrun st1 (mm ++ [if allocated then Some ii else None]) r in (st', RInst c :: rs)
  | LCall mn fi args :: r =>
      match nth mn mm None with
      | None => (st, [RBad])
      | Some ii =>
          match nth_error (i_funcs (the_inst Spec (ls st) ii)) fi with
          | None => (st, [RBad])
          | Some fa =>
              let '(s', res) := call_export Spec host listened MAXDEPTH FUEL (ls st) fa args in
              let '(st', rs) := lrun (with_ls st s') mm r in (st', RCall res :: rs)
          end
      end
  end.

Definition lrun_prog (hs : list hostsig) (acts : list lact) : lstore * list lres :=
  lrun (add_hosts empty_lstore hs) [None] acts.

End Run.

(* ---- comparison with an engine's observations ---- *)
Inductive lobs := OSkip | OInst (code : Z) | OCall (o : obs).

Record lkcase := {
  k_prog : lprog;
  k_mask : list bool;                         (* listener per store function address *)
  k_obs : list lobs;                          (* per action *)
  k_events : list (Z * Z * list Z);
  k_hlog : list (Z * list Z);
  k_globals : list (nat * Z) }.               (* (global address, final value) of the instances that can be read *)

Fixpoint lres_fuel (rs : list lres) : bool :=
  match rs with
  | [] => false
  | RCall RFuel :: _ => true
  | RInst c :: r => (c =? E_FUEL) || lres_fuel r
  | _ :: r => lres_fuel r
  end.

Definition lres_match (r : lres) (o : lobs) : bool :=
  match r, o with
  | RSkip, OSkip => true
  | RInst c, OInst d => c =? d
  | RCall x, OCall y => obs_match x y
  | _, _ => false
  end.

Fixpoint first_lres_diff (i : Z) (rs : list lres) (os : list lobs) : Z :=
  match rs, os with
  | [], [] => -1
  | r :: rr, o :: oo => if lres_match r o then first_lres_diff (i + 1) rr oo else i
  | _, _ => i
  end.

Fixpoint globals_agree (s : store Spec) (l : list (nat * Z)) : bool :=
  match l with
  | [] => true
  | (a, v) :: r => (glob_val s a =? v) && globals_agree s r
  end.

(* -1 agree; -3 the model ran out of fuel; i >= 0 first differing step; 2000 event stream; 1000 host log; 1001 globals *)
Definition check_lkcase (c : lkcase) : Z :=
  let hs := p_hosts (k_prog c) in
  let '(st, rs) := lrun_prog (lk_host hs) (fun fa => nth fa (k_mask c) false) hs (p_acts (k_prog c)) in
  if lres_fuel rs then -3 else
  let d := first_lres_diff 0 rs (k_obs c) in
  if negb (d =? -1) then d else
  if negb (lev_eqb (listener_events (s_log (ls st))) (k_events c)) then 2000 else
  if negb (hlog_eqb (host_events (s_log (ls st))) (k_hlog c)) then 1000 else
  if negb (globals_agree (ls st) (k_globals c)) then 1001 else -1.

Fixpoint lkmismatches (i : Z) (cs : list lkcase) : list (Z * Z) :=
  match cs with
  | [] => []
  | c :: r => let d := check_lkcase c in
              if d =? -1 then lkmismatches (i + 1) r else (i, d) :: lkmismatches (i + 1) r
  end.
