(* WebAssembly floating-point numerics (spec side) on BIT PATTERNS: an fN value is the unsigned integer
   0 <= x < 2^N holding its IEEE-754 encoding. Written from the core specification, NOT from wazero's code.
   Two layers:
   - a bit-level layer in plain Z arithmetic (classification, order, min/max, abs/neg/copysign, the integral
     roundings ceil/floor/trunc/nearest, float->int truncations): exact rational reasoning on (sign, m, e);
   - a Flocq 4.1 layer (IEEE754.Binary/Bits) for the correctly rounded operations: add sub mul div sqrt,
     int->float conversions and demote/promote, all round-to-nearest ties-to-even.
   NaN results: the functions return the positive canonical NaN; which NaNs the specification allows is
   expressed by nan_canon_required / f_is_canon_nan / f_is_arith_nan and used by NumericsOps.res_ok.
   Everything is executable by vm_compute. No proofs in this file. *)
From Coq Require Import ZArith Bool List.
From Flocq Require Import IEEE754.Binary IEEE754.Bits.
From Flocq Require IEEE754.BinarySingleNaN.
From Verif Require Import Wasm.Numerics.
Import ListNotations.
Open Scope Z_scope.

(* ------------------------------------------------------------------------------------------------ *)
(* bit-level layer; mw = mantissa field width, ew = exponent field width (f32: 23 8, f64: 52 11)     *)

Definition f_width (mw ew : Z) : Z := mw + ew + 1.
Definition f_bias (ew : Z) : Z := 2 ^ (ew - 1) - 1.
Definition f_sign (mw ew x : Z) : Z := x / 2 ^ (mw + ew).            (* 0 or 1 *)
Definition f_mag (mw ew x : Z) : Z := x mod 2 ^ (mw + ew).           (* the encoding without its sign bit *)
Definition f_exp (mw ew x : Z) : Z := (x / 2 ^ mw) mod 2 ^ ew.
Definition f_frac (mw x : Z) : Z := x mod 2 ^ mw.

Definition f_nan (mw ew x : Z) : bool := (f_exp mw ew x =? 2 ^ ew - 1) && negb (f_frac mw x =? 0).
Definition f_inf (mw ew x : Z) : bool := (f_exp mw ew x =? 2 ^ ew - 1) && (f_frac mw x =? 0).
Definition f_zero (mw ew x : Z) : bool := f_mag mw ew x =? 0.
(* canonical NaN: payload is exactly the most significant mantissa bit (sign free); arithmetic NaN: that bit set *)
Definition f_canon (mw ew : Z) : Z := (2 ^ ew - 1) * 2 ^ mw + 2 ^ (mw - 1).
Definition f_canon_nan (mw ew x : Z) : bool := f_mag mw ew x =? f_canon mw ew.
Definition f_arith_nan (mw ew x : Z) : bool := f_nan mw ew x && (2 ^ (mw - 1) <=? f_frac mw x).
Definition f_pinf (mw ew : Z) : Z := (2 ^ ew - 1) * 2 ^ mw.

(* a finite x denotes (-1)^sign * f_m * 2^f_e *)
Definition f_m (mw ew x : Z) : Z := if f_exp mw ew x =? 0 then f_frac mw x else f_frac mw x + 2 ^ mw.
Definition f_e (mw ew x : Z) : Z := (if f_exp mw ew x =? 0 then 1 else f_exp mw ew x) - f_bias ew - mw.

(* order: a strictly monotone map from the non-NaN values into Z; -0 and +0 both map to 0 *)
Definition f_key (mw ew x : Z) : Z := if f_sign mw ew x =? 0 then f_mag mw ew x else - f_mag mw ew x.

Definition f_eq (mw ew a b : Z) : Z := if f_nan mw ew a || f_nan mw ew b then 0 else b2z (f_key mw ew a =? f_key mw ew b).
Definition f_ne (mw ew a b : Z) : Z := 1 - f_eq mw ew a b.
Definition f_lt (mw ew a b : Z) : Z := if f_nan mw ew a || f_nan mw ew b then 0 else b2z (f_key mw ew a <? f_key mw ew b).
Definition f_gt (mw ew a b : Z) : Z := f_lt mw ew b a.
Definition f_le (mw ew a b : Z) : Z := if f_nan mw ew a || f_nan mw ew b then 0 else b2z (f_key mw ew a <=? f_key mw ew b).
Definition f_ge (mw ew a b : Z) : Z := f_le mw ew b a.

(* sign-bit operators: defined on every bit pattern, NaNs included *)
Definition f_abs (mw ew x : Z) : Z := f_mag mw ew x.
Definition f_neg (mw ew x : Z) : Z := f_mag mw ew x + (1 - f_sign mw ew x) * 2 ^ (mw + ew).
Definition f_copysign (mw ew a b : Z) : Z := f_mag mw ew a + f_sign mw ew b * 2 ^ (mw + ew).

(* min / max: NaN if either operand is NaN; -0 is below +0 *)
Definition f_min (mw ew a b : Z) : Z :=
  if f_nan mw ew a || f_nan mw ew b then f_canon mw ew
  else if f_key mw ew a <? f_key mw ew b then a
  else if f_key mw ew b <? f_key mw ew a then b
  else if f_sign mw ew a =? 1 then a else b.
Definition f_max (mw ew a b : Z) : Z :=
  if f_nan mw ew a || f_nan mw ew b then f_canon mw ew
  else if f_key mw ew b <? f_key mw ew a then a
  else if f_key mw ew a <? f_key mw ew b then b
  else if f_sign mw ew a =? 0 then a else b.
(* the vector "pseudo" min / max: b < a ? b : a  and  a < b ? b : a *)
Definition f_pmin (mw ew a b : Z) : Z := if f_lt mw ew b a =? 1 then b else a.
Definition f_pmax (mw ew a b : Z) : Z := if f_lt mw ew a b =? 1 then b else a.

(* magnitude of the integer part (toward zero) of a finite value, and the signed truncation *)
Definition f_trunc_mag (mw ew x : Z) : Z :=
  let m := f_m mw ew x in let e := f_e mw ew x in
  if 0 <=? e then m * 2 ^ e else m / 2 ^ (- e).
Definition f_trunc_z (mw ew x : Z) : Z :=
  if f_sign mw ew x =? 0 then f_trunc_mag mw ew x else - f_trunc_mag mw ew x.

(* the float with the given sign whose magnitude is the integer n, 0 <= n <= 2^(mw+1) (exact) *)
Definition f_of_small_int (mw ew s n : Z) : Z :=
  s * 2 ^ (mw + ew) +
  (if n =? 0 then 0 else let k := Z.log2 n in (k + f_bias ew) * 2 ^ mw + (n * 2 ^ mw / 2 ^ k - 2 ^ mw)).

Inductive rounding := RCeil | RFloor | RTrunc | RNearest.

(* the magnitude of the integral rounding of m / 2^d (d > 0) for a value of sign s (0 or 1) *)
Definition f_round_int (r : rounding) (s m d : Z) : Z :=
  let q := m / 2 ^ d in let rem := m mod 2 ^ d in let half := 2 ^ (d - 1) in
  let up := if rem =? 0 then q else q + 1 in
  match r with
  | RTrunc => q
  | RFloor => if s =? 0 then q else up
  | RCeil => if s =? 0 then up else q
  | RNearest => if rem <? half then q else if half <? rem then q + 1 else if Z.even q then q else q + 1
  end.

(* integral roundings. NaN -> canonical NaN; infinities and values with e >= 0 are already integral; the sign is kept (so -0.5 -> -0) *)
Definition f_round (r : rounding) (mw ew x : Z) : Z :=
  if f_nan mw ew x then f_canon mw ew
  else if f_inf mw ew x then x
  else
    let e := f_e mw ew x in
    if 0 <=? e then x
    else f_of_small_int mw ew (f_sign mw ew x) (f_round_int r (f_sign mw ew x) (f_m mw ew x) (- e)).

(* float -> integer truncations. None = trap; the kind is given by f_trunc_trap *)
Definition f_to_int (signed : bool) (mw ew N x : Z) : option Z :=
  if f_nan mw ew x || f_inf mw ew x then None
  else let t := f_trunc_z mw ew x in
       if signed then (if (- 2 ^ (N - 1) <=? t) && (t <? 2 ^ (N - 1)) then Some (modN N t) else None)
       else (if (0 <=? t) && (t <? 2 ^ N) then Some t else None).
(* 3 = invalid conversion to integer (NaN), 2 = integer overflow *)
Definition f_trunc_trap (mw ew x : Z) : Z := if f_nan mw ew x then 3 else 2.

Definition f_to_int_sat (signed : bool) (mw ew N x : Z) : Z :=
  let lo := if signed then - 2 ^ (N - 1) else 0 in
  let hi := if signed then 2 ^ (N - 1) - 1 else 2 ^ N - 1 in
  if f_nan mw ew x then 0
  else let t := if f_inf mw ew x then (if f_sign mw ew x =? 0 then hi + 1 else lo - 1) else f_trunc_z mw ew x in
       modN N (if t <? lo then lo else if hi <? t then hi else t).

(* ------------------------------------------------------------------------------------------------ *)
(* Flocq layer: correctly rounded operations, round to nearest ties to even                         *)

Definition canon32 : Z := f_canon 23 8.
Definition canon64 : Z := f_canon 52 11.
Definition mode_NE := BinarySingleNaN.mode_NE.

Definition lift32_1 (op : binary32 -> binary32) (a : Z) : Z :=
  let r := op (b32_of_bits a) in if Binary.is_nan 24 128 r then canon32 else bits_of_b32 r.
Definition lift32_2 (op : binary32 -> binary32 -> binary32) (a b : Z) : Z :=
  let r := op (b32_of_bits a) (b32_of_bits b) in if Binary.is_nan 24 128 r then canon32 else bits_of_b32 r.
Definition lift64_1 (op : binary64 -> binary64) (a : Z) : Z :=
  let r := op (b64_of_bits a) in if Binary.is_nan 53 1024 r then canon64 else bits_of_b64 r.
Definition lift64_2 (op : binary64 -> binary64 -> binary64) (a b : Z) : Z :=
  let r := op (b64_of_bits a) (b64_of_bits b) in if Binary.is_nan 53 1024 r then canon64 else bits_of_b64 r.

Definition f32_add := lift32_2 (b32_plus mode_NE).
Definition f32_sub := lift32_2 (b32_minus mode_NE).
Definition f32_mul := lift32_2 (b32_mult mode_NE).
Definition f32_div := lift32_2 (b32_div mode_NE).
Definition f32_sqrt := lift32_1 (b32_sqrt mode_NE).
Definition f64_add := lift64_2 (b64_plus mode_NE).
Definition f64_sub := lift64_2 (b64_minus mode_NE).
Definition f64_mul := lift64_2 (b64_mult mode_NE).
Definition f64_div := lift64_2 (b64_div mode_NE).
Definition f64_sqrt := lift64_1 (b64_sqrt mode_NE).

(* the correctly rounded binary32 / binary64 nearest to m * 2^e (sz: sign of a zero result) *)
Definition round32 (m e : Z) (sz : bool) : Z :=
  bits_of_b32 (Binary.binary_normalize 24 128 eq_refl eq_refl mode_NE m e sz).
Definition round64 (m e : Z) (sz : bool) : Z :=
  bits_of_b64 (Binary.binary_normalize 53 1024 eq_refl eq_refl mode_NE m e sz).

(* int -> float: x is an N-bit integer, read signed or unsigned *)
Definition f32_convert (signed : bool) (N x : Z) : Z := round32 (if signed then sgn N x else x) 0 false.
Definition f64_convert (signed : bool) (N x : Z) : Z := round64 (if signed then sgn N x else x) 0 false.

Definition f32_demote (x : Z) : Z :=
  if f_nan 52 11 x then canon32
  else if f_inf 52 11 x then f_sign 52 11 x * 2 ^ 31 + f_pinf 23 8
  else let m := f_m 52 11 x in
       round32 (if f_sign 52 11 x =? 0 then m else - m) (f_e 52 11 x) (f_sign 52 11 x =? 1).
Definition f64_promote (x : Z) : Z :=
  if f_nan 23 8 x then canon64
  else if f_inf 23 8 x then f_sign 23 8 x * 2 ^ 63 + f_pinf 52 11
  else let m := f_m 23 8 x in
       round64 (if f_sign 23 8 x =? 0 then m else - m) (f_e 23 8 x) (f_sign 23 8 x =? 1).

(* ------------------------------------------------------------------------------------------------ *)
(* the named f32 / f64 operators                                                                     *)

Inductive frelop := FEq | FNe | FLt | FGt | FLe | FGe.
Inductive funop := FAbs | FNeg | FCeil | FFloor | FTrunc | FNearest | FSqrt.
Inductive fbinop := FAdd | FSub | FMul | FDiv | FMin | FMax | FCopysign.

Definition fmt (w : Z) : Z * Z := if w =? 32 then (23, 8) else (52, 11).

Definition eval_frelop (w : Z) (o : frelop) (a b : Z) : Z :=
  let '(mw, ew) := fmt w in
  match o with
  | FEq => f_eq mw ew a b | FNe => f_ne mw ew a b | FLt => f_lt mw ew a b
  | FGt => f_gt mw ew a b | FLe => f_le mw ew a b | FGe => f_ge mw ew a b
  end.
Definition eval_funop (w : Z) (o : funop) (a : Z) : Z :=
  let '(mw, ew) := fmt w in
  match o with
  | FAbs => f_abs mw ew a | FNeg => f_neg mw ew a
  | FCeil => f_round RCeil mw ew a | FFloor => f_round RFloor mw ew a
  | FTrunc => f_round RTrunc mw ew a | FNearest => f_round RNearest mw ew a
  | FSqrt => if w =? 32 then f32_sqrt a else f64_sqrt a
  end.
Definition eval_fbinop (w : Z) (o : fbinop) (a b : Z) : Z :=
  let '(mw, ew) := fmt w in
  match o with
  | FAdd => if w =? 32 then f32_add a b else f64_add a b
  | FSub => if w =? 32 then f32_sub a b else f64_sub a b
  | FMul => if w =? 32 then f32_mul a b else f64_mul a b
  | FDiv => if w =? 32 then f32_div a b else f64_div a b
  | FMin => f_min mw ew a b | FMax => f_max mw ew a b | FCopysign => f_copysign mw ew a b
  end.

(* NaN classes by total width *)
Definition f_is_nan (w x : Z) : bool := let '(mw, ew) := fmt w in f_nan mw ew x.
Definition f_is_canon_nan (w x : Z) : bool := let '(mw, ew) := fmt w in f_canon_nan mw ew x.
Definition f_is_arith_nan (w x : Z) : bool := let '(mw, ew) := fmt w in f_arith_nan mw ew x.
(* NaN propagation: when every NaN among the operands is canonical the result NaN must be canonical,
   otherwise any arithmetic NaN is allowed *)
Definition nan_canon_required (w : Z) (operands : list Z) : bool :=
  forallb (fun a => negb (f_is_nan w a) || f_is_canon_nan w a) operands.
(* the class comparison: bit-exact unless the specified value is a NaN *)
Definition f_result_ok (w : Z) (operands : list Z) (spec obs : Z) : bool :=
  if f_is_nan w spec then (if nan_canon_required w operands then f_is_canon_nan w obs else f_is_arith_nan w obs)
  else obs =? spec.
