#!/bin/bash
# Build the framework from files on disk only (offline): translator, generated model, Coq project, harnesses.
set -e
cd "$(dirname "$0")"
export GOFLAGS=-mod=mod GOPROXY=off GOSUMDB=off GOTOOLCHAIN=local
python3 - <<'PY'
import sys
sys.path.insert(0, "lib")
import vcheck, os
ok, log = vcheck.regen()
print("regen:", ok, log[-500:])
ok, log = vcheck.coq_make(timeout=3000)
print("coq build:", ok)
if not ok:
    print(log[-4000:]); sys.exit(1)
for h in sorted(os.listdir("harness")):
    if h == "common" or not os.path.isdir(os.path.join("harness", h)): continue
    b, log = vcheck.build_harness(h)
    print("harness", h, "ok" if b else "FAILED\n" + log[-2000:])
PY
